package verifrt

import (
	"bytes"
	"encoding/json"
	"fmt"
	"os"
	"os/exec"
	"path/filepath"
	"runtime"
	"strconv"
	"strings"
	"sync"
	"sync/atomic"
	"syscall"
	"time"
)

// ---------------------------------------------------------------- PRNG

// Rand is a small deterministic PRNG (splitmix64); every random choice of the
// monitors comes from one of these seeded from VERIF_SEED.
type Rand struct{ s uint64 }

func NewRand(seed int64, stream string) *Rand {
	s := uint64(seed)*0x9e3779b97f4a7c15 + 0x1234567
	for i := 0; i < len(stream); i++ {
		s = (s ^ uint64(stream[i])) * 0x100000001b3
	}
	r := &Rand{s: s}
	r.Uint64()
	return r
}

func (r *Rand) State() uint64 { return r.s }

func (r *Rand) Uint64() uint64 {
	r.s += 0x9e3779b97f4a7c15
	z := r.s
	z = (z ^ (z >> 30)) * 0xbf58476d1ce4e5b9
	z = (z ^ (z >> 27)) * 0x94d049bb133111eb
	return z ^ (z >> 31)
}

func (r *Rand) Intn(n int) int {
	if n <= 0 {
		return 0
	}
	return int(r.Uint64() % uint64(n))
}

func (r *Rand) Float() float64 { return float64(r.Uint64()>>11) / (1 << 53) }

func (r *Rand) Bool() bool { return r.Uint64()&1 == 1 }

// Prob returns true with probability p.
func (r *Rand) Prob(p float64) bool { return r.Float() < p }

func (r *Rand) Bytes(n int) []byte {
	b := make([]byte, n)
	for i := 0; i < n; i += 8 {
		v := r.Uint64()
		for j := 0; j < 8 && i+j < n; j++ {
			b[i+j] = byte(v >> (8 * j))
		}
	}
	return b
}

func Pick[T any](r *Rand, xs []T) T { return xs[r.Intn(len(xs))] }

func (r *Rand) Perm(n int) []int {
	p := make([]int, n)
	for i := range p {
		p[i] = i
	}
	for i := n - 1; i > 0; i-- {
		j := r.Intn(i + 1)
		p[i], p[j] = p[j], p[i]
	}
	return p
}

// ---------------------------------------------------------------- ticks

var (
	tickCount  atomic.Int64
	tickBudget atomic.Int64
	tickOver   atomic.Bool
)

// TickPanic is what Tick panics with when the budget is exhausted.
type TickPanic struct{ N int64 }

func (t TickPanic) Error() string { return fmt.Sprintf("verif: loop tick budget exceeded (%d)", t.N) }

// SetTickBudget arms the loop-tick monitor: after n more calls of Tick the
// next one panics (and a sticky flag is set, in case the panic is recovered
// by the code under test). n <= 0 disarms.
func SetTickBudget(n int64) {
	tickCount.Store(0)
	tickOver.Store(false)
	tickBudget.Store(n)
}

func Ticks() int64       { return tickCount.Load() }
func TickExceeded() bool { return tickOver.Load() }

// Tick is inserted by the rewriter as the first statement of every for body.
func Tick() {
	b := tickBudget.Load()
	if b <= 0 {
		return
	}
	if n := tickCount.Add(1); n > b {
		tickOver.Store(true)
		panic(TickPanic{n})
	}
}

// ---------------------------------------------------------------- child batches

// Batch returns the batch index this process should run, or -1 in the parent.
func Batch() int {
	if s := os.Getenv("VERIF_BATCH"); s != "" {
		n, _ := strconv.Atoi(s)
		return n
	}
	return -1
}

// Current logs the case about to be run, so that if the process dies the
// parent can name the witness.
type Current struct {
	f    *os.File
	last atomic.Int64
}

// CaseWatchdog is how long one case may take in a batch child before the
// child dumps its goroutines and exits (reported as inconclusive, not as a
// violation: it is a wall-clock backstop).
var CaseWatchdog = 4 * time.Minute

func OpenCurrent(check string, batch int) *Current {
	f, _ := os.Create(filepath.Join(OutDir(), fmt.Sprintf("%s.%d.current", check, batch)))
	c := &Current{f: f}
	c.last.Store(time.Now().UnixNano())
	go func() {
		for {
			time.Sleep(5 * time.Second)
			if time.Since(time.Unix(0, c.last.Load())) > CaseWatchdog {
				buf := make([]byte, 1<<20)
				n := runtime.Stack(buf, true)
				fmt.Fprintf(os.Stderr, "VERIF-WATCHDOG: case exceeded %v\n%s\n", CaseWatchdog, buf[:n])
				os.Exit(7)
			}
		}
	}()
	return c
}

func (c *Current) Set(desc string) {
	if c == nil || c.f == nil {
		return
	}
	c.last.Store(time.Now().UnixNano())
	c.f.Truncate(0)
	c.f.WriteAt([]byte(desc), 0)
}

// RunBatches runs fn for batches 0..n-1, each in a child process re-executing
// the current test binary with -test.run=^<test>$ (the child calls RunBatches
// again and runs only its own batch). Children's results are merged into res.
// A child that dies abnormally is recorded as a violation with signature
// deathSig+":"+<reason>, carrying the last case logged with Current.Set.
func RunBatches(test string, res *Result, n int, par int, timeout time.Duration, deathSig string, fn func(batch int, r *Result, cur *Current)) {
	if b := Batch(); b >= 0 {
		r := NewResult(res.Check)
		r.SetFile(fmt.Sprintf("%s.%d.result.json", res.Check, b))
		cur := OpenCurrent(res.Check, b)
		fn(b, r, cur)
		r.Write()
		// Leave the parent-side result untouched; the process ends here.
		os.Exit(0)
	}
	if ReplayFile() != "" {
		// replay: run in-process so that the output is visible
		for b := 0; b < n; b++ {
			r := NewResult(res.Check)
			fn(b, r, nil)
			res.Merge(r)
		}
		return
	}
	if par <= 0 {
		par = runtime.NumCPU()
	}
	sem := make(chan struct{}, par)
	var wg sync.WaitGroup
	var mu sync.Mutex
	var retry []int
	var runOne func(b int, last bool)
	runOne = func(b int, last bool) {
		{
			outFile := filepath.Join(OutDir(), fmt.Sprintf("%s.%d.out", res.Check, b))
			of, _ := os.Create(outFile)
			cmd := exec.Command(os.Args[0], "-test.run=^"+test+"$", "-test.timeout=0")
			cmd.Env = append(os.Environ(), "VERIF_BATCH="+strconv.Itoa(b))
			cmd.Stdout = of
			cmd.Stderr = of
			cmd.SysProcAttr = &syscall.SysProcAttr{Setpgid: true}
			err := cmd.Start()
			if err != nil {
				mu.Lock()
				res.Inconc("cannot start child: " + err.Error())
				mu.Unlock()
				return
			}
			done := make(chan error, 1)
			go func() { done <- cmd.Wait() }()
			timedOut := false
			select {
			case err = <-done:
			case <-time.After(timeout):
				timedOut = true
				syscall.Kill(-cmd.Process.Pid, syscall.SIGQUIT)
				select {
				case err = <-done:
				case <-time.After(10 * time.Second):
					syscall.Kill(-cmd.Process.Pid, syscall.SIGKILL)
					err = <-done
				}
			}
			of.Close()
			mu.Lock()
			defer mu.Unlock()
			rf := filepath.Join(OutDir(), fmt.Sprintf("%s.%d.result.json", res.Check, b))
			if cr, lerr := LoadResult(rf); lerr == nil {
				res.Merge(cr)
				os.Remove(rf)
				if err == nil {
					os.Remove(outFile)
					return
				}
			}
			curb, _ := os.ReadFile(filepath.Join(OutDir(), fmt.Sprintf("%s.%d.current", res.Check, b)))
			out, _ := os.ReadFile(outFile)
			if timedOut {
				res.Inconc(fmt.Sprintf("batch %d: watchdog (%v) fired; last case: %.300s", b, timeout, curb))
				return
			}
			if bytes.Contains(out, []byte("VERIF-WATCHDOG")) {
				res.Inconc(fmt.Sprintf("batch %d: case watchdog fired; last case: %.300s\n%s", b, curb, tail(out, 1500)))
				return
			}
			if bytes.Contains(out, []byte("VERIF-ENV:")) || bytes.Contains(out, []byte("httptest: failed to listen on a port")) {
				// the machine, not the code under test: no local port could be had
				if !last {
					retry = append(retry, b)
				} else {
					res.Inconc(fmt.Sprintf("batch %d: the machine ran out of local ports; last case: %.300s", b, curb))
				}
				return
			}
			if !last && bytes.Contains(out, []byte("cannot allocate memory")) {
				// the box ran out of memory/address space with all batches running at
				// once: run this batch again on its own before judging
				retry = append(retry, b)
				return
			}
			reason := classifyDeath(out)
			res.Violate(deathSig+":"+reason, fmt.Sprintf("batch %d child died (%v); last case: %.2000s\n--- output tail:\n%s", b, err, curb, tail(out, 3000)),
				map[string]any{"batch": b, "case": string(curb)})
		}
	}
	for b := 0; b < n; b++ {
		wg.Add(1)
		sem <- struct{}{}
		go func(b int) {
			defer wg.Done()
			defer func() { <-sem }()
			runOne(b, false)
		}(b)
	}
	wg.Wait()
	for _, b := range retry {
		res.mu.Lock()
		res.Extra["batches_retried_alone_after_ENOMEM"] = fmt.Sprint(retry)
		res.mu.Unlock()
		runOne(b, true)
	}
}

func tail(b []byte, n int) string {
	// prefer the part starting at the first fatal error / panic line
	for _, key := range []string{"fatal error:", "panic:", "unexpected fault address", "SIGSEGV", "SIGBUS", "VERIF-WATCHDOG"} {
		if i := bytes.Index(b, []byte(key)); i >= 0 {
			b = b[i:]
			if len(b) > n {
				b = b[:n]
			}
			return string(b)
		}
	}
	if len(b) > n {
		b = b[len(b)-n:]
	}
	return string(b)
}

func classifyDeath(out []byte) string {
	s := string(out)
	switch {
	case strings.Contains(s, "fatal error: checkptr"):
		return "checkptr"
	case strings.Contains(s, "unexpected fault address"), strings.Contains(s, "SIGSEGV"), strings.Contains(s, "SIGBUS"):
		return "fault"
	case strings.Contains(s, "fatal error: all goroutines are asleep"):
		return "deadlock"
	case strings.Contains(s, "fatal error:"):
		return "fatal"
	case bytes.Contains(out, []byte("panic:")):
		return "panic"
	case strings.Contains(s, "DATA RACE"):
		return "race"
	}
	return "exit"
}

// ---------------------------------------------------------------- replay

var replayOnce sync.Once
var replayCheck string
var replayCase = -1
var replayRaw map[string]any

func loadReplay() {
	replayOnce.Do(func() {
		f := ReplayFile()
		if f == "" {
			return
		}
		b, err := os.ReadFile(f)
		if err != nil {
			return
		}
		var m struct {
			Check  string         `json:"check"`
			Replay map[string]any `json:"replay"`
		}
		if json.Unmarshal(b, &m) != nil {
			return
		}
		replayCheck = m.Check
		replayRaw = m.Replay
		if c, ok := m.Replay["case"].(float64); ok {
			replayCase = int(c)
		}
	})
}

// WantCase reports whether case i of the named check should run: always,
// except in replay mode, where only the recorded case of the recorded check does.
func WantCase(check string, i int) bool {
	loadReplay()
	if ReplayFile() == "" {
		return true
	}
	return check == replayCheck && (replayCase < 0 || replayCase == i)
}

// WantCheck reports whether the named check should run at all.
func WantCheck(check string) bool {
	loadReplay()
	return ReplayFile() == "" || check == replayCheck
}

// Replaying reports whether this is a replay run, and the raw replay data.
func Replaying() (map[string]any, bool) {
	loadReplay()
	return replayRaw, ReplayFile() != ""
}

// CaseReplay is the standard replay payload: the case index within a check
// (cases are a pure function of seed, tier and index).
func CaseReplay(i int, extra map[string]any) map[string]any {
	m := map[string]any{"case": i}
	for k, v := range extra {
		m[k] = v
	}
	return m
}

// CaseRange returns the half-open range of case indices batch b runs when
// every batch has per cases. In replay mode batch 0 runs exactly the recorded
// case (whatever the scale of the run that found it) and other batches nothing.
func CaseRange(check string, b, per int) (lo, hi int) {
	loadReplay()
	if ReplayFile() == "" {
		return b * per, (b + 1) * per
	}
	if b != 0 || check != replayCheck || replayCase < 0 {
		return 0, 0
	}
	return replayCase, replayCase + 1
}
