package verifrt

import (
	"encoding/binary"
	"time"
)

// ShiftZone returns a time zone whose UTC offset is `before` seconds until the
// instant `at` and `after` seconds from then on (a daylight-saving change, or a
// government moving its clocks), built as TZif data so that it behaves like a
// zone loaded from the system database.
func ShiftZone(at time.Time, before, after int32) *time.Location {
	var b []byte
	be32 := func(v uint32) { b = binary.BigEndian.AppendUint32(b, v) }
	b = append(b, "TZif"...)
	b = append(b, 0)
	b = append(b, make([]byte, 15)...)
	be32(0) // UT/local indicators
	be32(0) // standard/wall indicators
	be32(0) // leap seconds
	be32(1) // transitions
	be32(2) // local time types
	be32(8) // abbreviation bytes
	be32(uint32(int32(at.Unix())))
	b = append(b, 1)
	be32(uint32(before))
	b = append(b, 0, 0)
	be32(uint32(after))
	b = append(b, 1, 4)
	b = append(b, "AAA\x00BBB\x00"...)
	loc, err := time.LoadLocationFromTZData("Verif/Shift", b)
	if err != nil {
		return time.UTC
	}
	return loc
}
