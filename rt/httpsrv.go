package verifrt

import (
	"fmt"
	"net"
	"net/http"
	"net/http/httptest"
	"time"
)

// NewHTTPServer is httptest.NewServer with patience: when the box is short of
// local ports (thousands of short-lived servers and connections of parallel
// batches in TIME_WAIT) listening is tried again for up to a minute instead of
// panicking at once. If it still fails the panic text carries the marker
// VERIF-ENV, which RunBatches and the driver report as inconclusive: it says
// nothing about the code under test.
func NewHTTPServer(h http.Handler) *httptest.Server {
	var l net.Listener
	var err error
	for try := 0; try < 600; try++ {
		l, err = net.Listen("tcp", "127.0.0.1:0")
		if err == nil {
			break
		}
		time.Sleep(100 * time.Millisecond)
	}
	if err != nil {
		panic(fmt.Sprintf("VERIF-ENV: cannot listen on a local port after a minute of trying: %v", err))
	}
	s := httptest.NewUnstartedServer(h)
	s.Listener.Close()
	s.Listener = l
	s.Start()
	return s
}
