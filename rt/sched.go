package verifrt

import (
	"fmt"
	"runtime"
	"runtime/debug"
	"strings"
	"sync"
	"sync/atomic"
	"time"
)

// Token-passing scheduler: every virtual thread is a real goroutine which runs
// only while it holds the token and gives it back at every Yield. The real
// code executes; only the interleaving is chosen by the monitor.

type Thread struct {
	ID     int
	Name   string
	fn     func()
	wake   chan struct{}
	Done   bool
	Killed bool
	Parked bool // not eligible until Unpark
	Spin   bool // last yield was a spin-wait iteration
	Steps  int
	Pt     string // yield point it is stopped at
	PtPath string // for a file-system point: the path of the call about to be made
	Panic  any    // recovered panic value, if fn panicked
	Stack  string
	// Tag is free for harness use.
	Tag any
}

func (t *Thread) Runnable() bool { return !t.Done && !t.Killed && !t.Parked }

type Sched struct {
	Threads  []*Thread
	Cur      *Thread
	Rnd      *Rand
	Steps    int
	MaxSteps int
	// OnStep is called with the token held at every yield of every thread,
	// before the next thread is chosen. It may Kill/Park/Unpark/Go threads.
	OnStep func(s *Sched, t *Thread)
	// Choose picks the next thread among the runnable ones (never empty).
	Choose func(s *Sched, runnable []*Thread) *Thread
	// Trace of choices: thread id per step, and yield point ids.
	Trace   []uint8
	PtTrace []uint16
	ptIDs   map[string]uint16
	PtNames []string
	KeepPts bool

	Overrun  bool   // MaxSteps exceeded
	Stuck    string // watchdog: no progress (real blocking) – inconclusive
	finished chan struct{}
	mu       sync.Mutex
	progress atomic.Int64
	ended    bool
}

var curSched atomic.Pointer[Sched]

func NewSched(rnd *Rand) *Sched {
	return &Sched{Rnd: rnd, MaxSteps: 200000, finished: make(chan struct{}), ptIDs: map[string]uint16{}}
}

// Go registers a virtual thread. May be called before Run or, with the token
// held (from OnStep or from a running thread), during it.
func (s *Sched) Go(name string, fn func()) *Thread {
	t := &Thread{ID: len(s.Threads), Name: name, fn: fn, wake: make(chan struct{}, 1)}
	s.Threads = append(s.Threads, t)
	go func() {
		<-t.wake
		debug.SetPanicOnFault(true)
		defer func() {
			if r := recover(); r != nil {
				t.Panic = r
				t.Stack = string(debug.Stack())
			}
			t.Done = true
			s.step(t, "exit")
		}()
		t.fn()
	}()
	return t
}

func (s *Sched) Kill(t *Thread)   { t.Killed = true }
func (s *Sched) Park(t *Thread)   { t.Parked = true }
func (s *Sched) Unpark(t *Thread) { t.Parked = false }

func (s *Sched) runnable() []*Thread {
	var r []*Thread
	for _, t := range s.Threads {
		if t.Runnable() {
			r = append(r, t)
		}
	}
	return r
}

// AllDoneExcept reports whether every thread other than t is done, killed or parked.
func (s *Sched) AllDoneExcept(t *Thread) bool {
	for _, o := range s.Threads {
		if o != t && o.Runnable() {
			return false
		}
	}
	return true
}

func (s *Sched) ptID(pt string) uint16 {
	id, ok := s.ptIDs[pt]
	if !ok {
		id = uint16(len(s.PtNames))
		s.ptIDs[pt] = id
		s.PtNames = append(s.PtNames, pt)
	}
	return id
}

// step is called by the token holder t at a yield point (or at exit).
func (s *Sched) step(t *Thread, pt string) {
	t.Pt = pt
	t.Steps++
	s.Steps++
	s.progress.Add(1)
	if s.OnStep != nil {
		s.OnStep(s, t)
	}
	if s.Steps > s.MaxSteps {
		s.Overrun = true
		s.end()
		if !t.Done {
			select {} // park forever; the run is over
		}
		return
	}
	r := s.runnable()
	if len(r) == 0 {
		s.end()
		if !t.Done {
			<-t.wake // killed or parked forever
		}
		return
	}
	var next *Thread
	if len(r) == 1 {
		next = r[0]
	} else {
		next = s.Choose(s, r)
	}
	s.Trace = append(s.Trace, uint8(next.ID))
	if s.KeepPts {
		s.PtTrace = append(s.PtTrace, s.ptID(t.Name+"@"+pt))
	}
	if next == t {
		return
	}
	s.Cur = next
	next.wake <- struct{}{}
	if !t.Done {
		<-t.wake
	}
}

func (s *Sched) end() {
	s.mu.Lock()
	if !s.ended {
		s.ended = true
		close(s.finished)
	}
	s.mu.Unlock()
}

// Run drives the registered threads until all are done/killed/parked, MaxSteps
// is exceeded, or the watchdog sees no progress for stall (real blocking in
// the code under test – reported as Stuck, which callers treat as inconclusive).
func (s *Sched) Run(stall time.Duration) {
	if s.Choose == nil {
		s.Choose = ChooseRandom
	}
	if !curSched.CompareAndSwap(nil, s) {
		panic("verifrt: nested scheduler")
	}
	defer curSched.Store(nil)
	r := s.runnable()
	if len(r) == 0 {
		return
	}
	first := s.Choose(s, r)
	s.Trace = append(s.Trace, uint8(first.ID))
	s.Cur = first
	first.wake <- struct{}{}
	last := s.progress.Load()
	tick := time.NewTicker(stall)
	defer tick.Stop()
	for {
		select {
		case <-s.finished:
			return
		case <-tick.C:
			now := s.progress.Load()
			if now == last {
				cur := s.Cur
				s.Stuck = fmt.Sprintf("no scheduler progress for %v; token holder %s at %q after %d steps", stall, cur.Name, cur.Pt, s.Steps)
				return
			}
			last = now
		}
	}
}

// Yield is the scheduling point inserted by the rewriter.
func Yield(pt string) {
	s := curSched.Load()
	if s == nil {
		jitter()
		return
	}
	t := s.Cur
	t.Spin = false
	s.step(t, pt)
}

// YieldSpin is a yield from inside a spin-wait (lock acquisition): the
// scheduler prefers other threads so that the holder can make progress.
func YieldSpin(pt string) {
	s := curSched.Load()
	if s == nil {
		runtime.Gosched()
		return
	}
	t := s.Cur
	t.Spin = true
	s.step(t, pt)
}

// Scheduled reports whether a controlled run is active.
func Scheduled() bool { return curSched.Load() != nil }

// LockStuck is the panic value of a lock wait that exceeded SetLockSpinLimit.
type LockStuck struct{ Attempts int64 }

func (l LockStuck) Error() string {
	return fmt.Sprintf("verif: lock not acquired after %d attempts (deadlock)", l.Attempts)
}

var lockSpinLimit atomic.Int64

// SetLockSpinLimit bounds, in free-running mode, how many failed TryLock
// attempts an instrumented Lock makes before it panics with LockStuck (0 = wait normally).
func SetLockSpinLimit(n int64) { lockSpinLimit.Store(n) }

// TryLocker is what Lock needs (sync.Mutex has it since go1.18).
type TryLocker interface {
	TryLock() bool
	Lock()
}

// Lock replaces x.Lock(): under the scheduler a blocked Lock would wedge the
// token holder, so it spins on TryLock yielding in between.
func Lock(m TryLocker) {
	if curSched.Load() == nil {
		jitter()
		if lim := lockSpinLimit.Load(); lim > 0 {
			// free-running workload with a logical bound on lock waits: a wait
			// of this many failed attempts (each followed by a Gosched) while
			// legitimate holders keep the lock for microseconds means the lock
			// will never be released
			for n := int64(0); !m.TryLock(); n++ {
				if n > lim {
					panic(LockStuck{n})
				}
				Tick() // a global loop budget, when armed, bounds all waiters together
				runtime.Gosched()
			}
			return
		}
		if tickBudget.Load() > 0 {
			// a host call is being monitored under a loop-tick budget: waiting
			// for a lock counts as looping, so that a self-deadlock (a lock
			// left held on an error path) ends in a deterministic
			// budget-exceeded verdict instead of a wall-clock watchdog
			for !m.TryLock() {
				Tick()
				runtime.Gosched()
			}
			return
		}
		m.Lock()
		return
	}
	Yield("lock")
	for !m.TryLock() {
		YieldSpin("lock-spin")
	}
}

// ---- strategies

func ChooseRandom(s *Sched, r []*Thread) *Thread {
	// prefer non-spinning threads
	var ns []*Thread
	for _, t := range r {
		if !t.Spin {
			ns = append(ns, t)
		}
	}
	if len(ns) > 0 && s.Rnd.Intn(8) != 0 {
		r = ns
	}
	return r[s.Rnd.Intn(len(r))]
}

// ChooseSticky keeps the current thread running with probability num/den.
func ChooseSticky(num, den int) func(*Sched, []*Thread) *Thread {
	return func(s *Sched, r []*Thread) *Thread {
		if s.Cur != nil && s.Cur.Runnable() && !s.Cur.Spin && s.Rnd.Intn(den) < num {
			return s.Cur
		}
		return ChooseRandom(s, r)
	}
}

// ChoosePCT implements PCT-style scheduling: random distinct priorities, the
// highest-priority runnable thread runs, and at d random change points the
// running thread's priority drops below all others.
func ChoosePCT(rnd *Rand, d int, horizon int) func(*Sched, []*Thread) *Thread {
	prio := map[int]int{}
	change := map[int]bool{}
	for i := 0; i < d; i++ {
		change[rnd.Intn(horizon)+1] = true
	}
	low := -1
	return func(s *Sched, r []*Thread) *Thread {
		for _, t := range r {
			if _, ok := prio[t.ID]; !ok {
				prio[t.ID] = 1000 + rnd.Intn(1000000)
			}
		}
		if s.Cur != nil && (change[s.Steps] || s.Cur.Spin) {
			prio[s.Cur.ID] = low
			low--
		}
		best := r[0]
		for _, t := range r[1:] {
			if prio[t.ID] > prio[best.ID] {
				best = t
			}
		}
		return best
	}
}

// ChooseReplay follows a recorded trace and then falls back to the first
// runnable thread.
func ChooseReplay(trace []uint8) func(*Sched, []*Thread) *Thread {
	return func(s *Sched, r []*Thread) *Thread {
		i := len(s.Trace)
		if i < len(trace) {
			for _, t := range r {
				if t.ID == int(trace[i]) {
					return t
				}
			}
		}
		return r[0]
	}
}

// ---- free-running jitter

var (
	jitterP   atomic.Uint32 // probability * 2^16 of a Gosched at a yield point
	jitterCtr atomic.Uint64
)

// SetJitter makes Yield (outside a controlled run) call runtime.Gosched with
// probability p and sleep a few microseconds with probability p/16.
func SetJitter(p float64) { jitterP.Store(uint32(p * 65536)) }

func jitter() {
	p := jitterP.Load()
	if p == 0 {
		return
	}
	x := jitterCtr.Add(0x9e3779b97f4a7c15)
	x = (x ^ (x >> 30)) * 0xbf58476d1ce4e5b9
	x ^= x >> 27
	if uint32(x&0xffff) < p {
		if (x>>16)&15 == 0 {
			time.Sleep(time.Duration((x>>20)&31) * time.Microsecond)
		} else {
			runtime.Gosched()
		}
	}
}

// A Phase runs one thread until it has made Until yields (Until < 0: until it
// is done). ChoosePhases runs the phases in order and then falls back to then.
// "Park A at its k-th scheduling point, run B to completion, resume A" is
// [{A,k},{B,-1}] followed by any strategy.
type Phase struct {
	Thread int `json:"t"`
	Until  int `json:"until"`
	// AtPt, if set, replaces Until: the thread runs until it is about to make
	// the call named AtPt on a path containing PathSub (first occurrence
	// since the phase began), and then Plus further steps.
	AtPt    string `json:"at,omitempty"`
	PathSub string `json:"path,omitempty"`
	Plus    int    `json:"plus,omitempty"`
}

func ChoosePhases(phases []Phase, then func(*Sched, []*Thread) *Thread) func(*Sched, []*Thread) *Thread {
	idx := 0
	anchor := make([]int, len(phases)) // step count at which phase i met its AtPt (0 = not yet)
	return func(s *Sched, r []*Thread) *Thread {
		for idx < len(phases) {
			ph := phases[idx]
			if ph.Thread >= len(s.Threads) {
				idx++
				continue
			}
			t := s.Threads[ph.Thread]
			if ph.AtPt != "" {
				if anchor[idx] == 0 && t.Pt == ph.AtPt && strings.Contains(t.PtPath, ph.PathSub) {
					anchor[idx] = t.Steps + 1
				}
				if !t.Runnable() || (anchor[idx] != 0 && t.Steps+1 >= anchor[idx]+ph.Plus) {
					idx++
					continue
				}
			} else if !t.Runnable() || (ph.Until >= 0 && t.Steps >= ph.Until) {
				idx++
				continue
			}
			if t.Spin {
				// it waits for a lock someone else holds: let the others move
				var o []*Thread
				for _, x := range r {
					if x != t {
						o = append(o, x)
					}
				}
				if len(o) > 0 {
					return o[s.Rnd.Intn(len(o))]
				}
			}
			return t
		}
		return then(s, r)
	}
}

// SeedJitter makes the jitter sequence of this process differ from that of
// its siblings (the generator is a counter hash starting at zero).
func SeedJitter(seed uint64) { jitterCtr.Store(seed) }
