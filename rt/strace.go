package verifrt

import (
	"bufio"
	"os"
	"os/exec"
	"regexp"
	"strconv"
	"strings"
)

// A second, independent witness for "nothing is written": the system calls a
// real child process (and its descendants) makes, recorded by strace(1).
// Directory snapshots see only the net effect; the trace also sees a file that
// is created and removed again, rewritten with identical bytes, or touched.

// StraceSyscalls is the set of calls traced: everything that can create,
// remove, rename or change a file by path, plus the fd-based calls that change
// contents (decoded to paths by strace -y).
const StraceSyscalls = "execve,open,openat,creat,unlink,unlinkat,rename,renameat,renameat2,mkdir,mkdirat,rmdir,truncate,ftruncate,fallocate,link,linkat,symlink,symlinkat,chmod,fchmod,fchmodat,utimensat,write,pwrite64,writev"

// StraceCommand wraps argv so that it runs under strace -f writing to out.
func StraceCommand(out string, argv ...string) *exec.Cmd {
	args := append([]string{"-f", "-qq", "-y", "-s", "0", "-o", out, "-e", "trace=" + StraceSyscalls}, argv...)
	return exec.Command("strace", args...)
}

// SysEv is one completed system call of the trace.
type SysEv struct {
	Pid   int
	Name  string
	Args  string   // raw argument text
	Paths []string // quoted path arguments and <path> fd annotations, in order
	Ret   int64
	Err   string // errno name, "" on success, "?" if the call never returned (process killed)
}

var (
	stLine    = regexp.MustCompile(`^(\d+)\s+(\w+)\((.*)\)\s+=\s+(-?\d+|\?)(?:\s+(E\w+))?`)
	stUnfin   = regexp.MustCompile(`^(\d+)\s+(\w+)\((.*) <unfinished \.\.\.>$`)
	stResumed = regexp.MustCompile(`^(\d+)\s+<\.\.\. (\w+) resumed>(.*)$`)
	stQuoted  = regexp.MustCompile(`"((?:[^"\\]|\\.)*)"|\d+<([^>]*)>`)
)

// ParseStrace reads a trace written by StraceCommand.
func ParseStrace(path string) ([]SysEv, error) {
	f, err := os.Open(path)
	if err != nil {
		return nil, err
	}
	defer f.Close()
	var out []SysEv
	pending := map[int]string{}
	sc := bufio.NewScanner(f)
	sc.Buffer(nil, 1<<22)
	for sc.Scan() {
		line := sc.Text()
		if m := stUnfin.FindStringSubmatch(line); m != nil {
			pid, _ := strconv.Atoi(m[1])
			pending[pid] = m[1] + " " + m[2] + "(" + m[3]
			continue
		}
		if m := stResumed.FindStringSubmatch(line); m != nil {
			pid, _ := strconv.Atoi(m[1])
			if p, ok := pending[pid]; ok {
				delete(pending, pid)
				line = p + m[3]
			} else {
				continue
			}
		}
		m := stLine.FindStringSubmatch(line)
		if m == nil {
			continue
		}
		ev := SysEv{Name: m[2], Args: m[3], Err: m[5]}
		ev.Pid, _ = strconv.Atoi(m[1])
		if m[4] == "?" {
			// the call never returned (the process was killed at its entry or
			// inside it): it is not a completed, successful call
			ev.Err = "?"
			ev.Ret = -1
		} else {
			ev.Ret, _ = strconv.ParseInt(m[4], 10, 64)
		}
		for _, q := range stQuoted.FindAllStringSubmatch(m[3], -1) {
			if q[2] != "" {
				ev.Paths = append(ev.Paths, q[2])
			} else if q[1] != "" {
				ev.Paths = append(ev.Paths, q[1])
			}
		}
		out = append(out, ev)
	}
	return out, sc.Err()
}

// Mutation classifies a successful call that creates, removes or changes the
// file system object at one of its paths; "" if the call does not (a plain
// read-only or read-write open, a failed call).
func (e SysEv) Mutation() string {
	if e.Err != "" || e.Ret < 0 {
		return ""
	}
	switch e.Name {
	case "open", "openat":
		switch {
		case strings.Contains(e.Args, "O_TRUNC"):
			return "open-truncate"
		case strings.Contains(e.Args, "O_CREAT"):
			return "open-create" // the caller decides whether the name existed before
		}
		return ""
	case "creat":
		return "open-truncate"
	case "write", "pwrite64", "writev":
		if e.Ret == 0 {
			return ""
		}
		return "write"
	case "utimensat":
		return "touch"
	case "execve":
		return "" // not a file-system mutation; judged separately
	default:
		return e.Name
	}
}
