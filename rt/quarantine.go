package verifrt

import (
	"sync"
	"syscall"
	"unsafe"
)

// Quarantine is a home-made sanitizer for mmap'ed regions: instead of
// returning an unmapped range to the kernel (where a stale access silently
// hits whatever is mapped there next) the range is made inaccessible and kept,
// so that any later access faults deterministically. With
// debug.SetPanicOnFault the fault is a recoverable panic carrying the address.
type Quarantine struct {
	mu      sync.Mutex
	regions []qregion
	Unmaps  int
	// Max bounds the number of regions kept inaccessible (0 = unbounded); beyond
	// it the oldest region is really unmapped, so that code under test that
	// maps and unmaps in a loop does not exhaust the process's mapping quota
	// (which would end the loop with ENOMEM and hide that it is unbounded).
	Max int
}

type qregion struct {
	b     []byte
	start uintptr
	end   uintptr
	Label string
}

// Unmap quarantines b (which must be a whole mapping: b[:cap(b)] is used).
func (q *Quarantine) Unmap(b []byte, label string) error {
	if cap(b) == 0 {
		return nil
	}
	full := b[:cap(b)]
	start := uintptr(unsafe.Pointer(&full[:1][0]))
	// register first: another goroutine may fault on the region the instant
	// it becomes inaccessible
	q.mu.Lock()
	q.regions = append(q.regions, qregion{b: full, start: start, end: start + uintptr(len(full)), Label: label})
	q.Unmaps++
	var evict []byte
	if q.Max > 0 && len(q.regions) > q.Max {
		evict = q.regions[0].b
		q.regions = q.regions[1:]
	}
	q.mu.Unlock()
	if evict != nil {
		syscall.Munmap(evict)
	}
	return syscall.Mprotect(full, syscall.PROT_NONE)
}

// Find reports whether addr lies in a quarantined region.
func (q *Quarantine) Find(addr uintptr) (label string, ok bool) {
	_, label, ok = q.FindIndex(addr)
	return
}

// FindIndex is like Find and also returns the region's position in unmap order
// (0 = first region unmapped since the last Release).
func (q *Quarantine) FindIndex(addr uintptr) (idx int, label string, ok bool) {
	q.mu.Lock()
	defer q.mu.Unlock()
	for i, r := range q.regions {
		if addr >= r.start && addr < r.end {
			return i, r.Label, true
		}
	}
	return 0, "", false
}

// Count returns the number of regions quarantined since the last Release.
func (q *Quarantine) Count() int {
	q.mu.Lock()
	defer q.mu.Unlock()
	return len(q.regions)
}

// Release really unmaps everything (call at quiescence).
func (q *Quarantine) Release() {
	q.mu.Lock()
	defer q.mu.Unlock()
	for _, r := range q.regions {
		syscall.Munmap(r.b)
	}
	q.regions = nil
}

// FaultAddr extracts the faulting address from a recovered runtime fault.
func FaultAddr(r any) (uintptr, bool) {
	if e, ok := r.(interface{ Addr() uintptr }); ok {
		return e.Addr(), true
	}
	return 0, false
}

// GuardedCopy returns a copy of data that ends exactly at the start of an
// inaccessible page, the way a file mapped with mmap ends at the end of its
// mapping when its size is a multiple of the page size: reading even one byte
// past the slice faults (and, with debug.SetPanicOnFault, panics) instead of
// silently returning whatever follows in memory. free releases the region.
func GuardedCopy(data []byte) (buf []byte, free func()) {
	const page = 4096
	n := (len(data) + page - 1) / page * page
	if n == 0 {
		n = page
	}
	region, err := syscall.Mmap(-1, 0, n+page, syscall.PROT_READ|syscall.PROT_WRITE, syscall.MAP_ANON|syscall.MAP_PRIVATE)
	if err != nil {
		return append([]byte(nil), data...), func() {}
	}
	if err := syscall.Mprotect(region[n:], syscall.PROT_NONE); err != nil {
		syscall.Munmap(region)
		return append([]byte(nil), data...), func() {}
	}
	buf = region[n-len(data) : n : n]
	copy(buf, data)
	return buf, func() { syscall.Munmap(region) }
}
