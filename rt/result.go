// Package verifrt is the runtime library of the /verif monitors. It is injected
// into the module under test with `go test -overlay` (it does not exist in
// /repo) and uses the standard library only.
package verifrt

import (
	"crypto/sha256"
	"encoding/hex"
	"encoding/json"
	"fmt"
	"os"
	"path/filepath"
	"sort"
	"strconv"
	"sync"
)

// Seed returns VERIF_SEED (default 1).
func Seed() int64 {
	if s := os.Getenv("VERIF_SEED"); s != "" {
		if n, err := strconv.ParseInt(s, 10, 64); err == nil {
			return n
		}
	}
	return 1
}

// Thorough reports whether the thorough tier was requested.
func Thorough() bool { return os.Getenv("VERIF_TIER") == "thorough" }

// Scale returns q for the quick tier and t for the thorough tier; both are
// scaled by VERIF_SCALE (a float, default 1) for development runs.
func Scale(q, t int) int {
	n := q
	if Thorough() {
		n = t
	}
	if s := os.Getenv("VERIF_SCALE"); s != "" {
		if f, err := strconv.ParseFloat(s, 64); err == nil && f > 0 {
			n = int(float64(n) * f)
			if n < 1 {
				n = 1
			}
		}
	}
	return n
}

// OutDir is where result and event files go.
func OutDir() string {
	d := os.Getenv("VERIF_OUT")
	if d == "" {
		d = os.TempDir()
	}
	return d
}

// ReplayFile returns the replay file to re-run, if any.
func ReplayFile() string { return os.Getenv("VERIF_REPLAY") }

// A Violation is one observed refutation of the property, with a signature
// (matched against /verif/known_findings.json by the driver) and a replayable
// witness.
type Violation struct {
	Sig    string `json:"sig"`
	Msg    string `json:"msg"`
	Replay any    `json:"replay,omitempty"`
	Count  int    `json:"count"`
}

// A Result is what one sub-check observed; the driver merges results.
type Result struct {
	mu           sync.Mutex
	Check        string         `json:"check"`
	Evaluations  int            `json:"evaluations"`
	DistinctN    int            `json:"distinct_nontrivial"`
	Rule         string         `json:"rule"`
	Samples      []any          `json:"samples"`
	Classes      map[string]int `json:"classes"`
	Violations   []*Violation   `json:"violations"`
	Inconclusive []string       `json:"inconclusive"`
	Extra        map[string]any `json:"extra"`
	Need         []string       `json:"need"` // classes that must be hit (minimum observation)
	distinct     map[[8]byte]struct{}
	maxSamples   int
	file         string
}

func NewResult(check string) *Result {
	r := &Result{Check: check, Classes: map[string]int{}, Extra: map[string]any{}, distinct: map[[8]byte]struct{}{}, maxSamples: 6}
	r.file = filepath.Join(OutDir(), check+".result.json")
	return r
}

// SetFile overrides the output file name (used by batch children).
func (r *Result) SetFile(name string) { r.file = filepath.Join(OutDir(), name) }

func (r *Result) Eval() {
	r.mu.Lock()
	r.Evaluations++
	r.mu.Unlock()
}

// Distinct records a case key; only distinct keys are counted.
func (r *Result) Distinct(key string) {
	h := sha256.Sum256([]byte(key))
	var k [8]byte
	copy(k[:], h[:8])
	r.mu.Lock()
	if _, ok := r.distinct[k]; !ok {
		r.distinct[k] = struct{}{}
		r.DistinctN = len(r.distinct)
	}
	r.mu.Unlock()
}

func (r *Result) Hit(class string) {
	r.mu.Lock()
	r.Classes[class]++
	r.mu.Unlock()
}

func (r *Result) HitN(class string, n int) {
	r.mu.Lock()
	r.Classes[class] += n
	r.mu.Unlock()
}

func (r *Result) Sample(v any) {
	r.mu.Lock()
	if len(r.Samples) < r.maxSamples {
		r.Samples = append(r.Samples, v)
	}
	r.mu.Unlock()
}

// Require declares classes which must have been hit at least once for the run
// to count as conclusive.
func (r *Result) Require(classes ...string) {
	r.mu.Lock()
	r.Need = append(r.Need, classes...)
	r.mu.Unlock()
}

func (r *Result) Violate(sig, msg string, replay any) {
	r.mu.Lock()
	defer r.mu.Unlock()
	for _, v := range r.Violations {
		if v.Sig == sig {
			v.Count++
			return
		}
	}
	if len(msg) > 4000 {
		msg = msg[:4000] + "…"
	}
	r.Violations = append(r.Violations, &Violation{Sig: sig, Msg: msg, Replay: replay, Count: 1})
}

func (r *Result) Inconc(why string) {
	r.mu.Lock()
	if len(r.Inconclusive) < 20 {
		r.Inconclusive = append(r.Inconclusive, why)
	}
	r.mu.Unlock()
}

func (r *Result) NumViolations() int {
	r.mu.Lock()
	defer r.mu.Unlock()
	return len(r.Violations)
}

// Write stores the result where the driver collects it.
func (r *Result) Write() error {
	r.mu.Lock()
	defer r.mu.Unlock()
	sort.Strings(r.Need)
	b, err := json.MarshalIndent(r, "", " ")
	if err != nil {
		return err
	}
	tmp := r.file + ".tmp"
	if err := os.WriteFile(tmp, b, 0o644); err != nil {
		return err
	}
	return os.Rename(tmp, r.file)
}

// Merge folds a child's result into r.
func (r *Result) Merge(o *Result) {
	r.mu.Lock()
	defer r.mu.Unlock()
	r.Evaluations += o.Evaluations
	r.DistinctN += o.DistinctN // children work on disjoint case lists
	for k, v := range o.Classes {
		r.Classes[k] += v
	}
	for _, s := range o.Samples {
		if len(r.Samples) < r.maxSamples {
			r.Samples = append(r.Samples, s)
		}
	}
outer:
	for _, v := range o.Violations {
		for _, w := range r.Violations {
			if w.Sig == v.Sig {
				w.Count += v.Count
				continue outer
			}
		}
		r.Violations = append(r.Violations, v)
	}
	for _, s := range o.Inconclusive {
		if len(r.Inconclusive) < 20 {
			r.Inconclusive = append(r.Inconclusive, s)
		}
	}
	for k, v := range o.Extra {
		if _, ok := r.Extra[k]; !ok {
			r.Extra[k] = v
		} else if a, ok := r.Extra[k].(float64); ok {
			if b, ok := v.(float64); ok {
				r.Extra[k] = a + b
			}
		}
	}
	for _, n := range o.Need {
		found := false
		for _, m := range r.Need {
			if m == n {
				found = true
			}
		}
		if !found {
			r.Need = append(r.Need, n)
		}
	}
}

func LoadResult(path string) (*Result, error) {
	b, err := os.ReadFile(path)
	if err != nil {
		return nil, err
	}
	r := NewResult("")
	if err := json.Unmarshal(b, r); err != nil {
		return nil, err
	}
	if r.Classes == nil {
		r.Classes = map[string]int{}
	}
	if r.Extra == nil {
		r.Extra = map[string]any{}
	}
	return r, nil
}

// Hash returns a short hex digest, for naming witnesses and distinct keys.
func Hash(b []byte) string {
	h := sha256.Sum256(b)
	return hex.EncodeToString(h[:8])
}

func Sprintf(f string, a ...any) string { return fmt.Sprintf(f, a...) }
