package verifrt

import (
	crand "crypto/rand"
	"fmt"
	"io"
	"io/fs"
	"net/http"
	"os"
	"strings"
	"sync"
	"sync/atomic"
	"syscall"
)

// The rewriter redirects package-level os/http/syscall calls of the code under
// test to the functions below. With no plan installed they are pass-throughs
// (plus a scheduling point); with a plan they log an event and may inject a
// fault before the real call is made.

type Event struct {
	Seq   int    `json:"seq"`
	Actor string `json:"actor,omitempty"`
	Op    string `json:"op"`
	Path  string `json:"path,omitempty"`
	Arg   string `json:"arg,omitempty"`
	Err   string `json:"err,omitempty"`
	Inj   bool   `json:"inj,omitempty"`
}

type Fault struct {
	Op      string        `json:"op"`       // shim op name, "" = any
	PathSub string        `json:"path_sub"` // substring of the path, "" = any
	Nth     int           `json:"nth"`      // 0-based occurrence among matching calls; -1 = every
	Errno   syscall.Errno `json:"errno"`
	Short   bool          `json:"short"`  // for Write/WriteAt: write half and report ENOSPC
	AtSeq   int           `json:"at_seq"` // if > 0: match the call with this global sequence number (1-based) instead
	seen    int
}

type Plan struct {
	mu     sync.Mutex
	Events []Event
	Faults []*Fault
	// Pre is called (without the lock) before every operation; it may block,
	// kill the process, etc.
	Pre func(ev *Event)
	// Actor names the caller in free-running mode; under the scheduler the
	// current thread name is used.
	Actor func() string
	seq   int
	NoLog bool
}

var curPlan atomic.Pointer[Plan]

func SetPlan(p *Plan) { curPlan.Store(p) }
func GetPlan() *Plan  { return curPlan.Load() }

func (p *Plan) Snapshot() []Event {
	p.mu.Lock()
	defer p.mu.Unlock()
	return append([]Event(nil), p.Events...)
}

func (p *Plan) Len() int {
	p.mu.Lock()
	defer p.mu.Unlock()
	return p.seq
}

// pre returns a non-nil errno if the call must fail without being executed.
func pre(op, path, arg string) (ev *Event, inj *Fault) {
	if s := curSched.Load(); s != nil && s.Cur != nil {
		s.Cur.PtPath = path
	}
	Yield("fs:" + op)
	p := curPlan.Load()
	if p == nil {
		return nil, nil
	}
	e := &Event{Op: op, Path: path, Arg: arg}
	if s := curSched.Load(); s != nil && s.Cur != nil {
		e.Actor = s.Cur.Name
	} else if p.Actor != nil {
		e.Actor = p.Actor()
	}
	p.mu.Lock()
	e.Seq = p.seq
	p.seq++
	for _, f := range p.Faults {
		if f.AtSeq > 0 {
			if f.AtSeq == e.Seq+1 {
				inj = f
				break
			}
			continue
		}
		if f.Op != "" && f.Op != op {
			continue
		}
		if f.PathSub != "" && !strings.Contains(path, f.PathSub) {
			continue
		}
		n := f.seen
		f.seen++
		if f.Nth == n || f.Nth < 0 {
			inj = f
			break
		}
	}
	p.mu.Unlock()
	if p.Pre != nil {
		p.Pre(e)
	}
	return e, inj
}

func post(e *Event, err error, injected bool) {
	if e == nil {
		return
	}
	p := curPlan.Load()
	if p == nil || p.NoLog {
		return
	}
	if err != nil {
		e.Err = err.Error()
	}
	e.Inj = injected
	p.mu.Lock()
	p.Events = append(p.Events, *e)
	p.mu.Unlock()
}

func perr(op, path string, errno syscall.Errno) error {
	return &fs.PathError{Op: op, Path: path, Err: errno}
}

func OsOpenFile(name string, flag int, perm os.FileMode) (*os.File, error) {
	e, inj := pre("OpenFile", name, fmt.Sprintf("%#x", flag))
	if inj != nil {
		err := perr("open", name, inj.Errno)
		post(e, err, true)
		return nil, err
	}
	f, err := os.OpenFile(name, flag, perm)
	post(e, err, false)
	return f, err
}

func OsOpen(name string) (*os.File, error) {
	e, inj := pre("Open", name, "")
	if inj != nil {
		err := perr("open", name, inj.Errno)
		post(e, err, true)
		return nil, err
	}
	f, err := os.Open(name)
	post(e, err, false)
	return f, err
}

func OsCreate(name string) (*os.File, error) {
	e, inj := pre("Create", name, "")
	if inj != nil {
		err := perr("open", name, inj.Errno)
		post(e, err, true)
		return nil, err
	}
	f, err := os.Create(name)
	post(e, err, false)
	return f, err
}

func OsReadFile(name string) ([]byte, error) {
	e, inj := pre("ReadFile", name, "")
	if inj != nil {
		err := perr("open", name, inj.Errno)
		post(e, err, true)
		return nil, err
	}
	b, err := os.ReadFile(name)
	post(e, err, false)
	return b, err
}

func OsWriteFile(name string, data []byte, perm os.FileMode) error {
	e, inj := pre("WriteFile", name, fmt.Sprint(len(data)))
	if inj != nil {
		if inj.Short {
			os.WriteFile(name, data[:len(data)/2], perm)
		}
		err := perr("write", name, inj.Errno)
		post(e, err, true)
		return err
	}
	err := os.WriteFile(name, data, perm)
	post(e, err, false)
	return err
}

func OsMkdirAll(path string, perm os.FileMode) error {
	e, inj := pre("MkdirAll", path, "")
	if inj != nil {
		err := perr("mkdir", path, inj.Errno)
		post(e, err, true)
		return err
	}
	err := os.MkdirAll(path, perm)
	post(e, err, false)
	return err
}

func OsMkdir(path string, perm os.FileMode) error {
	e, inj := pre("Mkdir", path, "")
	if inj != nil {
		err := perr("mkdir", path, inj.Errno)
		post(e, err, true)
		return err
	}
	err := os.Mkdir(path, perm)
	post(e, err, false)
	return err
}

func OsStat(name string) (os.FileInfo, error) {
	e, inj := pre("Stat", name, "")
	if inj != nil {
		err := perr("stat", name, inj.Errno)
		post(e, err, true)
		return nil, err
	}
	fi, err := os.Stat(name)
	post(e, err, false)
	return fi, err
}

func OsLstat(name string) (os.FileInfo, error) {
	e, inj := pre("Lstat", name, "")
	if inj != nil {
		err := perr("lstat", name, inj.Errno)
		post(e, err, true)
		return nil, err
	}
	fi, err := os.Lstat(name)
	post(e, err, false)
	return fi, err
}

func OsRemove(name string) error {
	e, inj := pre("Remove", name, "")
	if inj != nil {
		err := perr("remove", name, inj.Errno)
		post(e, err, true)
		return err
	}
	err := os.Remove(name)
	post(e, err, false)
	return err
}

func OsRemoveAll(name string) error {
	e, inj := pre("RemoveAll", name, "")
	if inj != nil {
		err := perr("remove", name, inj.Errno)
		post(e, err, true)
		return err
	}
	err := os.RemoveAll(name)
	post(e, err, false)
	return err
}

func OsRename(a, b string) error {
	e, inj := pre("Rename", a, b)
	if inj != nil {
		err := &os.LinkError{Op: "rename", Old: a, New: b, Err: inj.Errno}
		post(e, err, true)
		return err
	}
	err := os.Rename(a, b)
	post(e, err, false)
	return err
}

func OsLink(a, b string) error {
	e, inj := pre("Link", a, b)
	if inj != nil {
		err := &os.LinkError{Op: "link", Old: a, New: b, Err: inj.Errno}
		post(e, err, true)
		return err
	}
	err := os.Link(a, b)
	post(e, err, false)
	return err
}

func OsReadDir(name string) ([]os.DirEntry, error) {
	e, inj := pre("ReadDir", name, "")
	if inj != nil {
		err := perr("open", name, inj.Errno)
		post(e, err, true)
		return nil, err
	}
	d, err := os.ReadDir(name)
	post(e, err, false)
	return d, err
}

func OsCreateTemp(dir, pattern string) (*os.File, error) {
	e, inj := pre("CreateTemp", dir, pattern)
	if inj != nil {
		err := perr("open", dir, inj.Errno)
		post(e, err, true)
		return nil, err
	}
	f, err := os.CreateTemp(dir, pattern)
	post(e, err, false)
	return f, err
}

func SyscallMmap(fd int, offset int64, length int, prot int, flags int) ([]byte, error) {
	e, inj := pre("Mmap", "", fmt.Sprint(length))
	if inj != nil {
		post(e, inj.Errno, true)
		return nil, inj.Errno
	}
	b, err := syscall.Mmap(fd, offset, length, prot, flags)
	post(e, err, false)
	return b, err
}

func SyscallMunmap(b []byte) error {
	e, inj := pre("Munmap", "", "")
	if inj != nil {
		post(e, inj.Errno, true)
		return inj.Errno
	}
	err := syscall.Munmap(b)
	post(e, err, false)
	return err
}

// HTTPPost replaces http.Post.
func HTTPPost(url, contentType string, body io.Reader) (*http.Response, error) {
	e, inj := pre("Post", url, "")
	if inj != nil {
		post(e, inj.Errno, true)
		return nil, inj.Errno
	}
	resp, err := http.Post(url, contentType, body)
	if resp != nil && e != nil {
		e.Arg = fmt.Sprint(resp.StatusCode)
	}
	post(e, err, false)
	Yield("fs:Post-done")
	return resp, err
}

// RandHook, when set, supplies the bytes for crypto/rand.Read calls of the
// code under test (controlled X).
var RandHook atomic.Pointer[func(b []byte) bool]

func CryptoRandRead(b []byte) (int, error) {
	if h := RandHook.Load(); h != nil {
		if (*h)(b) {
			return len(b), nil
		}
	}
	return crand.Read(b)
}

// ---- *os.File methods (generic wrappers: only *os.File receivers are interposed)

func fname(f any) (string, bool) {
	if of, ok := f.(*os.File); ok && of != nil {
		return of.Name(), true
	}
	return "", false
}

func FStat[T interface{ Stat() (os.FileInfo, error) }](f T) (os.FileInfo, error) {
	name, ok := fname(any(f))
	if !ok {
		return f.Stat()
	}
	e, inj := pre("File.Stat", name, "")
	if inj != nil {
		err := perr("stat", name, inj.Errno)
		post(e, err, true)
		return nil, err
	}
	fi, err := f.Stat()
	post(e, err, false)
	return fi, err
}

func FClose[T interface{ Close() error }](f T) error {
	name, ok := fname(any(f))
	if !ok {
		return f.Close()
	}
	e, inj := pre("File.Close", name, "")
	if inj != nil {
		f.Close()
		err := perr("close", name, inj.Errno)
		post(e, err, true)
		return err
	}
	err := f.Close()
	post(e, err, false)
	return err
}

func FWrite[T interface{ Write([]byte) (int, error) }](f T, b []byte) (int, error) {
	name, ok := fname(any(f))
	if !ok {
		return f.Write(b)
	}
	e, inj := pre("File.Write", name, fmt.Sprint(len(b)))
	if inj != nil {
		n := 0
		if inj.Short {
			n, _ = f.Write(b[:len(b)/2])
		}
		err := perr("write", name, inj.Errno)
		post(e, err, true)
		return n, err
	}
	n, err := f.Write(b)
	post(e, err, false)
	return n, err
}

func FWriteAt[T interface {
	WriteAt([]byte, int64) (int, error)
}](f T, b []byte, off int64) (int, error) {
	name, ok := fname(any(f))
	if !ok {
		return f.WriteAt(b, off)
	}
	e, inj := pre("File.WriteAt", name, fmt.Sprint(off))
	if inj != nil {
		err := perr("write", name, inj.Errno)
		post(e, err, true)
		return 0, err
	}
	n, err := f.WriteAt(b, off)
	post(e, err, false)
	return n, err
}

// ExitHook, when set, observes a call to os.Exit made by the code under test
// (internal/counter's debugFatalf ends the process with status 1 when it
// believes the counter file is corrupt). The hook may panic with ExitPanic to
// end just the calling virtual process.
var ExitHook func(code int)

type ExitPanic struct{ Code int }

func (e ExitPanic) Error() string { return fmt.Sprintf("os.Exit(%d)", e.Code) }

func OsExit(code int) {
	if h := ExitHook; h != nil {
		h(code)
	}
	os.Exit(code)
}
