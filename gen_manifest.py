#!/usr/bin/env python3
# Regenerates MANIFEST.json from the table below (kept next to the checks so the two stay in step).
import json
BASE = "for m in . godev; do (cd /repo/$m && GOFLAGS=-mod=mod GOPROXY=off GOSUMDB=off GOTOOLCHAIN=local go test -json -vet=off -count=1 -timeout 25m ./...); done"
checks = {
 "C06": dict(cat="exploration", tech="runtime monitoring: loop-tick budget + panic/fault guard on counter.Parse over generated hostile inputs; differential oracle against an independent decoder",
   text="Parse is run on ~22k (quick) / ~1.6M (thorough) generated inputs - random bytes, 18 targeted damage classes (header length, limit, bucket heads, links incl. self/2-/long cycles through plain and stack-named records, name lengths, truncation, metadata) applied to valid files, and well-formed files from an independent writer and from the library's own writer - each under an instrumented loop-tick budget (deterministic stand-in for termination) and a panic/fault guard; every file the strict independent decoder accepts must be decoded to exactly the same metadata and name->value map (stack names expanded). Held on the inputs run, nothing more.",
   note="Trusts the reference decoder/writer in /verif/ref (written from the documented layout) and the tick budget 64*len+1e6 as the meaning of 'terminates'. ≤3-byte over-reads by unsafe loads are not judged.", ref="§2 C06"),
}
todo = {
}
names = ["C%02d" % i for i in range(1, 20)]
m = {
 "version": 1,
 "setup_cmd": "cd /verif && GOFLAGS=-mod=mod GOPROXY=off GOSUMDB=off GOTOOLCHAIN=local go build -o bin/ ./cmd/...",
 "hooks": {
  "guard": "verif",
  "enable": "no hook lines exist in /repo: checks build with `go test -tags verif -overlay <generated>`; the overlay injects /verif/harness/<pkg>/*_test.go (//go:build verif), the runtime package internal/verifrt (/verif/rt) and go/ast-instrumented copies of the current sources (scheduling points, loop ticks, fs/http fault shim)",
  "baseline_off_cmd": BASE,
  "source_commits": [],
  "add_only": True,
 },
 "engines": [{"name": "vcheck", "path": "/verif/bin/vcheck", "serves_properties": sorted(checks), "kind_free_text": "driver: overlay builder + AST instrumenter + go test runner + result merger/known-findings matcher/evidence writer"}],
 "checks": [],
 "not_applicable": [],
 "notes": "Exit codes: 0 held on what was observed (KNOWN-FINDING lines possible), 1 violation, 2 inconclusive (monitor could not build or did not reach its minimum observations). See DESIGN.md.",
}
for pid in names:
    if pid in checks:
        c = checks[pid]
        m["checks"].append({
          "property_id": pid,
          "quick_cmd": "bin/vcheck %s --tier quick" % pid,
          "thorough_cmd": "bin/vcheck %s --tier thorough" % pid,
          "evidence_file": "/verif/evidence/%s.json" % pid,
          "replay_cmd_template": "bin/vcheck %s --replay {path}" % pid,
          "engine": "vcheck",
          "level_claimed": {"category": c["cat"], "text": c["text"], "design_ref": c["ref"]},
          "level_note": c["note"],
          "technique": c["tech"],
        })
    else:
        m["not_applicable"].append({"property_id": pid, "reason": todo.get(pid, "check not built yet in this session (runtime-monitoring design in DESIGN.md §2); not claimed until its monitor runs silently on the unchanged tree")})
json.dump(m, open("/verif/MANIFEST.json", "w"), indent=1, ensure_ascii=False)
print("checks:", len(m["checks"]), "n/a:", len(m["not_applicable"]))
