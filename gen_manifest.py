#!/usr/bin/env python3
# Regenerates MANIFEST.json from the table below (kept next to the checks so the two stay in step).
import json
BASE = "for m in . godev; do (cd /repo/$m && GOFLAGS=-mod=mod GOPROXY=off GOSUMDB=off GOTOOLCHAIN=local go test -json -vet=off -count=1 -timeout 25m ./...); done"
checks = {
 "C06": dict(cat="exploration", tech="runtime monitoring: loop-tick budget + panic/fault guard on counter.Parse over generated hostile inputs; differential oracle against an independent decoder",
   text="Parse is run on ~22k (quick) / ~1.6M (thorough) generated inputs - random bytes, 18 targeted damage classes (header length, limit, bucket heads, links incl. self/2-/long cycles through plain and stack-named records, name lengths, truncation, metadata) applied to valid files, and well-formed files from an independent writer and from the library's own writer - each under an instrumented loop-tick budget (deterministic stand-in for termination) and a panic/fault guard; every file the strict independent decoder accepts must be decoded to exactly the same metadata and name->value map (stack names expanded). Held on the inputs run, nothing more.",
   note="Trusts the reference decoder/writer in /verif/ref (written from the documented layout) and the tick budget 64*len+1e6 as the meaning of 'terminates'. ≤3-byte over-reads by unsafe loads are not judged.", ref="§2 C06"),
}
checks.update({
 "C03": dict(cat="exploration", tech="runtime monitoring under a token-passing schedule fuzzer: online conservation invariant at every scheduling point + quarantining unmap (mprotect) as a stale-mapping sanitizer",
   text="The real Add/rotate1/lookup code runs as 2-6 virtual threads under a token-passing scheduler with a scheduling point at every atomic operation, lock acquisition and fs call (instrumented from the current sources). 4k (quick) / 160k (thorough) schedules: systematic 'park thread at its k-th point while others complete' for all k on ten core programs (Add vs first open / growth remap / rotation / Read), double parks, PCT, sticky and random schedules of random programs incl. saturating amounts. A monitor holding the token checks at every step persisted(sum over files, own read-only mapping)+pending <= begun and cell monotonicity; at quiescence equality, nothing pending when a file is open, state word released; unmapped regions are quarantined with PROT_NONE so stale accesses fault and are attributed. Evidence lists distinct traces and the hazard classes seen (swap while reader/lock held, pending extra at swap, half-registered counter at swap).",
   note="Sequential consistency between scheduling points (no weak-memory effects); 'waits forever' = no return in 60000 steps with all other threads finished. Two open known findings (F1, F11) are reported as KNOWN-FINDING by exact signature.", ref="§2 C03, §4"),
 "C04": dict(cat="exploration", tech="runtime monitoring under a token-passing schedule fuzzer with kill points: strict independent decoder run on the shared file after every step",
   text="2-4 emulated processes (own fd + MAP_SHARED mapping each, one virtual thread per process) create/increment same-name, bucket-colliding, page-filling (exact fit to the page end) and file-extending counters through the real code; kills park a process for ever at its k-th scheduling point (all k), plus park/PCT/sticky/random schedules. After every step the monitor decodes the file through its own mapping with the strict reference decoder (alignment, bounds, acyclic chains, bucket=hash, unique names, no overlap, reserved page tail, monotone limit) and checks values monotone and <= begun; at quiescence completed <= value <= begun and every survivor finished and persisted everything.",
   note="Processes are emulated inside one OS process (same page-cache pages, real atomics); kill -9 = thread never scheduled again. Sequential consistency between points.", ref="§2 C04"),
 "C10": dict(cat="exploration", tech="runtime monitoring of produced files: strict independent decoder as oracle after every operation; exhaustive sweep of the pure placement function over a page period",
   text="Random create/add/reopen/extend sequences on 1-3 writer handles (names 1..4096 arbitrary bytes, values incl. 2^64-1, metadata up to and over the cap, growth over many pages): after every operation the raw bytes must satisfy the strict independent decoder and equal the model; place(limit,len) is swept over every 32-aligned limit of a page period x every name length 1..4096 against the layout rule; files from the independent writer must be opened, read and extended by the library; concurrent writers are covered by re-running the C04 schedule harness.",
   note="Trusts /verif/ref (reader+writer written from the documented layout). The placement sweep is complete only for the stated sub-domain (page indices listed in the evidence).", ref="§2 C10"),
})
checks.update({
 "C09": dict(cat="exploration", tech="runtime monitoring with an injected clock: differential oracle (civil-calendar arithmetic without package time) over an exhaustive day sweep; file-system observation of rotation",
   text="counterSpan is evaluated under a controlled CounterTime for every day 1990..2069 x all seven settings x boundary times of day and compared with days-from-civil arithmetic; malformed/missing settings (every first byte 0..255 and more) are judged on the universally stated part only; sampled full opens check file name date, metadata (independent decoder) and the returned expiry; rotation is driven across end-1ns/end/end+1ns/+3d/+7d and the placement of increments checked in the files. (Uploader-side agreement is added by the upload harness.)",
   note="Clock = CounterTime test variable returning UTC; exhaustive only for the stated calendar range and settings.", ref="§2 C09"),
 "C15": dict(cat="exploration", tech="runtime monitoring of real call stacks from generated call programs (3 generated packages overlaid at odd import paths) + race detector on the cache; loop-tick budget on the decoder",
   text="3k (quick) / 200k (thorough) byte-coded call programs over 44 callees (functions, value/pointer methods, generics, generic-type methods, closures, same-package adjacency) in packages with dotted/dashed//v2/deep import paths: two Incs from one stack hit one counter; stacks differing in any frame's (symbol,file,line,offset) get different untruncated names; length <= 4096 at every truncation alignment; marker => uncompressed > 4096, no marker => all frames present; each decoded line = the frame's full symbol + well-formed location; Parse/ReadStack return expanded names; DecodeStack/IsStackCounter on 20k/1M generated strings under a tick budget; concurrent Inc under -race keeps counts.",
   note="Frames cannot be synthesised for runtime.CallersFrames, so reach is what the generated call programs produce. Distinctness is judged at the granularity the runtime can symbolise (two instantiations of one generic function are one 'stack').", ref="§2 C15"),
})
checks.update({
 "C01": dict(cat="exploration", tech="runtime monitoring of requests at a local upload server: reference filter as differential oracle, forced X through the instrumented crypto/rand call, canary scan of raw request bytes",
   text="1.6k (quick) / 48k (thorough) generated histories: configurations (program/version/Go-version subsets, bucketed counters, stacks, rates {0,.25,.5,1}, sample rates), counter files with approved names, every near-miss class (prefix/suffix/bucket/brace/case near-misses, plain counters named like approved stacks and vice versa) and canary-carrying private names, X forced at/above/below rates; 1-3 runs per history in one process with changing configs-in-force. Every request body must equal reference filter(aggregate, config, X) and the recorded report bytes; raw request bytes are scanned for canaries.",
   note="The config is handed to the uploader struct directly (module-proxy download not exercised); names are valid UTF-8, values < 2^62.", ref="§2 C01"),
 "C02": dict(cat="exploration", tech="runtime monitoring of requests and directory snapshots over generated mode/date histories; reference consent predicate as oracle",
   text="Same histories with mode files on/local/off/missing/malformed, opt-in dates placed on and around the data's begin dates (incl. two files of one week in both name orders), ends around the 21-day limit and the start instant, sample rates and forced X: requests iff the mode file reads exactly 'on' and the documented uploadable/sent predicates hold; mode off changes no counter file or report; SetModeAsOf/Mode round trip over 27 time zones and day boundaries, invalid modes rejected with the file byte-identical, arbitrary contents read as documented.",
   note="Start times are passed explicitly (virtual calendar 2019-2031); the counter API's own mode-off behaviour is covered by C16/C19 process-level checks.", ref="§2 C02"),
 "C07": dict(cat="exploration", tech="runtime monitoring: directory snapshots + reference aggregator (sequential histories); token-passing schedule fuzzer over fs calls with an fs-event-log checker (concurrent uploaders)",
   text="Sequential: generated directories (ok/empty/garbage/truncated/bad-metadata files, ends at/around the start instant, several files per build and week, pre-existing reports, a file growing between runs) through 1-3 runs in one process: exactly one local report per eligible week equal to the reference sums, files removed only then, everything else byte-identical. Concurrent: 2-4 uploaders under the scheduler (yield at every fs/HTTP call), park-at-k/PCT/sticky/random, kills: no report created or replaced twice (event log), local reports never change and equal the reference sums, counter files removed only after a report exists.",
   note="Three open known findings (F14 family) are reported by exact signature. Sequential consistency between scheduling points.", ref="§2 C07, §4"),
 "C08": dict(cat="fault_enumeration", tech="runtime monitoring under a token-passing schedule fuzzer with kill points and a scripted server: offline checker over the server log and directory snapshots",
   text="1.6k (quick) / 80k (thorough) histories: 2-4 uploaders x 1-3 rounds (later rounds hours to weeks later, start-time skew between uploaders, some anchored at the real clock) against a server answering each request 200/400/404/500/503/dropped, kills after any fs/HTTP call (park for ever: deferred cleanup never runs; incl. between ack and marker, while holding the lock). Checker: <=1 distinct acknowledged body per week and it is the complete reference report; no request while upload/<week>.json exists; only-5xx/unanswered weeks keep the report; 4xx removes it unmarked; crash-free histories acknowledge every uploadable week exactly once within rounds+1.",
   note="Uploaders are virtual threads in one process; kill = never scheduled again. Liveness is bounded (rounds+1). Four open known findings (F8, F14) are reported by exact signature.", ref="§2 C08, §4"),
})
checks.update({
 "C05": dict(cat="fault_enumeration", tech="runtime fault injection at instrumented fs/mmap call sites (single faults enumerated over the recorded call sequence, sampled pairs) + corruption at rest + hostile directory states, with loop-tick budget, panic/fault guard and conservation audit per host call",
   text="Counter side: a fault-free recording pass lists every fs/mmap call of the scenario (increment before open, open, increments, growth/remap, read, rotation); every call x 10 errnos (+short writes) is then failed in turn, plus 600 (quick) / 30k (thorough) fault pairs, deletion of the counter file or local dir between any two calls, 15 hostile initial states; 1k/40k counter files corrupted at rest (20 damage classes incl. cycles, wrapping limits) are opened and used. Each host call must return (no panic/fault), stay within the tick budget, and no counter may exceed its increments or decrease. Uploader side: public upload.Run / uploader.Run over directories with a damaged file, hostile layouts and injected faults must return, and the healthy week's report must be unchanged.",
   note="Faults are injected where the rewriter can interpose (package-level os/syscall calls and *os.File methods in internal/counter, internal/mmap, internal/telemetry, internal/upload). The public counter package's process-global defaultFile is exercised through the same internal code paths on private file values, not through counter.Open itself.", ref="§2 C05"),
 "C12": dict(cat="exploration", tech="runtime monitoring of the real handler chain over loopback HTTP: request classes with known verdicts, storage listing diff as oracle",
   text="3k (quick) / 200k (thorough) requests in sequence against newHandler (log/timeout/size/recover middlewares, FS storage): valid reports (hostile X values, 0-2 programs), each single invalid aspect (week, config, X==0, every build field, counter/bucket/stack near-misses, empty unapproved program, null program), truncated/wrong-typed/partial JSON, random bytes, non-POST methods, bodies around the size limit with Content-Length and chunked encoding. MUST-STORE => 200 and exactly the object <Week>/<%g X>.json decoding to the report; MUST-REJECT => 4xx and unchanged listing; never 5xx, nothing outside the bucket.",
   note="Trailing non-blank bytes after a valid report are a don't-care. FS backend only.", ref="§2 C12"),
 "C13": dict(cat="exploration", tech="runtime monitoring of the real merge/chart handlers over FS buckets: reference counting of distinct report IDs, metamorphic determinism check across storage orders and repetitions",
   text="150 (quick) / 4k (thorough) report sets (1-6 days x 0-40 reports, duplicate X, semver-equal versions, reports just under the 100 KiB limit): merged object = one line per stored object, equal content; chart NumReports and every partition datum equal reference counts of distinct X; chart bytes identical across three storage orders and three repetitions; missing day => 404 and no chart object; sub-ranges.",
   note="Server-side configuration is well-formed (valid Go/semver versions).", ref="§2 C13"),
 "C18": dict(cat="exploration", tech="model-based runtime monitoring: in-memory map model vs FSBucket over random operation sequences, with a file-system placement audit after every operation",
   text="500 (quick) / 30k (thorough) sequences of write/overwrite (longer, shorter, empty)/read/read-absent/list(prefix)/Copy over nested names; prefixes at and inside component boundaries; after every op all regular files under the root are exactly <bucket>/<name> of the model.",
   note="Names are ordinary slash-separated components; GCS backend not exercised.", ref="§2 C18"),
})
checks.update({
 "C11": dict(cat="exploration", tech="runtime differential monitoring of three real components chained through files (uploader -> upload handler -> viewer) against the documented configuration semantics",
   text="300 (quick) / 6k (thorough) configurations and data sets (all rates 1, no sampling; builds with each of the five identity fields individually inside/outside the configuration; approved names, near-misses, stacks): the real uploader's posted bodies are replayed to the real upload handler configured identically (must be 200; with any one unapproved item spliced in must be 400), and the viewer's newCounterFile/summary for the same files must say 'no data uploaded' / 'excluded' / Active exactly where the uploader omitted/kept things; the uploader's build verdicts must equal the five-field semantics.",
   note="Approval is isolated from sampling (rates 1). The three legs run in one vcheck invocation and are chained through files.", ref="§2 C11"),
 "C14": dict(cat="exploration", tech="runtime monitoring of telemetryCounterName: loop-tick budget and panic guard, differential oracle (harness's own relocated PC list through EncodeStack), metamorphic variants, canary scan; real crashes of the re-executed test binary",
   text="12k (quick) / 1M (thorough) crash texts (random bytes; grammar-built tracebacks with genuine PCs of the binary relocated by several sentinel deltas, 0-200 frames, sigpanic look-alikes, frames without pc=, missing/garbled/repeated sentinels, a 300-byte function name so that 16 frames exceed the 4096-byte limit) plus three metamorphic variants each differing only in non-PC text: terminates, result shape and bounds, equals EncodeStack of the harness's PC list, variants agree or error, no canary in the name. 14 real crashes (panic, nil deref, nil map, inlined index, divide, bad unlock, stack overflow; main and other goroutine) captured through crashmonitor.Parent and named in-process must list verifCrashC/B/A in order.",
   note="Crasher and namer are the same non-PIE executable.", ref="§2 C14"),
 "C16": dict(cat="exploration", tech="runtime monitoring of real process trees: process-start log appended by the re-executed test binary acting as application, sidecar and `go` command; directory snapshots; token race under the token-passing scheduler and with real processes",
   text="The 840-row decision table (child marker x ReportCrashes x Upload x mode x token age; TelemetryDir vs default location; local/ present or not) is run as real processes (quick: every third row, rotating with the seed; thorough: all): sidecar iff permitted, upload flag iff token acquired, no marker-1 process below a marker-1/2 process (the uploader child's `go mod download` is this binary again), mode off: nothing started or written. acquireUploadToken is raced by 2-6 virtual threads under the scheduler (yield at its Stat/Remove/OpenFile) and by 2-24 real processes: at most one winner.",
   note="Descendants are awaited by scanning /proc for a per-run id (20 s watchdog => inconclusive). Stale-token races are excluded as in the property.", ref="§2 C16"),
 "C17": dict(cat="exploration", tech="runtime monitoring: loop-tick budget + panic guard on the parser over generated texts; round trip through an independent renderer; reference version orders as oracle for the generated config",
   text="20k (quick) / 2M (thorough) texts (random bytes, mutations of the shipped config.txt, grammar soup) must parse or fail cleanly; 3k/300k record sets rendered by an independent renderer of the documented syntax (random field order, spacing, comments, multi-line bucket lists, repeated issues) must parse back DeepEqual; 3k/300k valid record sets through generate() with proxy answers replaced: counter placement (stack iff depth>0), version lists contain everything not older than the smallest minimum in the right order (independent semver / Go-version comparators); padVersions superset/sorted/duplicate-free.",
   note="Proxy queries are replaced through versionsForTesting; padVersions inputs are duplicate-free canonical lists.", ref="§2 C17"),
 "C19": dict(cat="exploration", tech="runtime monitoring of the real command as a subprocess: before/after directory snapshots (content hash, mtime, symlinks) as oracle",
   text="140 (quick) / 5k (thorough) generated telemetry directories (data files by the exact patterns, 15 near-misses, data-named directories empty/non-empty, symlinks, foreign files, missing local/upload, ten mode-file states) x command sequences of length 1-6 over {on, local, off, clean, env}: clean leaves no regular data file and touches nothing else; mode commands touch only the mode file, not even its mtime when the mode already reads as requested, else env and the file show the requested mode with today's UTC date.",
   note="The command is main() reached by re-executing the test binary with XDG_CONFIG_HOME/HOME redirected. Data-named directories/symlinks are don't-care.", ref="§2 C19"),
})

# additions made while the checks were strengthened (kept separate so the base texts stay readable)
more_text = {
 "C01": " A second unit drives the public upload.Run entry point (config from a local module proxy directory) and a family of programs whose stack counters share stacks across programs.",
 "C02": " A further unit runs the public counter package (Open, Inc, Add, NewStack, CountFlags, growth) in re-executed processes with the mode file reading off (plain, dated, padded) over empty and populated directories: the directory snapshot must be identical afterwards.",
 "C03": " In addition: free-running passes of the same programs on real goroutines with random jitter at the instrumented points (logical lock-wait bound instead of wall-clock), a unit under the Go race detector (any report in the counter/mmap packages is a violation), and a trap on the library's own 'counter bug' exit (debugFatalf/os.Exit with CrashOnBugs set), which must never fire on a healthy file.",
 "C04": " A dedicated family makes every bucket-colliding record land in a new 16 KiB page and parks a stale process right after each of its re-map steps while another process links a further record one page on. The library's 'counter bug' exit (CrashOnBugs) is trapped: a healthy shared file must never be judged corrupt. A second unit uses real OS processes (3-8 workers, SIGKILL at random instants, consistent snapshots of the live file) and checks the recorded Add histories per counter name with porcupine against a fetch-and-add register.",
 "C05": " The public counter API is additionally exercised in re-executed processes over hostile telemetry directories. Unmapped regions are quarantined (bounded FIFO) so that use-after-unmap faults instead of passing silently.",
 "C07": " Plus a race-detector unit over concurrent uploaders in one process and a fault unit (every fs call of the upload path failed in turn: a counter file may be deleted only if a report holding its counts exists).",
 "C08": " Server answers are drawn from 200/400/401/403/404/413/429/499 and 500-599 (incl. 501/502/504/505/507/511/521/599) or dropped; a race-detector unit runs the same scenario free-running.",
 "C09": " A ticking clock (each CounterTime call later than the last) checks that one span computation uses one instant; an existing file whose recorded end differs from the setting in force must not be adopted.",
 "C11": " For a name shared by a counter and stack counters the viewer's listing is judged per name (listed iff the uploader omits at least one entry), over repeated renderings.",
 "C12": " Valid reports are also re-uploaded under an already stored week and X with shorter and longer bodies: the object must decode to exactly the last report.",
 "C13": " After the first merge a stored report is replaced under the same name (usually by a smaller one), sometimes another arrives, and the day is re-merged and the range re-charted: results must be a function of the stored set only.",
 "C14": " Variants include multi-line, tab-indented panic values that quote goroutine dumps with genuine PCs; one real crash panics with such a value.",
 "C16": " Every other token race case fails one or all of the token file's Stat/Remove/OpenFile calls with ENOSPC/EACCES/EMFILE/EROFS/EIO/ENOENT/EDQUOT: only a caller whose exclusive create succeeded may report the token as acquired.",
 "C18": " Name pools include siblings differing by .tmp/~/.part/.lock/.swp suffixes or a leading dot, and listings/reads of all other objects are checked while one object is half-written.",
 "C19": " Commands run under varying TZ settings; the recorded date must be the UTC date.",
}
for k, v in more_text.items():
    checks[k]["text"] += v
todo = {
}
names = ["C%02d" % i for i in range(1, 20)]
m = {
 "version": 1,
 "setup_cmd": "cd /verif && GOFLAGS=-mod=mod GOPROXY=off GOSUMDB=off GOTOOLCHAIN=local go build -o bin/ ./cmd/...",
 "hooks": {
  "guard": "verif",
  "enable": "no hook lines exist in /repo: checks build with `go test -tags verif -overlay <generated>`; the overlay injects /verif/harness/<pkg>/*_test.go (//go:build verif), the runtime package internal/verifrt (/verif/rt) and go/ast-instrumented copies of the current sources (scheduling points, loop ticks, fs/http fault shim)",
  "baseline_off_cmd": BASE,
  "source_commits": [],
  "add_only": True,
 },
 "engines": [{"name": "vcheck", "path": "/verif/bin/vcheck", "serves_properties": sorted(checks), "kind_free_text": "driver: overlay builder + AST instrumenter + go test runner + result merger/known-findings matcher/evidence writer"}],
 "checks": [],
 "not_applicable": [],
 "notes": "Exit codes: 0 held on what was observed (KNOWN-FINDING lines possible), 1 violation, 2 inconclusive (monitor could not build or did not reach its minimum observations). See DESIGN.md.",
}
for pid in names:
    if pid in checks:
        c = checks[pid]
        m["checks"].append({
          "property_id": pid,
          "quick_cmd": "bin/vcheck %s --tier quick" % pid,
          "thorough_cmd": "bin/vcheck %s --tier thorough" % pid,
          "evidence_file": "/verif/evidence/%s.json" % pid,
          "replay_cmd_template": "bin/vcheck %s --replay {path}" % pid,
          "engine": "vcheck",
          "level_claimed": {"category": c["cat"], "text": c["text"], "design_ref": c["ref"]},
          "level_note": c["note"],
          "technique": c["tech"],
        })
    else:
        m["not_applicable"].append({"property_id": pid, "reason": todo.get(pid, "check not built yet in this session (runtime-monitoring design in DESIGN.md §2); not claimed until its monitor runs silently on the unchanged tree")})
json.dump(m, open("/verif/MANIFEST.json", "w"), indent=1, ensure_ascii=False)
print("checks:", len(m["checks"]), "n/a:", len(m["not_applicable"]))
