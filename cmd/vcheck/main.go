// vcheck is the single entry point of the /verif monitors:
//
//	vcheck <property-id> [--tier quick|thorough] [--replay file] [--keep] [--unit name]
//
// It rebuilds the harness for the property from /repo's current working tree
// (go test -overlay, see DESIGN.md §1), runs it, merges what the monitors
// observed, compares violations with known_findings.json and writes the
// evidence file.
package main

import (
	"encoding/json"
	"flag"
	"fmt"
	"os"
	"os/exec"
	"path/filepath"
	"sort"
	"strconv"
	"strings"
	"time"

	"verif.local/internal/instr"
)

var (
	verifDir = envOr("VERIF_DIR", "/verif")
	repoDir  = envOr("VERIF_REPO", "/repo")
)

func envOr(k, d string) string {
	if v := os.Getenv(k); v != "" {
		return v
	}
	return d
}

// A Unit is one `go test` invocation of an injected harness.
type Unit struct {
	Name       string
	Module     string   // "" (root module) or "godev"
	Pkg        string   // package dir relative to the module root
	Harness    string   // dir under /verif/harness
	Run        string   // -run regexp
	Instrument []string // package dirs (relative to /repo) to instrument
	Race       bool
	Timeout    time.Duration
	Env        []string
	// Extra maps package dirs to create (relative to /repo) to source dirs under /verif
	Extra        map[string]string
	ThoroughOnly bool
}

type Prop struct {
	ID     string
	Level  string
	Units  []Unit
	Assume []string
}

type rtResult struct {
	Check        string         `json:"check"`
	Evaluations  int            `json:"evaluations"`
	DistinctN    int            `json:"distinct_nontrivial"`
	Rule         string         `json:"rule"`
	Samples      []any          `json:"samples"`
	Classes      map[string]int `json:"classes"`
	Violations   []rtViolation  `json:"violations"`
	Inconclusive []string       `json:"inconclusive"`
	Extra        map[string]any `json:"extra"`
	Need         []string       `json:"need"`
}

type rtViolation struct {
	Sig    string `json:"sig"`
	Msg    string `json:"msg"`
	Replay any    `json:"replay"`
	Count  int    `json:"count"`
}

type finding struct {
	Status   string `json:"status"` // open | fixed
	Property string `json:"property"`
	Sig      string `json:"sig"`
	What     string `json:"what"`
	Commit   string `json:"commit,omitempty"`
}

func main() {
	tier := flag.String("tier", envOr("VERIF_TIER", "quick"), "quick|thorough")
	replay := flag.String("replay", "", "replay file")
	keep := flag.Bool("keep", false, "keep scratch dir")
	only := flag.String("unit", "", "run only this unit")
	verbose := flag.Bool("v", false, "stream go test output")
	if len(os.Args) < 2 {
		fmt.Fprintln(os.Stderr, "usage: vcheck <id> [flags]")
		os.Exit(2)
	}
	id := os.Args[1]
	flag.CommandLine.Parse(os.Args[2:])
	if *tier != "quick" && *tier != "thorough" {
		*tier = "quick"
	}
	p, ok := props()[id]
	if !ok {
		fmt.Fprintf(os.Stderr, "unknown property %s\n", id)
		os.Exit(2)
	}
	seed := int64(1)
	if s := os.Getenv("VERIF_SEED"); s != "" {
		if n, err := strconv.ParseInt(s, 10, 64); err == nil {
			seed = n
		}
	}
	start := time.Now()
	scratch, err := os.MkdirTemp("", "verif-"+id+"-")
	if err != nil {
		fmt.Fprintln(os.Stderr, err)
		os.Exit(2)
	}
	if !*keep {
		defer os.RemoveAll(scratch)
	} else {
		fmt.Fprintln(os.Stderr, "scratch:", scratch)
	}

	var replayData map[string]any
	if *replay != "" {
		b, err := os.ReadFile(*replay)
		if err != nil {
			fmt.Fprintln(os.Stderr, err)
			os.Exit(2)
		}
		json.Unmarshal(b, &replayData)
		if u, ok := replayData["unit"].(string); ok && *only == "" {
			*only = u
		}
		if s, ok := replayData["seed"].(float64); ok {
			seed = int64(s)
		}
		if t, ok := replayData["tier"].(string); ok {
			*tier = t
		}
	}

	var results []rtResult
	var inconc []string
	unitInfo := map[string]any{}
	for _, u := range p.Units {
		if *only != "" && u.Name != *only {
			continue
		}
		if u.ThoroughOnly && *tier != "thorough" {
			continue
		}
		out := filepath.Join(scratch, "out-"+u.Name)
		os.MkdirAll(out, 0o755)
		info, err := runUnit(p, u, scratch, out, *tier, seed, *replay, *verbose)
		unitInfo[u.Name] = info
		if err != nil {
			inconc = append(inconc, fmt.Sprintf("unit %s: %v", u.Name, err))
		}
		if n, ok := info["race_reports"].(int); ok && n > 0 {
			sample, _ := info["race_sample"].(string)
			results = append(results, rtResult{Check: p.ID + ".racedetector", Evaluations: 1, DistinctN: 0, Classes: map[string]int{"reports": n}, Extra: withUnit(nil, u.Name),
				Violations: []rtViolation{{Sig: "data-race:" + raceSig(sample), Count: n, Msg: fmt.Sprintf("the Go race detector reported %d data race(s) in unit %s:\n%.2500s", n, u.Name, sample), Replay: map[string]any{}}}})
		}
		if lr := checkHistories(out, p.ID); lr != nil {
			lr.Extra = withUnit(lr.Extra, u.Name)
			results = append(results, *lr)
		}
		files, _ := filepath.Glob(filepath.Join(out, "*.result.json"))
		sort.Strings(files)
		if len(files) == 0 && err == nil {
			inconc = append(inconc, fmt.Sprintf("unit %s: no result file written", u.Name))
		}
		kept := 0
		for _, f := range files {
			b, _ := os.ReadFile(f)
			var r rtResult
			if err := json.Unmarshal(b, &r); err != nil {
				inconc = append(inconc, fmt.Sprintf("unit %s: bad result file %s: %v", u.Name, filepath.Base(f), err))
				continue
			}
			if !strings.HasPrefix(r.Check, p.ID+".") {
				continue // a harness shared by several properties: keep this property's oracle only
			}
			for i := range r.Violations {
				if r.Violations[i].Replay == nil {
					r.Violations[i].Replay = map[string]any{}
				}
			}
			r.Extra = withUnit(r.Extra, u.Name)
			results = append(results, r)
			kept++
		}
		if kept == 0 && len(files) > 0 && err == nil && *replay == "" {
			// a shared harness whose results all belong to other properties: this
			// unit would silently contribute nothing
			inconc = append(inconc, fmt.Sprintf("unit %s: wrote %d result file(s), none of them for %s", u.Name, len(files), p.ID))
		}
	}

	known := loadFindings()
	exit := 0
	nviol := 0
	replayDir := envOr("VERIF_REPLAY_DIR", filepath.Join(verifDir, "replays"))
	os.MkdirAll(replayDir, 0o755)
	var knownHit []string
	for _, r := range results {
		for _, v := range r.Violations {
			if f := matchFinding(known, p.ID, v.Sig); f != nil {
				line := fmt.Sprintf("KNOWN-FINDING: property=%s %s [%s x%d]", p.ID, f.What, v.Sig, v.Count)
				fmt.Println(line)
				knownHit = append(knownHit, v.Sig)
				continue
			}
			nviol++
			rp := filepath.Join(replayDir, fmt.Sprintf("%s-%s.json", p.ID, sanitize(v.Sig)))
			wb, _ := json.MarshalIndent(map[string]any{
				"property": p.ID, "unit": r.Extra["unit"], "check": r.Check, "sig": v.Sig, "msg": v.Msg,
				"seed": seed, "tier": *tier, "count": v.Count, "replay": v.Replay,
			}, "", " ")
			os.WriteFile(rp, wb, 0o644)
			fmt.Printf("VIOLATION property=%s replay=%s\n", p.ID, rp)
			fmt.Printf("  sig=%s count=%d\n  %s\n", v.Sig, v.Count, indent(v.Msg))
			exit = 1
		}
		for _, s := range r.Inconclusive {
			inconc = append(inconc, r.Check+": "+s)
		}
		for _, n := range r.Need {
			if r.Classes[n] == 0 && *replay == "" {
				inconc = append(inconc, fmt.Sprintf("%s: minimum observation %q not reached", r.Check, n))
			}
		}
	}
	if *replay == "" {
		writeEvidence(p, *tier, seed, results, inconc, nviol, knownHit, unitInfo, time.Since(start))
	}
	for _, s := range inconc {
		fmt.Fprintln(os.Stderr, "INCONCLUSIVE:", s)
	}
	if exit == 0 && len(inconc) > 0 {
		exit = 2
	}
	if exit == 0 {
		ev, dn := 0, 0
		for _, r := range results {
			ev += r.Evaluations
			dn += r.DistinctN
		}
		fmt.Printf("%s: held on what was observed (%d evaluations, %d distinct non-trivial, %.1fs)\n", p.ID, ev, dn, time.Since(start).Seconds())
	}
	if !*keep {
		os.RemoveAll(scratch)
	}
	os.Exit(exit)
}

func withUnit(m map[string]any, u string) map[string]any {
	if m == nil {
		m = map[string]any{}
	}
	m["unit"] = u
	return m
}

func indent(s string) string { return strings.ReplaceAll(s, "\n", "\n  ") }

func sanitize(s string) string {
	var b strings.Builder
	for _, c := range s {
		if c >= 'a' && c <= 'z' || c >= 'A' && c <= 'Z' || c >= '0' && c <= '9' || c == '-' || c == '_' || c == '.' {
			b.WriteRune(c)
		} else {
			b.WriteByte('_')
		}
	}
	r := b.String()
	if len(r) > 80 {
		r = r[:80]
	}
	return r
}

func loadFindings() []finding {
	b, err := os.ReadFile(filepath.Join(verifDir, "known_findings.json"))
	if err != nil {
		return nil
	}
	var f struct {
		Findings []finding `json:"findings"`
	}
	json.Unmarshal(b, &f)
	return f.Findings
}

func matchFinding(fs []finding, prop, sig string) *finding {
	for i := range fs {
		if fs[i].Status == "open" && fs[i].Property == prop && fs[i].Sig == sig {
			return &fs[i]
		}
	}
	return nil
}

// ---------------------------------------------------------------- building and running a unit

func moduleRoot(u Unit) string {
	if u.Module != "" {
		return filepath.Join(repoDir, u.Module)
	}
	return repoDir
}

func runUnit(p Prop, u Unit, scratch, out, tier string, seed int64, replay string, verbose bool) (map[string]any, error) {
	info := map[string]any{}
	overlay := map[string]string{}
	// 1. runtime and reference packages (created by the overlay; absent on disk)
	for _, m := range []struct{ src, dst string }{
		{filepath.Join(verifDir, "rt"), filepath.Join(repoDir, "internal", "verifrt")},
		{filepath.Join(verifDir, "ref"), filepath.Join(repoDir, "internal", "verifref")},
	} {
		files, _ := filepath.Glob(filepath.Join(m.src, "*.go"))
		for _, f := range files {
			overlay[filepath.Join(m.dst, filepath.Base(f))] = f
		}
	}
	for dst, src := range u.Extra {
		files, _ := filepath.Glob(filepath.Join(verifDir, src, "*.go"))
		for _, f := range files {
			overlay[filepath.Join(repoDir, dst, filepath.Base(f))] = f
		}
	}
	// 2. harness files in, the package's own tests out
	pkgDir := filepath.Join(moduleRoot(u), u.Pkg)
	ents, err := os.ReadDir(pkgDir)
	if err != nil {
		return info, fmt.Errorf("package dir: %v", err)
	}
	for _, e := range ents {
		if strings.HasSuffix(e.Name(), "_test.go") {
			overlay[filepath.Join(pkgDir, e.Name())] = ""
		}
	}
	hfiles, _ := filepath.Glob(filepath.Join(verifDir, "harness", u.Harness, "*.go"))
	if len(hfiles) == 0 {
		return info, fmt.Errorf("no harness files in %s", u.Harness)
	}
	for _, f := range hfiles {
		base := filepath.Base(f)
		if !strings.HasSuffix(base, "_test.go") {
			base = strings.TrimSuffix(base, ".go") + "_test.go"
		}
		overlay[filepath.Join(pkgDir, "zz_verif_"+base)] = f
	}
	// 3. instrumented copies of the current sources
	idir := filepath.Join(scratch, "instr-"+u.Name)
	totals := instr.Stats{}
	for _, rel := range u.Instrument {
		dir := filepath.Join(repoDir, rel)
		ents, err := os.ReadDir(dir)
		if err != nil {
			return info, fmt.Errorf("instrument %s: %v", rel, err)
		}
		for _, e := range ents {
			n := e.Name()
			if !strings.HasSuffix(n, ".go") || strings.HasSuffix(n, "_test.go") {
				continue
			}
			src, err := os.ReadFile(filepath.Join(dir, n))
			if err != nil {
				return info, err
			}
			res, st, err := instr.File(n, src, instr.Options{Yields: true, Ticks: true, Shim: true, ShimMethods: true,
				RtImport: "golang.org/x/telemetry/internal/verifrt"})
			if err != nil {
				return info, fmt.Errorf("instrument %s/%s: %v", rel, n, err)
			}
			totals.Yields += st.Yields
			totals.Ticks += st.Ticks
			totals.Shims += st.Shims
			totals.MethodShims += st.MethodShims
			totals.Locks += st.Locks
			od := filepath.Join(idir, strings.ReplaceAll(rel, "/", "_"))
			os.MkdirAll(od, 0o755)
			of := filepath.Join(od, n)
			if err := os.WriteFile(of, res, 0o644); err != nil {
				return info, err
			}
			overlay[filepath.Join(dir, n)] = of
		}
	}
	info["instrumented"] = map[string]int{"yield_points": totals.Yields, "loop_ticks": totals.Ticks, "shimmed_calls": totals.Shims, "shimmed_methods": totals.MethodShims, "locks": totals.Locks}
	ob, _ := json.Marshal(map[string]any{"Replace": overlay})
	ofile := filepath.Join(scratch, "overlay-"+u.Name+".json")
	if err := os.WriteFile(ofile, ob, 0o644); err != nil {
		return info, err
	}
	timeout := u.Timeout
	if timeout == 0 {
		timeout = 20 * time.Minute
	}
	if tier == "thorough" {
		timeout *= 6
	}
	args := []string{"test", "-vet=off", "-overlay=" + ofile, "-tags=verif", "-run=" + u.Run, "-count=1", "-timeout=" + timeout.String()}
	if u.Race {
		args = append(args, "-race")
	}
	if verbose {
		args = append(args, "-v")
	}
	args = append(args, "./"+u.Pkg)
	cmd := exec.Command("go", args...)
	cmd.Dir = moduleRoot(u)
	env := []string{}
	for _, e := range os.Environ() {
		if strings.HasPrefix(e, "GOFLAGS=") || strings.HasPrefix(e, "VERIF_BATCH=") {
			continue
		}
		env = append(env, e)
	}
	tmp := filepath.Join(scratch, "tmp-"+u.Name)
	os.MkdirAll(tmp, 0o755)
	env = append(env, "GOFLAGS=", "GOPROXY=off", "GOSUMDB=off", "GOTOOLCHAIN=local",
		"VERIF_OUT="+out, "VERIF_SEED="+strconv.FormatInt(seed, 10), "VERIF_TIER="+tier, "VERIF_DIR="+verifDir, "VERIF_REPO="+repoDir,
		"VERIF_TMP="+tmp, "VERIF_SHARE="+filepath.Join(scratch, "share"), "VERIF_REPLAY_DIR="+envOr("VERIF_REPLAY_DIR", filepath.Join(verifDir, "replays")))
	if replay != "" {
		env = append(env, "VERIF_REPLAY="+replay)
	}
	if u.Race {
		env = append(env, "GORACE=halt_on_error=0 log_path="+filepath.Join(out, "race"))
	}
	env = append(env, u.Env...)
	if v := os.Getenv("VERIF_SELFTEST_RACE"); v != "" {
		env = append(env, "VERIF_SELFTEST_RACE="+v)
	}
	cmd.Env = env
	logf := filepath.Join(out, "gotest.log")
	lf, _ := os.Create(logf)
	if verbose {
		cmd.Stdout = os.Stderr
		cmd.Stderr = os.Stderr
	} else {
		cmd.Stdout = lf
		cmd.Stderr = lf
	}
	t0 := time.Now()
	err = cmd.Run()
	lf.Close()
	info["wall_s"] = time.Since(t0).Seconds()
	if u.Race {
		n, sample := countRaces(out)
		info["race_reports"] = n
		if n > 0 {
			info["race_sample"] = sample
		}
	}
	if err != nil {
		logb, _ := os.ReadFile(logf)
		// A harness test that found violations reports them through result
		// files; the go test exit status only matters when nothing was written
		// (build failure, crash of the parent test process).
		files, _ := filepath.Glob(filepath.Join(out, "*.result.json"))
		if len(files) == 0 {
			return info, fmt.Errorf("go test failed and wrote no result: %v\n%s", err, tailStr(string(logb), 3000))
		}
		if !strings.Contains(string(logb), "--- FAIL") {
			return info, fmt.Errorf("go test failed: %v\n%s", err, tailStr(string(logb), 3000))
		}
	}
	return info, nil
}

func tailStr(s string, n int) string {
	if len(s) > n {
		return s[len(s)-n:]
	}
	return s
}

// raceSig names a race report by the first two telemetry frames in it.
func raceSig(report string) string {
	var fs []string
	for _, l := range strings.Split(report, "\n") {
		l = strings.TrimSpace(l)
		if strings.HasPrefix(l, "golang.org/x/telemetry/") && !strings.Contains(l, "verifrt") && !strings.Contains(l, "zz_verif") {
			if i := strings.LastIndex(l, "("); i > 0 {
				l = l[:i]
			}
			l = strings.TrimPrefix(l, "golang.org/x/telemetry/")
			if len(fs) == 0 || fs[len(fs)-1] != l {
				fs = append(fs, l)
			}
			if len(fs) == 2 {
				break
			}
		}
	}
	if len(fs) == 0 {
		return "harness-only"
	}
	return strings.Join(fs, "|")
}

func countRaces(out string) (int, string) {
	files, _ := filepath.Glob(filepath.Join(out, "race.*"))
	n := 0
	sample := ""
	for _, f := range files {
		b, _ := os.ReadFile(f)
		c := strings.Count(string(b), "WARNING: DATA RACE")
		n += c
		if c > 0 && sample == "" {
			sample = tailStr(string(b), 0)
			if len(b) > 3000 {
				sample = string(b[:3000])
			} else {
				sample = string(b)
			}
		}
	}
	return n, sample
}

// ---------------------------------------------------------------- evidence

func writeEvidence(p Prop, tier string, seed int64, results []rtResult, inconc []string, nviol int, known []string, unitInfo map[string]any, wall time.Duration) {
	ev, dn := 0, 0
	var rules []string
	var samples []any
	classes := map[string]int{}
	extra := map[string]any{}
	for _, r := range results {
		ev += r.Evaluations
		dn += r.DistinctN
		if r.Rule != "" {
			rules = append(rules, r.Check+": "+r.Rule)
		}
		for i, s := range r.Samples {
			if i < 4 {
				samples = append(samples, map[string]any{"check": r.Check, "case": s})
			}
		}
		for k, v := range r.Classes {
			classes[r.Check+"/"+k] += v
		}
		if len(r.Extra) > 1 {
			extra[r.Check] = r.Extra
		}
	}
	if len(samples) == 0 {
		samples = []any{"(no case was run)"}
	}
	cov := map[string]any{
		"evaluations":         ev,
		"distinct_nontrivial": dn,
		"rule":                strings.Join(rules, " || "),
		"samples":             samples,
		"observed_classes":    classes,
		"units":               unitInfo,
		"checks":              len(results),
	}
	if len(extra) > 0 {
		cov["monitors"] = extra
	}
	if len(inconc) > 0 {
		cov["inconclusive"] = inconc
	}
	if len(known) > 0 {
		cov["known_findings_reproduced"] = known
	}
	verdict := "held on what was observed"
	if nviol > 0 {
		verdict = "violated"
	} else if len(inconc) > 0 {
		verdict = "inconclusive"
	}
	cov["verdict"] = verdict
	e := map[string]any{
		"property_id": p.ID,
		"tier":        tier,
		"seed":        seed,
		"level":       p.Level,
		"coverage":    cov,
		"assumptions": p.Assume,
		"wall_s":      wall.Seconds(),
		"violations":  nviol,
	}
	b, _ := json.MarshalIndent(e, "", " ")
	edir := envOr("VERIF_EVIDENCE_DIR", filepath.Join(verifDir, "evidence"))
	os.MkdirAll(edir, 0o755)
	os.WriteFile(filepath.Join(edir, p.ID+".json"), b, 0o644)
}
