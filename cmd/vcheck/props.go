package main

import "time"

var counterInstr = []string{"internal/counter", "internal/mmap"}

var uploadInstr = []string{"internal/upload", "internal/telemetry"}

var chainPkgs = map[string]string{
	"internal/verifgen/ex.ample-pkg/v2":              "harness/gen/chain",
	"internal/verifgen/deep/er/path.with.dots/chain": "harness/gen/chain",
	"internal/verifgen/plain":                        "harness/gen/chain",
	// a dot in the last path element: symbol names spell it %2e
	"internal/verifgen/yaml.v3": "harness/gen/chain",
}

func props() map[string]Prop {
	ps := []Prop{
		{
			ID: "C06", Level: "exploration",
			Units: []Unit{
				{Name: "parse", Pkg: "internal/counter", Harness: "internal_counter", Run: "^TestVerifC06$", Instrument: counterInstr, Timeout: 30 * time.Minute},
			},
			Assume: []string{
				"loop-tick budget 64*len+1e6 per Parse call stands for 'terminates'",
				"the reference decoder in /verif/ref follows the documented v1 layout",
			},
		},
		{
			ID: "C10", Level: "exploration",
			Units: []Unit{
				{Name: "format", Pkg: "internal/counter", Harness: "internal_counter", Run: "^TestVerifC10$", Instrument: counterInstr, Timeout: 30 * time.Minute},
				// several concurrent writers: the C04 schedule harness (same strict decoder after every step), at a third of its size
				{Name: "writers", Pkg: "internal/counter", Harness: "internal_counter", Run: "^TestVerifC04$", Instrument: counterInstr, Timeout: 40 * time.Minute, Env: []string{"VERIF_SCALE=0.34", "VERIF_C04_AS=C10.writers"}},
			},
			Assume: []string{
				"the reference decoder/writer in /verif/ref follow the documented v1 layout (hash pinned by FNV-1a definition)",
				"several writers are emulated by independent mappings (own fd + MAP_SHARED) of one file inside one process, operating sequentially; concurrent writers are C04's subject",
			},
		},
		{
			ID: "C03", Level: "exploration",
			Units: []Unit{
				{Name: "sched", Pkg: "internal/counter", Harness: "internal_counter", Run: "^TestVerifC03$", Instrument: counterInstr, Timeout: 40 * time.Minute},
				{Name: "race", Pkg: "internal/counter", Harness: "internal_counter", Run: "^TestVerifC03Race$", Instrument: counterInstr, Race: true, Timeout: 40 * time.Minute},
			},
			Assume: []string{
				"interleavings are explored at the granularity of the instrumented scheduling points (every atomic operation, lock acquisition, Once.Do and fs call in internal/counter and internal/mmap); sequential consistency between points",
				"'waits forever' is judged as: no return within 60000 scheduling steps while all other threads have finished",
			},
		},
		{
			ID: "C04", Level: "exploration",
			Units: []Unit{
				{Name: "sched", Pkg: "internal/counter", Harness: "internal_counter", Run: "^TestVerifC04$", Instrument: counterInstr, Timeout: 40 * time.Minute},
				{Name: "procs", Pkg: "internal/counter", Harness: "internal_counter", Run: "^TestVerifC04Procs$", Instrument: counterInstr, Timeout: 40 * time.Minute},
			},
			Assume: []string{
				"a process is emulated by an independent file value (own fd and MAP_SHARED mapping) driven by one virtual thread in the test process; kill = the thread is never scheduled again",
				"interleavings at the granularity of the instrumented scheduling points; sequential consistency between points",
			},
		},
		{
			ID: "C09", Level: "exploration",
			Units: []Unit{
				{Name: "rotate", Pkg: "internal/counter", Harness: "internal_counter", Run: "^TestVerifC02Rotate$", Instrument: counterInstr, Timeout: 20 * time.Minute},
				{Name: "counter", Pkg: "internal/counter", Harness: "internal_counter", Run: "^TestVerifC09$", Instrument: counterInstr, Timeout: 30 * time.Minute},
				{Name: "sched", Pkg: "internal/counter", Harness: "internal_counter", Run: "^TestVerifC09Sched$", Instrument: counterInstr, Timeout: 30 * time.Minute},
				{Name: "uploader", Pkg: "internal/upload", Harness: "internal_upload", Run: "^TestVerifUploadSeq$", Instrument: uploadInstr, Timeout: 30 * time.Minute},
			},
			Assume: []string{
				"the clock is the CounterTime test variable and returns UTC times, as documented",
				"civil-calendar reference arithmetic in /verif/ref (days-from-civil) is correct for 1990..2069",
			},
		},
		{
			ID: "C15", Level: "exploration",
			Units: []Unit{
				{Name: "stacks", Pkg: "internal/counter", Harness: "internal_counter", Run: "^TestVerifC15$", Instrument: counterInstr, Extra: chainPkgs, Timeout: 30 * time.Minute},
				{Name: "race", Pkg: "internal/counter", Harness: "internal_counter", Run: "^TestVerifC15Race$", Instrument: counterInstr, Extra: chainPkgs, Race: true, Timeout: 30 * time.Minute},
			},
			Assume: []string{
				"call stacks come from generated call programs over real functions of the test binary (no synthetic frames can be injected into runtime.CallersFrames)",
				"the uncompressed rendering is the frame's full symbol name followed by a location of the documented shape",
				"two stacks are different when their rendered frame lists differ: instantiations of a generic function that the runtime reports under one name (F[...]) at equal offsets count as one stack",
			},
		},
		{
			ID: "C07", Level: "exploration",
			Units: []Unit{
				{Name: "seq", Pkg: "internal/upload", Harness: "internal_upload", Run: "^TestVerifUploadSeq$", Instrument: uploadInstr, Timeout: 30 * time.Minute},
				{Name: "conc", Pkg: "internal/upload", Harness: "internal_upload", Run: "^TestVerifUploadConc$", Instrument: uploadInstr, Timeout: 40 * time.Minute},
				{Name: "race", Pkg: "internal/upload", Harness: "internal_upload", Run: "^TestVerifUploadRace$", Instrument: uploadInstr, Race: true, Timeout: 40 * time.Minute},
				{Name: "faults", Pkg: "internal/upload", Harness: "internal_upload", Run: "^TestVerifC05Upload$", Instrument: append(append([]string{}, uploadInstr...), "internal/counter"), Timeout: 30 * time.Minute},
				{Name: "procs", Pkg: "internal/upload", Harness: "internal_upload", Run: "^TestVerifUploadProcs$", Instrument: uploadInstr, Timeout: 40 * time.Minute},
				{Name: "public", Pkg: "internal/upload", Harness: "internal_upload", Run: "^TestVerifC01Public$", Instrument: uploadInstr, Timeout: 30 * time.Minute},
			},
			Assume: []string{"weekly sums beyond 2^63-1 are expected as 2^63-1 (reports carry signed 64-bit values; counter values saturate rather than wrap); counter names that are not valid UTF-8 are expected in reports as encoding/json renders them (U+FFFD per invalid byte)", "counter files are produced by the independent writer in /verif/ref with the documented metadata"},
		},
		{
			ID: "C01", Level: "exploration",
			Units: []Unit{
				{Name: "conc", Pkg: "internal/upload", Harness: "internal_upload", Run: "^TestVerifUploadConc$", Instrument: uploadInstr, Timeout: 30 * time.Minute},
				{Name: "faults", Pkg: "internal/upload", Harness: "internal_upload", Run: "^TestVerifC05Upload$", Instrument: append(append([]string{}, uploadInstr...), "internal/counter"), Timeout: 30 * time.Minute},
				{Name: "seq", Pkg: "internal/upload", Harness: "internal_upload", Run: "^TestVerifUploadSeq$", Instrument: uploadInstr, Timeout: 30 * time.Minute},
				{Name: "public", Pkg: "internal/upload", Harness: "internal_upload", Run: "^TestVerifC01Public$", Instrument: uploadInstr, Timeout: 30 * time.Minute},
			},
			Assume: []string{"most histories hand the upload configuration to the uploader directly; a sample goes through the public upload.Run with a file-based module proxy", "X is forced through the instrumented crypto/rand.Read call so that boundary values X == rate are reached"},
		},
		{
			ID: "C02", Level: "exploration",
			Units: []Unit{
				{Name: "seq", Pkg: "internal/upload", Harness: "internal_upload", Run: "^TestVerifUploadSeq$", Instrument: uploadInstr, Timeout: 30 * time.Minute},
				{Name: "mode", Pkg: "internal/upload", Harness: "internal_upload", Run: "^TestVerifC02Mode$", Instrument: uploadInstr, Timeout: 30 * time.Minute},
				{Name: "public", Pkg: "counter", Harness: "counter_public", Run: "^TestVerifPublic$", Timeout: 30 * time.Minute},
				{Name: "rotate", Pkg: "internal/counter", Harness: "internal_counter", Run: "^TestVerifC02Rotate$", Instrument: counterInstr, Timeout: 30 * time.Minute},
				{Name: "viarun", Pkg: "internal/upload", Harness: "internal_upload", Run: "^TestVerifC02Public$", Instrument: uploadInstr, Timeout: 30 * time.Minute},
			},
			Assume: []string{"start times are passed explicitly (virtual calendar 2019-2031)", "for a process that is already running when the mode file changes only the creation of counter files is judged (the API reads the mode file when it opens or rotates a file, not on every increment)"},
		},
		{
			ID: "C08", Level: "fault_enumeration",
			Units: []Unit{
				{Name: "conc", Pkg: "internal/upload", Harness: "internal_upload", Run: "^TestVerifUploadConc$", Instrument: uploadInstr, Timeout: 40 * time.Minute},
				{Name: "race", Pkg: "internal/upload", Harness: "internal_upload", Run: "^TestVerifUploadRace$", Instrument: uploadInstr, Race: true, Timeout: 40 * time.Minute},
				{Name: "procs", Pkg: "internal/upload", Harness: "internal_upload", Run: "^TestVerifUploadProcs$", Instrument: uploadInstr, Timeout: 40 * time.Minute},
			},
			Assume: []string{
				"scheduler pass: uploaders are virtual threads in one process sharing the directory; a kill parks the thread for ever at a scheduling point (no deferred cleanup runs), which equals kill -9 for code whose shared state is the file system; the procs unit repeats the histories with real processes and real SIGKILLs (strace fault injection at system-call entry)",
				"'eventually acknowledged' is judged as: acknowledged within the scenario's rounds plus one extra round after a failed request",
			},
		},
		{
			ID: "C05", Level: "fault_enumeration",
			Units: []Unit{
				{Name: "counter", Pkg: "internal/counter", Harness: "internal_counter", Run: "^TestVerifC05", Instrument: append(append([]string{}, counterInstr...), "internal/telemetry"), Timeout: 40 * time.Minute},
				{Name: "public", Pkg: "counter", Harness: "counter_public", Run: "^TestVerifPublic$", Timeout: 30 * time.Minute},
				{Name: "uploader", Pkg: "internal/upload", Harness: "internal_upload", Run: "^TestVerifC05Upload$", Instrument: append(append([]string{}, uploadInstr...), "internal/counter"), Timeout: 30 * time.Minute},
				{Name: "runpublic", Pkg: "internal/upload", Harness: "internal_upload", Run: "^TestVerifC01Public$", Instrument: uploadInstr, Timeout: 30 * time.Minute},
			},
			Assume: []string{
				"faults are injected at the instrumented package-level os/syscall calls and *os.File methods of internal/counter, internal/mmap and internal/telemetry",
				"'bounded number of steps' = loop-tick budget 150000 + 4*mapping size per host call",
				"truncation of a file that is currently mapped is outside the quantifier and not generated",
			},
		},
		{
			ID: "C18", Level: "exploration",
			Units: []Unit{
				{Name: "fsbucket", Module: "godev", Pkg: "internal/storage", Harness: "godev_storage", Run: "^TestVerifC18$", Timeout: 20 * time.Minute},
				{Name: "services", Module: "godev", Pkg: "cmd/telemetrygodev", Harness: "godev_server", Run: "^TestVerifC18Services$", Timeout: 20 * time.Minute},
				{Name: "worker", Module: "godev", Pkg: "cmd/worker", Harness: "godev_worker", Run: "^TestVerifC18Worker$", Timeout: 20 * time.Minute},
			},
			Assume: []string{"stored object names are ordinary slash-separated components (no '.', '..' or empty components) and no stored name is a directory-prefix of another; requests to the services may spell anything", "the GCS backend needs network credentials and is not exercised"},
		},
		{
			ID: "C12", Level: "exploration",
			Units: []Unit{
				{Name: "endpoint", Module: "godev", Pkg: "cmd/telemetrygodev", Harness: "godev_server", Run: "^TestVerifC12$", Timeout: 30 * time.Minute},
				{Name: "race", Module: "godev", Pkg: "cmd/telemetrygodev", Harness: "godev_server", Run: "^TestVerifC12$", Race: true, Timeout: 30 * time.Minute, Env: []string{"VERIF_SCALE=0.1"}},
				{Name: "commit", Module: "godev", Pkg: "cmd/telemetrygodev", Harness: "godev_server", Run: "^TestVerifC12Commit$", Timeout: 20 * time.Minute},
			},
			Assume: []string{"the FS storage backend stands for the bucket"},
		},
		{
			ID: "C13", Level: "exploration",
			Units: []Unit{
				{Name: "worker", Module: "godev", Pkg: "cmd/worker", Harness: "godev_worker", Run: "^TestVerifC13$", Timeout: 30 * time.Minute},
				// the same workload (a tenth of it) under the race detector: the handlers serve overlapping requests
				{Name: "race", Module: "godev", Pkg: "cmd/worker", Harness: "godev_worker", Run: "^TestVerifC13$", Race: true, Timeout: 30 * time.Minute, Env: []string{"VERIF_SCALE=0.1"}},
			},
			Assume: []string{"the server's own configuration lists well-formed Go versions (goN.M[.P|rcK]) and semantic versions", "objects are named <day>/<X>.json as the upload endpoint names them, so one day holds one object per X"},
		},
		{
			ID: "C17", Level: "exploration",
			Units: []Unit{
				{Name: "parse", Pkg: "internal/chartconfig", Harness: "internal_chartconfig", Run: "^TestVerifC17Parse$", Instrument: []string{"internal/chartconfig"}, Timeout: 30 * time.Minute},
				{Name: "generate", Pkg: "internal/configgen", Harness: "internal_configgen", Run: "^TestVerifC17Gen$", Timeout: 30 * time.Minute},
			},
			Assume: []string{"proxy answers are replaced through the package's versionsForTesting variable", "padVersions inputs are duplicate-free canonical semver lists, as a module proxy returns", "values cannot contain '#', braces outside counter fields, or leading/trailing blanks (documented syntax)"},
		},
		{
			ID: "C14", Level: "exploration",
			Units: []Unit{
				{Name: "names", Pkg: "internal/crashmonitor", Harness: "internal_crashmonitor", Run: "^TestVerifC14$", Instrument: []string{"internal/crashmonitor"}, Timeout: 30 * time.Minute},
			},
			Assume: []string{"crasher and namer are the same executable (as with the real sidecar), built without PIE", "metamorphic variants keep: the first sentinel line, the PC list of the first running goroutine, and which frames follow a frame whose symbol is exactly runtime.sigpanic"},
		},
		{
			ID: "C19", Level: "exploration",
			Units: []Unit{
				{Name: "cli", Pkg: "cmd/gotelemetry", Harness: "cmd_gotelemetry", Run: "^TestVerifC19$", Timeout: 30 * time.Minute},
			},
			Assume: []string{"the command is the package's main() reached by re-executing the test binary, with XDG_CONFIG_HOME/HOME redirected", "directories whose names match the data patterns are a don't-care (their contents must stay); a symbolic link with a data-file name is a data file for every reader, so clean removes the link (its target must stay)", "the current date is bracketed by two clock reads around the invocation"},
		},
		{
			ID: "C16", Level: "exploration",
			Units: []Unit{
				{Name: "table", Pkg: ".", Harness: "root_start", Run: "^TestVerifC16Table$", Instrument: []string{"."}, Timeout: 40 * time.Minute},
				{Name: "token", Pkg: ".", Harness: "root_start", Run: "^TestVerifC16Token$", Instrument: []string{"."}, Timeout: 40 * time.Minute},
			},
			Assume: []string{"the application is the test binary re-executed through an init hook; descendants are awaited by scanning /proc for a per-run id (20s watchdog => inconclusive)", "stale-token races are excluded, as in the property"},
		},
		{
			ID: "C11", Level: "exploration",
			Units: []Unit{
				{Name: "uploader", Pkg: "internal/upload", Harness: "internal_upload", Run: "^TestVerifC11Uploader$", Instrument: uploadInstr, Timeout: 30 * time.Minute},
				{Name: "server", Module: "godev", Pkg: "cmd/telemetrygodev", Harness: "godev_server", Run: "^TestVerifC11Server$", Timeout: 30 * time.Minute},
				{Name: "viewer", Pkg: "cmd/gotelemetry/internal/view", Harness: "cmd_view", Run: "^TestVerifC11Viewer$", Timeout: 30 * time.Minute},
				{Name: "viewercfg", Pkg: "cmd/gotelemetry/internal/view", Harness: "cmd_view", Run: "^TestVerifC11ViewerConfig$", Timeout: 30 * time.Minute},
			},
			Assume: []string{"all rates are 1 and sampling is off, so that approval is isolated from sampling", "the three legs are chained through files written by the uploader leg in the same run"},
		},
	}
	m := map[string]Prop{}
	for _, p := range ps {
		for i := range p.Units {
			if p.Units[i].Harness == "internal_counter" {
				// the counter harness files are compiled together; the C15 ones import the generated packages
				p.Units[i].Extra = chainPkgs
			}
		}
		m[p.ID] = p
	}
	return m
}
