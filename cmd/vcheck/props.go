package main

import "time"

var counterInstr = []string{"internal/counter", "internal/mmap"}

func props() map[string]Prop {
	ps := []Prop{
		{
			ID: "C06", Level: "exploration",
			Units: []Unit{
				{Name: "parse", Pkg: "internal/counter", Harness: "internal_counter", Run: "^TestVerifC06$", Instrument: counterInstr, Timeout: 30 * time.Minute},
			},
			Assume: []string{
				"loop-tick budget 64*len+1e6 per Parse call stands for 'terminates'",
				"the reference decoder in /verif/ref follows the documented v1 layout",
			},
		},
	}
	m := map[string]Prop{}
	for _, p := range ps {
		m[p.ID] = p
	}
	return m
}
