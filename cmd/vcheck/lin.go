package main

import (
	"bufio"
	"encoding/json"
	"fmt"
	"os"
	"path/filepath"
	"sort"
	"time"

	"github.com/anishathalye/porcupine"
)

// Offline linearizability checking of recorded fetch-and-add histories
// (written by harness tests as <check>.history.<n>.jsonl).

type linOp struct {
	Proc int    `json:"proc"`
	Seq  int    `json:"seq"`
	Name string `json:"name"`
	N    uint64 `json:"n"`
	Call int64  `json:"call"`
	Ret  int64  `json:"ret"`
	Out  uint64 `json:"out"`
}

type linIn struct {
	Name    string
	N       uint64
	Crashed bool
}

// faaModel: a counter per name; Add(n) returns the new value. An operation
// whose process was killed in flight has no output and may or may not have
// taken effect.
var faaModel = (&porcupine.NondeterministicModel{
	Partition: func(h []porcupine.Operation) [][]porcupine.Operation {
		m := map[string][]porcupine.Operation{}
		var keys []string
		for _, o := range h {
			k := o.Input.(linIn).Name
			if _, ok := m[k]; !ok {
				keys = append(keys, k)
			}
			m[k] = append(m[k], o)
		}
		sort.Strings(keys)
		var out [][]porcupine.Operation
		for _, k := range keys {
			out = append(out, m[k])
		}
		return out
	},
	Init: func() []interface{} { return []interface{}{uint64(0)} },
	Step: func(st, in, out interface{}) []interface{} {
		s := st.(uint64)
		i := in.(linIn)
		if i.Crashed {
			return []interface{}{s, s + i.N}
		}
		if out.(uint64) == s+i.N {
			return []interface{}{s + i.N}
		}
		return nil
	},
	DescribeOperation: func(in, out interface{}) string {
		i := in.(linIn)
		if i.Crashed {
			return fmt.Sprintf("add(%.20q,%d) -> (killed)", i.Name, i.N)
		}
		return fmt.Sprintf("add(%.20q,%d) -> %d", i.Name, i.N, out.(uint64))
	},
}).ToModel()

// checkHistories runs porcupine over every history file in out and returns a
// synthetic result for the evidence/verdict.
func checkHistories(out, propID string) *rtResult {
	files, _ := filepath.Glob(filepath.Join(out, "*.history.*.jsonl"))
	if len(files) == 0 {
		return nil
	}
	sort.Strings(files)
	r := &rtResult{Check: propID + ".porcupine", Classes: map[string]int{}, Extra: map[string]any{},
		Rule: "each recorded history (operations with call/return timestamps from CLOCK_MONOTONIC, unique return values) is checked for linearizability against a fetch-and-add register per counter name with porcupine v1.3.0; operations in flight when their process was killed are open until the end of the history and may or may not have taken effect. distinct = histories with at least two overlapping operations of different processes"}
	for _, f := range files {
		fh, err := os.Open(f)
		if err != nil {
			continue
		}
		var ops []porcupine.Operation
		var maxT int64
		var raw []linOp
		sc := bufio.NewScanner(fh)
		sc.Buffer(nil, 1<<20)
		for sc.Scan() {
			var o linOp
			if json.Unmarshal(sc.Bytes(), &o) == nil {
				raw = append(raw, o)
				if o.Ret > maxT {
					maxT = o.Ret
				}
				if o.Call > maxT {
					maxT = o.Call
				}
			}
		}
		fh.Close()
		overlap := false
		for _, o := range raw {
			in := linIn{Name: o.Name, N: o.N, Crashed: o.Ret < 0}
			ret := o.Ret
			if ret < 0 {
				ret = maxT + 1
			}
			ops = append(ops, porcupine.Operation{ClientId: o.Proc, Input: in, Call: o.Call, Output: o.Out, Return: ret})
		}
		for i := 1; i < len(raw) && !overlap; i++ {
			a, b := raw[i-1], raw[i]
			if a.Proc != b.Proc && a.Ret > b.Call && b.Ret > a.Call {
				overlap = true
			}
		}
		if !overlap { // cheap pass over adjacent entries only; do a real one on a sample
			for i := 0; i < len(raw) && i < 2000 && !overlap; i++ {
				for j := i + 1; j < len(raw) && j < i+200; j++ {
					a, b := raw[i], raw[j]
					if a.Proc != b.Proc && a.Name == b.Name && a.Ret > b.Call && b.Ret > a.Call && a.Ret > 0 && b.Ret > 0 {
						overlap = true
						break
					}
				}
			}
		}
		r.Evaluations++
		if overlap {
			r.DistinctN++
		}
		res, info := porcupine.CheckOperationsVerbose(faaModel, ops, 2*time.Minute)
		switch res {
		case porcupine.Ok:
			r.Classes["linearizable"]++
		case porcupine.Illegal:
			r.Classes["illegal"]++
			keep := filepath.Join(envOr("VERIF_REPLAY_DIR", filepath.Join(verifDir, "replays")), filepath.Base(f))
			b, _ := os.ReadFile(f)
			os.MkdirAll(filepath.Dir(keep), 0o755)
			os.WriteFile(keep, b, 0o644)
			_ = info
			r.Violations = append(r.Violations, rtViolation{Sig: "not-linearizable", Count: 1,
				Msg:    fmt.Sprintf("history %s (%d operations) is not linearizable as per-name fetch-and-add registers: some process added to a cell other processes do not see, or an add was lost/duplicated", filepath.Base(f), len(ops)),
				Replay: map[string]any{"history": keep}})
		default:
			r.Inconclusive = append(r.Inconclusive, "porcupine timed out on "+filepath.Base(f))
		}
		r.Classes["operations"] += len(ops)
		if len(r.Samples) < 2 && len(raw) > 3 {
			r.Samples = append(r.Samples, map[string]any{"history": filepath.Base(f), "operations": len(ops), "first": raw[:3]})
		}
	}
	r.Need = []string{"linearizable"}
	return r
}
