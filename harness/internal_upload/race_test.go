//go:build verif

package upload

import (
	"encoding/json"
	"fmt"
	"os"
	"sync"
	"testing"
	"time"

	"golang.org/x/telemetry/internal/verifref"
	"golang.org/x/telemetry/internal/verifrt"
)

// Free-running pass for C07/C08: the concurrent-uploader workload on real
// goroutines under the race detector, with Gosched/sleep jitter at every
// instrumented fs/HTTP call. Coarse oracle; the race detector is the point.
func TestVerifUploadRace(t *testing.T) {
	c07 := verifrt.NewResult("C07.race")
	c08 := verifrt.NewResult("C08.race")
	c07.Rule = "rounds of 2-8 real goroutines each running uploader.Run over one directory (race-detector build, jitter at instrumented fs/HTTP calls), server answering 200: every week ends with a local report equal to the reference sums or (known finding F14) to the sums of a proper subset; the driver counts data-race reports. distinct = rounds"
	c08.Rule = "same rounds: no uploader panics; per week at most one distinct non-empty body is acknowledged (an empty body is known finding F8); the driver counts data-race reports. distinct = rounds"
	base := vtmp("urace-")
	defer os.RemoveAll(base)
	rounds := verifrt.Scale(40, 1500)
	verifrt.SetJitter(0.3)
	defer verifrt.SetJitter(0)
	verifrt.SetLockSpinLimit(20_000_000)
	defer verifrt.SetLockSpinLimit(0)
	for rd := 0; rd < rounds; rd++ {
		rnd := verifrt.NewRand(verifrt.Seed(), fmt.Sprintf("urace/%d", rd))
		s := genConcScenario(rnd, rd*3)
		td := newTdir(base)
		on := "on 2020-01-01"
		td.setMode(&on)
		byWeek := map[string][]verifref.SourceFile{}
		for _, f := range s.Files {
			td.put(f, rnd)
			w := f.End.Format("2006-01-02")
			byWeek[w] = append(byWeek[w], verifref.SourceFile{Build: f.Build, Counts: f.Counts})
		}
		srv := newFakeSrv()
		n := 2 + rnd.Intn(7)
		var wg sync.WaitGroup
		panics := make([]string, n)
		for u := 0; u < n; u++ {
			wg.Add(1)
			go func(u int) {
				defer wg.Done()
				pv, stack := guarded(func() { mkUploader(td.dir, s.Cfg, "v1.2.3", srv.srv.URL, s.Start).Run() })
				if pv != nil {
					panics[u] = fmt.Sprintf("%v\n%.800s", pv, stack)
				}
			}(u)
		}
		done := make(chan struct{})
		go func() { wg.Wait(); close(done) }()
		select {
		case <-done:
		case <-time.After(2 * time.Minute):
			c08.Inconc("round watchdog fired")
			srv.close()
			continue
		}
		c07.Eval()
		c08.Eval()
		c07.Distinct(fmt.Sprint(rd))
		c08.Distinct(fmt.Sprint(rd))
		rp := verifrt.CaseReplay(rd, map[string]any{"uploaders": n, "weeks": s.weeks})
		for _, p := range panics {
			if p != "" {
				c08.Violate("uploader-panic:free-running", p, rp)
			}
		}
		acked := map[string]map[string]bool{}
		for _, q := range srv.requests() {
			w := q.Path[1:]
			if q.Len == 0 {
				c08.Hit("empty-body-acked(F8)")
				continue
			}
			if acked[w] == nil {
				acked[w] = map[string]bool{}
			}
			acked[w][q.Sum] = true
		}
		for w, m := range acked {
			if len(m) > 1 {
				c08.Violate("two-bodies-acked:free-running", fmt.Sprintf("server (always answering 200) acknowledged %d different non-empty bodies for week %s", len(m), w), rp)
			}
			c08.Hit("week-acked")
		}
		for _, w := range s.weeks {
			lr, _, err := readReport(td.dir.LocalDir() + "/local." + w + ".json")
			if err != nil {
				c07.Violate("no-local-report:free-running", fmt.Sprintf("week %s has no readable local report after all uploaders finished: %v", w, err), rp)
				continue
			}
			if d := compareProgs(lr.Programs, verifref.Aggregate(byWeek[w])); d != "" {
				if isSubsetReport(s.Cfg, byWeek[w], lr.Programs, lr.X, false) {
					c07.Hit("subset-report(F14)")
				} else {
					c07.Violate("local-report-content:free-running", "local report differs from the week's sums and from every subset's: "+d, rp)
				}
			} else {
				c07.Hit("local-report-ok")
			}
		}
		if rd < 2 {
			b, _ := json.Marshal(map[string]any{"round": rd, "uploaders": n, "requests": len(srv.requests())})
			c07.Sample(json.RawMessage(b))
			c08.Sample(json.RawMessage(b))
		}
		srv.close()
		os.RemoveAll(td.root)
	}
	c07.Require("local-report-ok")
	c08.Require("week-acked")
	c07.Write()
	c08.Write()
}
