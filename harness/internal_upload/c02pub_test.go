//go:build verif

package upload

import (
	"fmt"
	"io"
	"os"
	"path/filepath"
	"sort"
	"testing"

	"golang.org/x/telemetry/internal/verifrt"
)

// C02 through the public entry point: a mode file that reads neither on, off
// nor local behaves as local. The same telemetry directory is run twice through
// upload.Run, once with the odd mode text and once with "local": both must
// leave the same directory behind and make no request.
func TestVerifC02Public(t *testing.T) {
	const check = "C02.viaRun"
	res := verifrt.NewResult(check)
	res.Rule = "single-run scenarios of the C01.seq generator executed twice through the public upload.Run on byte-identical copies of the telemetry directory, once with a mode file that reads neither on, off nor local (unknown words, other spellings and cases, words glued to a date, empty file, binary bytes) and once with mode local: no request may be made in either run and both directories must end with the same entries and contents (the mode file apart), i.e. the same local reports built and the same counter files consumed. distinct = (scenario, mode text) pairs; non-trivial = the local run built at least one report"
	base := vtmp("c02p-")
	defer os.RemoveAll(base)
	odd := []string{"bogus", "LOCAL", "Local 2020-01-01", "maybe 2020-01-01", "", "\x00\xff\x01", "offf", "of", "loca", "on2020-01-01", "local2020-01-01", "o n", "on\x00", "löcal", "none", "0", "true", "enabled 2019-12-01"}
	n := verifrt.Scale(72, 1800)
	for i := 0; i < n; i++ {
		if !verifrt.WantCase(check, i) {
			continue
		}
		rnd := verifrt.NewRand(verifrt.Seed(), fmt.Sprintf("c02pub/%d", i))
		s := genSeqScenario(rnd, 300000+i)
		start := s.Starts[0]
		g := odd[i%len(odd)]
		td := newTdir(base)
		for _, f := range s.Files {
			td.put(f, rnd)
		}
		td2 := newTdir(base)
		if err := c02CopyTree(td.root, td2.root); err != nil {
			res.Inconc("cannot copy the scenario directory: " + err.Error())
			os.RemoveAll(td.root)
			os.RemoveAll(td2.root)
			continue
		}
		loc := "local"
		td.setMode(&g)
		td2.setMode(&loc)
		res.Eval()
		rp := verifrt.CaseReplay(i, map[string]any{"mode": g, "start": fmt.Sprint(start)})
		var snaps [2]map[string]fent
		bad := false
		for k, d := range []*tdir{td, td2} {
			srv := newFakeSrv()
			forceX(0.5)
			verifrt.SetTickBudget(50_000_000)
			pv, stack := guarded(func() {
				Run(RunConfig{TelemetryDir: d.root, UploadURL: srv.srv.URL, StartTime: start})
			})
			over := verifrt.TickExceeded()
			verifrt.SetTickBudget(0)
			unforceX()
			nreq := len(srv.requests())
			srv.close()
			if pv != nil || over {
				res.Violate("run-panic-or-hang", fmt.Sprintf("upload.Run with mode file %q: panic %v, budget exceeded %v\n%.600s", []string{g, loc}[k], pv, over, stack), rp)
				bad = true
				break
			}
			if nreq > 0 {
				res.Violate("sent-without-consent", fmt.Sprintf("mode file %q: %d request(s) were made through the public upload.Run", []string{g, loc}[k], nreq), rp)
				bad = true
				break
			}
			snaps[k] = snapshot(d.root)
		}
		if !bad {
			delete(snaps[0], "mode")
			delete(snaps[1], "mode")
			var diff []string
			for k, v := range snaps[1] {
				if w, ok := snaps[0][k]; !ok {
					diff = append(diff, "missing "+k)
				} else if w.Sum != v.Sum || w.Dir != v.Dir {
					diff = append(diff, "differs "+k)
				}
			}
			for k := range snaps[0] {
				if _, ok := snaps[1][k]; !ok {
					diff = append(diff, "extra "+k)
				}
			}
			sort.Strings(diff)
			built := 0
			for k := range snaps[1] {
				if m, _ := filepath.Match("local/local.*.json", k); m {
					built++
				}
			}
			if built > 0 {
				res.Hit("local-run-built-reports")
				res.Distinct(fmt.Sprintf("%d/%q", i, g))
			}
			res.Hit("odd-mode-run")
			if len(diff) > 0 {
				if len(diff) > 8 {
					diff = diff[:8]
				}
				res.Violate("unknown-mode-not-as-local", fmt.Sprintf("mode file %q (neither on, off nor local) did not behave as local: compared with the run of the same directory in mode local: %v", g, diff), rp)
			}
			if i < 2 {
				res.Sample(map[string]any{"case": i, "mode": g, "reports_built_in_mode_local": built})
			}
		}
		os.RemoveAll(td.root)
		os.RemoveAll(td2.root)
	}
	res.Require("odd-mode-run", "local-run-built-reports")
	if err := res.Write(); err != nil {
		t.Fatal(err)
	}
}

func c02CopyTree(src, dst string) error {
	return filepath.Walk(src, func(p string, info os.FileInfo, err error) error {
		if err != nil {
			return err
		}
		rel, _ := filepath.Rel(src, p)
		to := filepath.Join(dst, rel)
		if info.IsDir() {
			return os.MkdirAll(to, 0o777)
		}
		in, err := os.Open(p)
		if err != nil {
			return err
		}
		defer in.Close()
		out, err := os.OpenFile(to, os.O_CREATE|os.O_TRUNC|os.O_WRONLY, info.Mode().Perm())
		if err != nil {
			return err
		}
		if _, err := io.Copy(out, in); err != nil {
			out.Close()
			return err
		}
		if err := out.Close(); err != nil {
			return err
		}
		return os.Chtimes(to, info.ModTime(), info.ModTime())
	})
}
