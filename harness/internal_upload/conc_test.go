//go:build verif

package upload

import (
	"bytes"
	"crypto/sha256"
	"encoding/hex"
	"encoding/json"
	"fmt"
	"os"
	"path/filepath"
	"sort"
	"strings"
	"testing"
	"time"

	"golang.org/x/telemetry/internal/telemetry"
	"golang.org/x/telemetry/internal/verifref"
	"golang.org/x/telemetry/internal/verifrt"
)

// Concurrent uploaders under the token-passing scheduler.
//   C07.conc   several uploaders over one directory never produce a second or
//              different report for a week and never count a file twice
//   C08.sched  at most one report body per week is acknowledged, under races,
//              retries (server answers 200/4xx/5xx/none) and kills

type concScenario struct {
	Cfg    *verifref.UploadConfig
	Files  []*ufile
	Start  time.Time
	Rounds int
	N      int
	Script []int   // status per request sequence number (beyond the list: 200); 0 = connection dropped
	KillAt [][]int // [round][uploader] kill at k-th yield (0 = never)
	Strat  []c08strategy
	weeks  []string
	// Skew[round][uploader] is added to Start for that uploader\'s run (later
	// rounds may be days later; uploaders of one round may differ by hours).
	Skew [][]time.Duration
	// Foreign: local/ also holds a report for the first week under another
	// name ending in the week's date (a saved copy): the same week, so at most
	// one of the two may be acknowledged
	Foreign string
}

type c08strategy struct {
	Kind   string          `json:"kind"`
	Phases []verifrt.Phase `json:"phases,omitempty"`
	D      int             `json:"d,omitempty"`
}

func genConcScenario(r *verifrt.Rand, i int) *concScenario {
	s := &concScenario{}
	// a configuration that approves the build used below, all rates 1
	b := verifref.Build{Program: "golang.org/x/tools/gopls", Version: "v1.2.3", GoVersion: "go1.22.1", GOOS: "linux", GOARCH: "amd64"}
	s.Cfg = &verifref.UploadConfig{GOOS: []string{"linux"}, GOARCH: []string{"amd64"}, GoVersion: []string{"go1.22.1"}, SampleRate: 1,
		Programs: []*verifref.ProgramConfig{{Name: b.Program, Versions: []string{b.Version},
			Counters: []verifref.CounterConfig{{Name: "editor/opens", Rate: 1}, {Name: "flag:{v,x}", Rate: 1}},
			Stacks:   []verifref.CounterConfig{{Name: "crash/crash", Rate: 1, Depth: 8}}}}}
	s.Start = day(2024, 3, 20).Add(time.Duration(r.Intn(86400)) * time.Second)
	if i%5 == 4 {
		// anchored at the real clock, for behaviour tied to file modification times
		s.Start = time.Now().UTC().Truncate(time.Second)
	}
	nweeks := 1 + r.Intn(2)
	k := 0
	for w := 0; w < nweeks; w++ {
		end := s.Start.Truncate(24 * time.Hour).Add(-time.Duration(1+7*w+r.Intn(3)) * 24 * time.Hour)
		s.weeks = append(s.weeks, end.Format("2006-01-02"))
		for j, nf := 0, 1+r.Intn(2); j < nf; j++ {
			f := &ufile{Build: b, Kind: "ok", End: end, Begin: end.Add(-time.Duration(1+r.Intn(6)) * 24 * time.Hour)}
			f.Counts = map[string]uint64{"editor/opens": uint64(1 + r.Intn(9)), "flag:v": uint64(1 + r.Intn(9)), "private/thing": 5, "crash/crash" + frames: 1}
			f.setName(k)
			k++
			s.Files = append(s.Files, f)
		}
	}
	sort.Strings(s.weeks)
	s.N = 2 + r.Intn(3)
	s.Rounds = 1 + r.Intn(3)
	// (1000+status: that status arrives, then the connection breaks inside the response body)
	statuses := []int{200, 200, 200, 500, 503, 400, 404, 0, 501, 502, 504, 505, 507, 511, 521, 599, 401, 403, 413, 429, 499, 1200, 1200, 1400, 1503}
	if i%7 == 3 {
		s.Foreign = verifrt.Pick(r, []string{"saved-", "copy of ", "x", "2-"})
		// (a client error answered to one of the two files says nothing about the other: keep to success and server errors)
		statuses = []int{200, 200, 500, 503, 0, 502, 599, 1200}
	}
	for j, n := 0, r.Intn(4); j < n; j++ {
		s.Script = append(s.Script, statuses[r.Intn(len(statuses))])
	}
	for rd := 0; rd < s.Rounds; rd++ {
		ka := make([]int, s.N)
		if i%3 == 1 { // kills
			for u := range ka {
				if r.Intn(3) == 0 {
					ka[u] = 1 + r.Intn(70)
				}
			}
		}
		s.KillAt = append(s.KillAt, ka)
		sk := make([]time.Duration, s.N)
		roundOff := time.Duration(0)
		if rd > 0 {
			roundOff = verifrt.Pick(r, []time.Duration{0, time.Hour, 24 * time.Hour, 10 * 24 * time.Hour, 22 * 24 * time.Hour, 40 * 24 * time.Hour})
		}
		for u := range sk {
			sk[u] = roundOff
			if r.Intn(3) == 0 {
				sk[u] += verifrt.Pick(r, []time.Duration{time.Minute, 2 * time.Hour, 26 * time.Hour})
			}
		}
		s.Skew = append(s.Skew, sk)
		var st c08strategy
		switch (i / 3) % 4 {
		case 0:
			v := r.Intn(s.N)
			st = c08strategy{Kind: "park", Phases: []verifrt.Phase{{Thread: v, Until: 1 + (i/12)%80}}}
			for _, o := range r.Perm(s.N) {
				if o != v {
					st.Phases = append(st.Phases, verifrt.Phase{Thread: o, Until: -1})
				}
			}
		case 1:
			st = c08strategy{Kind: "pct", D: 1 + r.Intn(3)}
		case 2:
			st = c08strategy{Kind: "sticky"}
		default:
			st = c08strategy{Kind: "random"}
		}
		s.Strat = append(s.Strat, st)
	}
	if i%6 == 5 {
		// hand-over family: uploader 0 is stopped d1 steps after it reached the
		// point of taking the upload lock, uploader 1 d2 steps after it reached that
		// point, then 0 finishes, the others run, and 1 finishes last: for all
		// d1, d2 in 0..8 (lock, look for the record, send, answer, record, remove,
		// unlock) and a first answer that is none, a server error, success or a client error
		j := i / 6
		d1, d2, first := j%9, (j/9)%9, []int{0, 500, 200, 400}[(j/81)%4]
		if s.N < 3 {
			s.N = 3
		}
		s.Script = []int{first}
		for rd := range s.KillAt {
			s.KillAt[rd] = make([]int, s.N)
			for len(s.Skew[rd]) < s.N {
				s.Skew[rd] = append(s.Skew[rd], s.Skew[rd][0])
			}
		}
		ph := []verifrt.Phase{{Thread: 0, AtPt: "fs:OpenFile", PathSub: ".lock", Plus: d1}, {Thread: 1, AtPt: "fs:OpenFile", PathSub: ".lock", Plus: d2}, {Thread: 0, Until: -1}}
		for u := 2; u < s.N; u++ {
			ph = append(ph, verifrt.Phase{Thread: u, Until: -1})
		}
		ph = append(ph, verifrt.Phase{Thread: 1, Until: -1})
		s.Strat[0] = c08strategy{Kind: "handover", Phases: ph}
	}
	return s
}

type ackRec struct {
	Seq          int
	Week         string
	Sum          string
	Len          int
	Status       int
	Round        int
	MarkerExists bool // upload/<week>.json existed when the request arrived
	Body         []byte
}

func TestVerifUploadConc(t *testing.T) {
	c07 := verifrt.NewResult("C07.conc")
	c08 := verifrt.NewResult("C08.sched")
	c07.Rule = "2-4 uploaders (virtual threads) run the real uploader.Run over one directory with 1-2 finished weeks under the token-passing scheduler (scheduling point at every fs/HTTP call and lock), 1-3 rounds, strategies park-at-k (all k) / PCT / sticky / random, with and without kills. Oracle: from the fs-event log no report file is created or replaced twice; every local.<week>.json equals the reference aggregate and never changes once it exists; counter files are removed only after a report for their week exists. distinct = (scenario, trace) hashes; non-trivial = trace switches uploaders at least twice"
	c08.Rule = "same runs against a scripted local upload server answering each request 200, a 4xx (400/401/403/404/413/429/499), a 5xx (500-505/507/511/521/599) or dropping the connection (before any answer, or after the status line while the response body is being sent: that is an answer), kills parking an uploader for ever after any fs/HTTP call (deferred cleanup never runs); in a seventh of the histories local/ also holds a saved copy of a week's report under another name ending in the week's date. Oracle over the server log and directory snapshots: per week at most one distinct acknowledged body, and it is the complete reference report; no request for a week arrives while upload/<week>.json exists; a week whose requests in a round were only 5xx/unanswered keeps local/<week>.json; a 4xx answer removes it without creating upload/<week>.json; without kills and with a server that ends up answering 200, every uploadable week is acknowledged exactly once within the rounds (+1 extra round allowed after a 5xx). distinct = histories"
	nb := 32
	if verifrt.Thorough() {
		nb = 128
	}
	total := verifrt.Scale(2000, 80000)
	per := (total + nb - 1) / nb
	agg := verifrt.NewResult("conc")
	verifrt.RunBatches("TestVerifUploadConc", agg, nb, 0, 40*time.Minute, "upload.death", func(b int, r *verifrt.Result, cur *verifrt.Current) {
		base := vtmp("conc-")
		defer os.RemoveAll(base)
		p7 := verifrt.NewResult("C07.conc")
		p8 := verifrt.NewResult("C08.sched")
		p7.SetFile(fmt.Sprintf("C07.conc.part%d.json", b))
		p8.SetFile(fmt.Sprintf("C08.sched.part%d.json", b))
		c01conc = verifrt.NewResult("C01.conc")
		c01conc.SetFile(fmt.Sprintf("C01.conc.part%d.json", b))
		defer c01conc.Write()
		for _, check := range []string{"C07.conc", "C08.sched"} {
			if _, rp := verifrt.Replaying(); !rp && check != "C07.conc" {
				continue
			}
			lo, hi := verifrt.CaseRange(check, b, per)
			for i := lo; i < hi; i++ {
				if cur != nil {
					cur.Set(fmt.Sprintf("conc case %d", i))
				}
				rnd := verifrt.NewRand(verifrt.Seed(), fmt.Sprintf("conc/%d", i))
				runConcScenario(p7, p8, base, genConcScenario(rnd, i), rnd, i)
			}
		}
		p7.Write()
		p8.Write()
	})
	for _, x := range []*verifrt.Result{c07, c08} {
		parts, _ := filepath.Glob(filepath.Join(verifrt.OutDir(), x.Check+".part*.json"))
		for _, p := range parts {
			if pr, err := verifrt.LoadResult(p); err == nil {
				x.Merge(pr)
			}
			os.Remove(p)
		}
		for _, v := range agg.Violations {
			x.Violate(v.Sig, v.Msg, v.Replay)
		}
		for _, s := range agg.Inconclusive {
			x.Inconc(s)
		}
	}
	c01 := verifrt.NewResult("C01.conc")
	c01.Rule = "the concurrent upload histories of C07.conc/C08.sched (2-4 uploaders under the scheduler, kills after any fs/HTTP call, scripted answers, several rounds): no request carries the counter the configuration does not approve, whatever a killed uploader left behind in local/. distinct = histories"
	parts1, _ := filepath.Glob(filepath.Join(verifrt.OutDir(), "C01.conc.part*.json"))
	for _, p := range parts1 {
		if pr, err := verifrt.LoadResult(p); err == nil {
			c01.Merge(pr)
		}
		os.Remove(p)
	}
	c01.Require("request-scanned")
	c01.Write()
	c07.Require("exclusive-create-lost", "report-existed-at-check", "strategy:park", "strategy:pct", "strategy:handover")
	c08.Require("answer-with-broken-body", "second-report-file-for-week", "lock-contention", "status:200", "status:4xx", "status:5xx", "status:dropped", "kill", "kill-between-ack-and-marker", "kill-holding-lock", "retry-after-5xx", "all-acked-once")
	for _, x := range []*verifrt.Result{c07, c08} {
		if err := x.Write(); err != nil {
			t.Fatal(err)
		}
	}
}

func hashOf(b []byte) string {
	h := sha256.Sum256(b)
	return hex.EncodeToString(h[:8])
}

// c01conc: no request of a concurrent history (with kills) carries a name the
// configuration does not approve (C01). Set per batch.
var c01conc *verifrt.Result

func runConcScenario(c07, c08 *verifrt.Result, base string, s *concScenario, rnd *verifrt.Rand, i int) {
	td := newTdir(base)
	defer os.RemoveAll(td.root)
	// (the date-less form is what older versions wrote; it means "on since ever")
	on := []string{"on 2020-01-01", "on", "on 2020-01-01", "on\n"}[i%4]
	td.setMode(&on)
	files := map[string]*ufile{}
	byWeek := map[string][]verifref.SourceFile{}
	for _, f := range s.Files {
		td.put(f, rnd)
		files[f.FileName] = f
		w := f.End.Format("2006-01-02")
		byWeek[w] = append(byWeek[w], verifref.SourceFile{Build: f.Build, Counts: f.Counts})
	}
	foreignWeek := ""
	if s.Foreign != "" {
		w := s.weeks[0]
		foreignWeek = w
		// two pending report files for one week: the uploader's own name and a
		// saved copy (different X, hence different bodies)
		for k, name := range []string{s.Foreign + w + ".json", w + ".json"} {
			x := 0.3 + 0.1*float64(k)
			rep := map[string]any{"Week": w, "LastWeek": "", "X": x, "Config": "v1.2.3"}
			var progs []map[string]any
			for _, pd := range s.Cfg.Uploadable(verifref.Aggregate(byWeek[w]), x) {
				progs = append(progs, map[string]any{"Program": pd.Program, "Version": pd.Version, "GoVersion": pd.GoVersion, "GOOS": pd.GOOS, "GOARCH": pd.GOARCH, "Counters": pd.Counters, "Stacks": pd.Stacks})
			}
			rep["Programs"] = progs
			b, _ := json.MarshalIndent(rep, "", " ")
			if k == 1 && i%14 == 3 {
				continue // only the saved copy
			}
			os.WriteFile(filepath.Join(td.dir.LocalDir(), name), b, 0o666)
		}
		c08.Hit("second-report-file-for-week")
	}
	srv := newFakeSrv()
	defer srv.close()
	var acks []ackRec
	round := 0
	srv.Script = func(seq int, week string) int {
		st := 200
		if seq < len(s.Script) {
			st = s.Script[seq]
		}
		_, err := os.Stat(filepath.Join(td.dir.UploadDir(), week+".json"))
		acks = append(acks, ackRec{Seq: seq, Week: week, Status: st % 1000, Round: round, MarkerExists: err == nil})
		if st >= 1000 {
			c08.Hit("answer-with-broken-body")
		}
		return st
	}
	c07.Eval()
	c08.Eval()
	rpBase := map[string]any{"n": s.N, "rounds": s.Rounds, "script": s.Script, "kill_at": s.KillAt, "strategies": s.Strat, "weeks": s.weeks, "start": rfc(s.Start), "skew": fmt.Sprint(s.Skew)}
	rp := func() map[string]any { return verifrt.CaseReplay(i, rpBase) }
	firstSeen := map[string]string{} // report rel path -> content hash when first complete
	created := map[string]int{}      // report base name -> successful creations over the whole history
	lastFate := map[string]string{}  // report base name -> why the previous incarnation disappeared
	staleView := map[string]bool{}   // week -> some uploader found one of its counter files already removed
	kills := 0
	anyKill := false
	traceKey := ""
	_, replaying := verifrt.Replaying()
	extraRound := false
	for round = 0; round < s.Rounds || (extraRound && round == s.Rounds); round++ {
		plan := &verifrt.Plan{}
		verifrt.SetPlan(plan)
		sc := verifrt.NewSched(rnd)
		sc.MaxSteps = 60000
		sc.KeepPts = replaying
		ups := make([]*uploader, s.N)
		for u := 0; u < s.N; u++ {
			u := u
			st := s.Start
			if round < len(s.Skew) {
				st = st.Add(s.Skew[round][u])
			} else if len(s.Skew) > 0 {
				st = st.Add(s.Skew[len(s.Skew)-1][0])
			}
			// (a new configuration version is published between rounds: pending
			// reports carry the version they were built under and are sent as they are)
			ups[u] = mkUploader(td.dir, s.Cfg, fmt.Sprintf("v1.2.%d", 3+round), srv.srv.URL, st)
			sc.Go(fmt.Sprintf("U%d", u), func() { ups[u].Run() })
		}
		var ka []int
		var st c08strategy
		if round < len(s.KillAt) {
			ka = s.KillAt[round]
			st = s.Strat[round]
		} else {
			ka = make([]int, s.N)
			st = c08strategy{Kind: "random"}
		}
		nacks0 := len(acks)
		sc.OnStep = func(sc *verifrt.Sched, t *verifrt.Thread) {
			if k := ka[t.ID]; k > 0 && t.Steps >= k && !t.Done && !t.Killed {
				sc.Kill(t)
				kills++
				anyKill = true
				c08.Hit("kill")
				if t.Pt == "fs:Post-done" {
					c08.Hit("kill-between-ack-and-marker")
				}
				if ents, _ := os.ReadDir(td.dir.UploadDir()); len(ents) > 0 {
					for _, e := range ents {
						if strings.HasSuffix(e.Name(), ".lock") {
							c08.Hit("kill-holding-lock")
						}
					}
				}
			}
			// a report file's content must never change once it is complete
			ents, _ := os.ReadDir(td.dir.LocalDir())
			for _, e := range ents {
				n := e.Name()
				if !strings.HasSuffix(n, ".json") || !strings.HasPrefix(n, "local.") {
					continue
				}
				b, err := os.ReadFile(filepath.Join(td.dir.LocalDir(), n))
				if err != nil || len(b) == 0 || !json.Valid(b) {
					continue
				}
				h := hashOf(b)
				if prev, ok := firstSeen[n]; ok && prev != h {
					c07.Violate("report-changed", fmt.Sprintf("report %s changed after it had been written (a second, different report for the week)", n), rp())
				} else if !ok {
					firstSeen[n] = h
				}
			}
		}
		var then func(*verifrt.Sched, []*verifrt.Thread) *verifrt.Thread
		switch st.Kind {
		case "pct":
			then = verifrt.ChoosePCT(rnd, st.D, 400)
		case "sticky":
			then = verifrt.ChooseSticky(7, 8)
		default:
			then = verifrt.ChooseRandom
		}
		if len(st.Phases) > 0 {
			sc.Choose = verifrt.ChoosePhases(st.Phases, then)
		} else {
			sc.Choose = then
		}
		c07.Hit("strategy:" + st.Kind)
		sc.Run(30 * time.Second)
		verifrt.SetPlan(nil)
		if replaying {
			for j, id := range sc.PtTrace {
				fmt.Printf("round %d step %3d: %-30s -> next U%d\n", round, j+1, sc.PtNames[id], sc.Trace[j+1])
			}
			for _, a := range acks[nacks0:] {
				fmt.Printf("round %d request %d week %s status %d markerExists=%v\n", round, a.Seq, a.Week, a.Status, a.MarkerExists)
			}
		}
		traceKey += string(sc.Trace) + "|"
		if sc.Stuck != "" {
			c08.Inconc("schedule stuck: " + sc.Stuck)
			return
		}
		if sc.Overrun {
			c08.Violate("uploader-no-progress", fmt.Sprintf("uploaders did not finish within %d steps", sc.MaxSteps), rp())
			return
		}
		for _, t := range sc.Threads {
			if t.Panic != nil && !t.Killed {
				c08.Violate("uploader-panic", fmt.Sprintf("uploader %s panicked: %v\n%.1200s", t.Name, t.Panic, t.Stack), rp())
				return
			}
		}
		// ---- fs-event log oracles (C07)
		evs := plan.Snapshot()
		if replaying {
			for _, e := range evs {
				fmt.Printf("round %d ev %3d %-3s %-12s %-60s %s %.40s\n", round, e.Seq, e.Actor, e.Op, strings.TrimPrefix(e.Path, td.root), e.Arg, e.Err)
			}
		}
		reportSince := map[string]int{} // week -> seq of first evidence that a report exists
		for _, e := range evs {
			base := filepath.Base(e.Path)
			inLocal := filepath.Dir(e.Path) == td.dir.LocalDir()
			if e.Op == "Rename" || e.Op == "Link" {
				base = filepath.Base(e.Arg)
				inLocal = filepath.Dir(e.Arg) == td.dir.LocalDir()
			}
			isReport := inLocal && strings.HasSuffix(base, ".json")
			wk := strings.TrimSuffix(strings.TrimPrefix(base, "local."), ".json")
			switch {
			case isReport && e.Err == "" && (e.Op == "Rename" || e.Op == "Link" || e.Op == "WriteFile" || e.Op == "Create" || (e.Op == "OpenFile" && strings.Contains(e.Arg, "0xc1"))): // O_WRONLY|O_CREATE|O_EXCL
				created[base]++
				if _, ok := reportSince[wk]; !ok {
					reportSince[wk] = e.Seq
				}
				if created[base] > 1 {
					why := lastFate[base]
					if why == "" {
						why = "while-it-existed"
					}
					c07.Violate("second-report:"+why, fmt.Sprintf("report %s was created a second time (round %d, op %s by %s) — previous one: %s", base, round, e.Op, e.Actor, why), rp())
				}
				lastFate[base] = ""
			case isReport && e.Op == "Remove" && e.Err == "":
				// why was it removed? look at this actor's most recent Post / marker write
				lastFate[base] = "removed"
				for k := len(evs) - 1; k >= 0; k-- {
					p := evs[k]
					if p.Seq >= e.Seq || p.Actor != e.Actor {
						continue
					}
					if p.Op == "Post" && strings.HasSuffix(p.Path, "/"+wk) {
						if p.Arg == "200" {
							lastFate[base] = "recreated-after-upload"
						} else if strings.HasPrefix(p.Arg, "4") {
							lastFate[base] = "recreated-after-4xx-discard"
						}
						break
					}
					if p.Op == "Stat" && strings.HasSuffix(p.Path, filepath.Join("upload", wk+".json")) && p.Err == "" {
						lastFate[base] = "recreated-after-upload"
						break
					}
				}
			case isReport && (e.Op == "OpenFile" || e.Op == "Link") && e.Err != "":
				c07.Hit("exclusive-create-lost")
				if _, ok := reportSince[wk]; !ok {
					reportSince[wk] = e.Seq
				}
			case isReport && e.Op == "Stat" && e.Err == "":
				c07.Hit("report-existed-at-check")
				if _, ok := reportSince[wk]; !ok {
					reportSince[wk] = e.Seq
				}
			case inLocal && e.Op == "Remove" && strings.HasSuffix(base, ".count") && e.Err == "":
				f := files[base]
				if f == nil {
					break
				}
				w := f.End.Format("2006-01-02")
				since, ok := reportSince[w]
				_, existedBefore := firstSeen["local."+w+".json"]
				if (!ok || since > e.Seq) && !existedBefore && round == 0 && w != foreignWeek {
					c07.Violate("file-removed-before-report", fmt.Sprintf("%s removed counter file %s before any report for week %s existed", e.Actor, base, w), rp())
				}
			case inLocal && e.Op == "ReadFile" && strings.HasSuffix(base, ".count") && e.Err != "":
				if f := files[base]; f != nil {
					staleView[f.End.Format("2006-01-02")] = true
				}
			}
			if strings.HasSuffix(e.Path, ".lock") && e.Op == "OpenFile" && e.Err != "" {
				c08.Hit("lock-contention")
			}
		}
		// ---- server-log oracles (C08), per round
		byW := map[string][]ackRec{}
		for _, a := range acks[nacks0:] {
			byW[a.Week] = append(byW[a.Week], a)
			switch {
			case a.Status == 200:
				c08.Hit("status:200")
			case a.Status == 0:
				c08.Hit("status:dropped")
			case a.Status >= 500:
				c08.Hit("status:5xx")
			default:
				c08.Hit("status:4xx")
			}
			if a.MarkerExists {
				c08.Violate("sent-after-recorded-uploaded", fmt.Sprintf("a request for week %s arrived while upload/%s.json already existed", a.Week, a.Week), rp())
			}
			if a.Round > 0 {
				c08.Hit("retry-after-5xx")
			}
		}
		if kills == 0 {
			for w, as := range byW {
				only5xx, any4xx, any200 := true, false, false
				for _, a := range as {
					if a.Status == 200 {
						any200 = true
						only5xx = false
					} else if a.Status != 0 && a.Status < 500 {
						any4xx = true
						only5xx = false
					}
				}
				_, lerr := os.Stat(filepath.Join(td.dir.LocalDir(), w+".json"))
				if w == foreignWeek && lerr != nil {
					// the saved copy is this week's pending report (the uploader
					// builds none of its own next to it)
					_, lerr = os.Stat(filepath.Join(td.dir.LocalDir(), s.Foreign+w+".json"))
				}
				_, uerr := os.Stat(filepath.Join(td.dir.UploadDir(), w+".json"))
				if only5xx && lerr != nil {
					c08.Violate("report-lost-after-5xx", fmt.Sprintf("week %s: every request was answered 5xx or not at all, but local/%s.json is gone", w, w), rp())
				}
				if any4xx && !any200 {
					if lerr == nil {
						sig := "report-kept-after-4xx:other"
						if created[w+".json"] > 1 {
							sig = "report-kept-after-4xx:recreated-by-concurrent-uploader"
						}
						c08.Violate(sig, fmt.Sprintf("week %s was answered with a client error but local/%s.json is still there", w, w), rp())
					}
					if uerr == nil {
						sig := "marked-uploaded-after-4xx:other"
						if created[w+".json"] > 1 {
							sig = "marked-uploaded-after-4xx:recreated-by-concurrent-uploader"
						}
						c08.Violate(sig, fmt.Sprintf("week %s was answered with a client error but upload/%s.json exists", w, w), rp())
					}
				}
				if any200 && uerr != nil {
					c08.Violate("ack-not-recorded", fmt.Sprintf("week %s was acknowledged but upload/%s.json does not exist after a crash-free round", w, w), rp())
				}
			}
		}
		if round == s.Rounds-1 && !anyKill {
			// allow one extra round if the last answers were failures
			for _, a := range acks[nacks0:] {
				if a.Status != 200 {
					extraRound = true
				}
			}
		}
	}
	// ---- whole-history oracles
	reqs := srv.requests()
	for j := range acks {
		if j < len(reqs) {
			acks[j].Body = reqs[j].Body
			acks[j].Sum = reqs[j].Sum
			acks[j].Len = reqs[j].Len
		}
	}
	if c01conc != nil {
		c01conc.Eval()
		c01conc.Distinct(fmt.Sprint(i))
		for _, q := range reqs {
			c01conc.Hit("request-scanned")
			if bytes.Contains(q.Body, []byte("private/thing")) {
				c01conc.Violate("request-carries-unapproved:concurrent", fmt.Sprintf("a request of a concurrent history carries the unapproved counter private/thing: %.300s", q.Body), rp())
				break
			}
		}
	}
	ackedBodies := map[string]map[string]int{}
	rejected := map[string]bool{}
	for _, a := range acks {
		if a.Status == 200 {
			if ackedBodies[a.Week] == nil {
				ackedBodies[a.Week] = map[string]int{}
			}
			ackedBodies[a.Week][a.Sum]++
			// the acknowledged body must be the complete reference report
			var ur struct {
				Week     string
				X        float64
				Programs []*jsonProg
			}
			if err := json.Unmarshal(a.Body, &ur); err != nil {
				sig := "acked-body-incomplete:other"
				if len(a.Body) == 0 {
					sig = "acked-body-incomplete:empty-read-of-report-being-written"
				}
				c08.Violate(sig, fmt.Sprintf("server acknowledged a body for week %s that is not a complete JSON report (%d bytes): %v", a.Week, a.Len, err), rp())
				continue
			}
			want := s.Cfg.Uploadable(verifref.Aggregate(byWeek[a.Week]), ur.X)
			if d := compareProgs(toProgs(ur.Programs), want); d != "" || ur.Week != a.Week {
				sig := "acked-body-content:other"
				if staleView[a.Week] && isSubsetReport(s.Cfg, byWeek[a.Week], toProgs(ur.Programs), ur.X, true) {
					sig = "acked-body-content:subset-after-concurrent-removal"
				}
				c08.Violate(sig, fmt.Sprintf("acknowledged body for week %s differs from the week's report: %s", a.Week, d), rp())
			}
		} else if a.Status != 0 && a.Status < 500 {
			rejected[a.Week] = true
		}
	}
	for w, m := range ackedBodies {
		if len(m) > 1 {
			c08.Violate("two-bodies-acked", fmt.Sprintf("server acknowledged %d different report bodies for week %s", len(m), w), rp())
		}
		n := 0
		for _, k := range m {
			n += k
		}
		if n > 1 && !anyKill {
			c08.Violate("acked-twice", fmt.Sprintf("week %s was acknowledged %d times in a crash-free history", w, n), rp())
		}
	}
	if !anyKill {
		all := true
		for _, w := range s.weeks {
			if rejected[w] {
				continue // discarded after a client error, as documented
			}
			if len(ackedBodies[w]) == 0 {
				all = false
				failedLast := false
				for _, a := range acks {
					if a.Week == w && a.Round == round-1 && a.Status != 200 {
						failedLast = true
					}
				}
				if !failedLast {
					c08.Violate("never-acked", fmt.Sprintf("crash-free history and no failed request in the last round, but week %s was never acknowledged in %d rounds (requests: %d)", w, round, len(acks)), rp())
				}
			}
		}
		if all {
			c08.Hit("all-acked-once")
		}
	}
	// ---- C07: final reports
	for _, w := range s.weeks {
		if w == foreignWeek {
			continue // a report for this week existed beforehand: none is built
		}
		lp := filepath.Join(td.dir.LocalDir(), "local."+w+".json")
		lr, _, err := readReport(lp)
		if err != nil {
			if !anyKill {
				c07.Violate("no-local-report", fmt.Sprintf("week %s has no readable local report after %d crash-free rounds: %v", w, round, err), rp())
			}
			continue
		}
		if d := compareProgs(lr.Programs, verifref.Aggregate(byWeek[w])); d != "" {
			sig := "local-report-content:other"
			if staleView[w] && isSubsetReport(s.Cfg, byWeek[w], lr.Programs, lr.X, false) {
				sig = "local-report-content:subset-after-concurrent-removal"
			}
			c07.Violate(sig, fmt.Sprintf("local.%s.json differs from the sums over the week's files (a file counted twice or dropped): %s", w, d), rp())
		}
	}
	switches := 0
	for j := 1; j < len(traceKey); j++ {
		if traceKey[j] != traceKey[j-1] {
			switches++
		}
	}
	if switches >= 2 {
		c07.Distinct(fmt.Sprint(i) + traceKey)
		c08.Distinct(fmt.Sprint(i) + traceKey)
	}
	if i < 2 {
		c08.Sample(map[string]any{"case": i, "uploaders": s.N, "rounds": s.Rounds, "script": s.Script, "kill_at": s.KillAt, "requests": len(acks), "weeks": s.weeks})
		c07.Sample(map[string]any{"case": i, "uploaders": s.N, "weeks": s.weeks, "files": len(s.Files), "strategy": s.Strat})
	}
}

// isSubsetReport reports whether progs equals the report built from some
// proper, non-empty subset of the week's files (the shape of known finding
// F14: an uploader whose view of the week lost files to a concurrent uploader).
func isSubsetReport(cfg *verifref.UploadConfig, files []verifref.SourceFile, progs []*telemetry.ProgramReport, x float64, filtered bool) bool {
	n := len(files)
	if n < 2 || n > 10 {
		return false
	}
	for mask := 1; mask < (1<<n)-1; mask++ {
		var sub []verifref.SourceFile
		for j := 0; j < n; j++ {
			if mask&(1<<j) != 0 {
				sub = append(sub, files[j])
			}
		}
		want := verifref.Aggregate(sub)
		if filtered {
			want = cfg.Uploadable(want, x)
		}
		if compareProgs(progs, want) == "" {
			return true
		}
	}
	return false
}
