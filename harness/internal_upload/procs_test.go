//go:build verif

package upload

import (
	"encoding/json"
	"fmt"
	"os"
	"os/exec"
	"path/filepath"
	"strings"
	"syscall"
	"testing"
	"time"

	"golang.org/x/telemetry/internal/telemetry"
	"golang.org/x/telemetry/internal/verifref"
	"golang.org/x/telemetry/internal/verifrt"
)

// C08 (real processes): the scenarios of the scheduler-based pass, run by real
// uploader processes (this binary re-executed) against a scripted server in
// the parent. Crashes are real: strace(1) delivers SIGKILL to a process on
// entry to its k-th openat/unlinkat/renameat/write/connect system call, so
// the kernel, not the harness, decides what a dead uploader leaves behind
// (lock files, half-written reports, unsent markers). The oracle is the
// server-log checker of the scheduler pass, restricted to what can be
// observed without a global event order.

type upSpec struct {
	Root  string                 `json:"root"`
	Cfg   *verifref.UploadConfig `json:"cfg"`
	URL   string                 `json:"url"`
	Start time.Time              `json:"start"`
}

// TestVerifUploadProcChild is the body of one uploader process.
func TestVerifUploadProcChild(t *testing.T) {
	p := os.Getenv("VERIF_UP_SPEC")
	if p == "" {
		return
	}
	b, err := os.ReadFile(p)
	if err != nil {
		os.Exit(3)
	}
	var sp upSpec
	if err := json.Unmarshal(b, &sp); err != nil {
		os.Exit(3)
	}
	verifrt.SeedJitter(uint64(os.Getpid()) * 0x9e3779b97f4a7c15)
	verifrt.SetJitter(0.3)
	time.Sleep(time.Duration(os.Getpid()%7) * 150 * time.Microsecond)
	u := mkUploader(telemetry.NewDir(sp.Root), sp.Cfg, "v1.2.3", sp.URL, sp.Start)
	u.Run()
	os.Exit(0)
}

var killSyscalls = []string{"openat", "openat", "unlinkat", "unlinkat", "write", "connect", "close"}

func TestVerifUploadProcs(t *testing.T) {
	c08 := verifrt.NewResult("C08.procs")
	c07 := verifrt.NewResult("C07.procs")
	c08.Rule = "the histories of C08.sched (2-4 uploaders x 1-3 rounds + a final crash-free round, scripted 200/4xx/5xx/dropped answers, start-time skew) executed by real processes with random jitter at the instrumented points; in a third of the histories some processes are killed by strace fault injection (SIGKILL on entry to the k-th openat/unlinkat/renameat/write/connect/close of a thread). Oracle over the server log, the directory and the processes' system-call traces: per week at most one distinct acknowledged body and it is the complete reference report; no request while upload/<week>.json exists; crash-free histories: only-5xx weeks keep the report, a 4xx removes it unmarked, every uploadable week is acknowledged exactly once. distinct = histories; non-trivial = history with a kill that took effect or with lock contention seen in the traces"
	c07.Rule = "same runs: every local.<week>.json present at the end equals the reference sums (or the week's files are all still there); a report file is created successfully (O_EXCL or rename, from the traces) at most once. distinct = histories"
	base := vtmp("uprocs-")
	defer os.RemoveAll(base)
	n := verifrt.Scale(36, 1500)
	for i := 0; i < n; i++ {
		if !verifrt.WantCase("C08.procs", i) && !verifrt.WantCase("C07.procs", i) {
			continue
		}
		rnd := verifrt.NewRand(verifrt.Seed(), fmt.Sprintf("uprocs/%d", i))
		runProcScenario(c07, c08, base, genConcScenario(rnd, i), rnd, i)
	}
	c08.Require("status:200", "status:5xx", "kill-took-effect", "all-acked-once")
	for _, x := range []*verifrt.Result{c07, c08} {
		if err := x.Write(); err != nil {
			t.Fatal(err)
		}
	}
}

func runProcScenario(c07, c08 *verifrt.Result, base string, s *concScenario, rnd *verifrt.Rand, i int) {
	td := newTdir(base)
	defer os.RemoveAll(td.root)
	// (the date-less form is what older versions wrote; it means "on since ever")
	on := []string{"on 2020-01-01", "on", "on 2020-01-01", "on\n"}[i%4]
	td.setMode(&on)
	files := map[string]*ufile{}
	byWeek := map[string][]verifref.SourceFile{}
	for _, f := range s.Files {
		td.put(f, rnd)
		files[f.FileName] = f
		w := f.End.Format("2006-01-02")
		byWeek[w] = append(byWeek[w], verifref.SourceFile{Build: f.Build, Counts: f.Counts})
	}
	srv := newFakeSrv()
	defer srv.close()
	var acks []ackRec
	round := 0
	finalRound := false
	srv.Script = func(seq int, week string) int { // called under the server's mutex
		st := 200
		if seq < len(s.Script) && !finalRound {
			st = s.Script[seq]
		}
		_, err := os.Stat(filepath.Join(td.dir.UploadDir(), week+".json"))
		acks = append(acks, ackRec{Seq: seq, Week: week, Status: st % 1000, Round: round, MarkerExists: err == nil})
		return st
	}
	c07.Eval()
	c08.Eval()
	type killPlan struct {
		Sys  string `json:"syscall"`
		When int    `json:"when"`
	}
	var kp [][]*killPlan
	for rd := 0; rd < s.Rounds; rd++ {
		row := make([]*killPlan, s.N)
		for u := 0; u < s.N; u++ {
			// (a thread of an uploader process makes ~7 startup + up to ~12 openat/close,
			// <= 4 unlinkat, <= 6 write and one connect call: later indices never fire)
			if i%2 == 1 && rnd.Intn(2) == 0 {
				sys := verifrt.Pick(rnd, killSyscalls)
				when := 1
				switch sys {
				case "openat", "close":
					when = 6 + rnd.Intn(14)
				case "unlinkat":
					when = 1 + rnd.Intn(4)
				case "write":
					when = 1 + rnd.Intn(5)
				}
				row[u] = &killPlan{Sys: sys, When: when}
			}
		}
		kp = append(kp, row)
	}
	rpBase := map[string]any{"n": s.N, "rounds": s.Rounds, "script": s.Script, "kills": kp, "weeks": s.weeks, "start": rfc(s.Start), "skew": fmt.Sprint(s.Skew)}
	rp := func() map[string]any { return verifrt.CaseReplay(i, rpBase) }
	created := map[string]int{}
	staleView := map[string]bool{}
	anyKill, contention := false, false
	wdir := filepath.Join(td.root, "verif-work")
	os.MkdirAll(wdir, 0o777)
	for round = 0; round <= s.Rounds; round++ {
		finalRound = round == s.Rounds
		var cmds []*exec.Cmd
		var traces []string
		nacks0 := len(acks)
		for u := 0; u < s.N; u++ {
			st := s.Start
			if round < len(s.Skew) {
				st = st.Add(s.Skew[round][u])
			} else if len(s.Skew) > 0 {
				st = st.Add(s.Skew[len(s.Skew)-1][0])
			}
			spec := filepath.Join(wdir, fmt.Sprintf("spec-%d-%d.json", round, u))
			b, _ := json.Marshal(upSpec{Root: td.root, Cfg: s.Cfg, URL: srv.srv.URL, Start: st})
			os.WriteFile(spec, b, 0o644)
			trace := filepath.Join(wdir, fmt.Sprintf("trace-%d-%d.txt", round, u))
			traces = append(traces, trace)
			args := []string{"-f", "-qq", "-o", trace, "-e", "trace=openat,unlinkat,renameat,renameat2,linkat,write,connect,close"}
			if !finalRound && kp[round][u] != nil {
				args = append(args, "-e", fmt.Sprintf("inject=%s:signal=SIGKILL:when=%d", kp[round][u].Sys, kp[round][u].When))
			}
			args = append(args, os.Args[0], "-test.run=^TestVerifUploadProcChild$")
			cmd := exec.Command("strace", args...)
			cmd.Env = append(os.Environ(), "VERIF_UP_SPEC="+spec, "VERIF_BATCH=")
			cmd.SysProcAttr = &syscall.SysProcAttr{Setpgid: true}
			cmds = append(cmds, cmd)
		}
		for _, c := range cmds {
			if err := c.Start(); err != nil {
				c08.Inconc("cannot start strace: " + err.Error())
				return
			}
		}
		done := make(chan struct{})
		go func() {
			for _, c := range cmds {
				c.Wait()
			}
			close(done)
		}()
		select {
		case <-done:
		case <-time.After(2 * time.Minute):
			for _, c := range cmds {
				syscall.Kill(-c.Process.Pid, syscall.SIGKILL)
			}
			<-done
			c08.Inconc(fmt.Sprintf("case %d round %d: uploader processes still running after 2 minutes (watchdog)", i, round))
			return
		}
		killsThisRound := 0
		for u, tr := range traces {
			raw, _ := os.ReadFile(tr)
			if strings.Contains(string(raw), "killed by SIGKILL") {
				killsThisRound++
				anyKill = true
				c08.Hit("kill-took-effect")
				c08.Hit("killed-in:" + kp[round][u].Sys)
			}
			evs, _ := verifrt.ParseStrace(tr)
			for _, ev := range evs {
				if len(ev.Paths) == 0 {
					continue
				}
				p := ev.Paths[len(ev.Paths)-1]
				bn := filepath.Base(p)
				inLocal := filepath.Dir(p) == td.dir.LocalDir()
				isReport := inLocal && strings.HasSuffix(bn, ".json")
				switch {
				case isReport && ev.Err == "" && ev.Ret >= 0 && (ev.Name == "openat" && strings.Contains(ev.Args, "O_EXCL") || ev.Name == "renameat" || ev.Name == "renameat2" || ev.Name == "linkat"):
					created[bn]++
				case strings.HasSuffix(bn, ".lock") && ev.Name == "openat" && ev.Err == "EEXIST":
					contention = true
					c08.Hit("lock-contention")
				case inLocal && strings.HasSuffix(bn, ".count") && ev.Name == "openat" && ev.Err == "ENOENT":
					if f := files[bn]; f != nil {
						staleView[f.End.Format("2006-01-02")] = true
					}
				}
			}
			os.Remove(tr)
		}
		byW := map[string][]ackRec{}
		for _, a := range acks[nacks0:] {
			byW[a.Week] = append(byW[a.Week], a)
			switch {
			case a.Status == 200:
				c08.Hit("status:200")
			case a.Status == 0:
				c08.Hit("status:dropped")
			case a.Status >= 500:
				c08.Hit("status:5xx")
			default:
				c08.Hit("status:4xx")
			}
			if a.MarkerExists {
				c08.Violate("sent-after-recorded-uploaded", fmt.Sprintf("a request for week %s arrived while upload/%s.json already existed", a.Week, a.Week), rp())
			}
		}
		if !anyKill {
			for w, as := range byW {
				only5xx, any4xx, any200 := true, false, false
				for _, a := range as {
					if a.Status == 200 {
						any200, only5xx = true, false
					} else if a.Status != 0 && a.Status < 500 {
						any4xx, only5xx = true, false
					}
				}
				_, lerr := os.Stat(filepath.Join(td.dir.LocalDir(), w+".json"))
				_, uerr := os.Stat(filepath.Join(td.dir.UploadDir(), w+".json"))
				if only5xx && lerr != nil {
					c08.Violate("report-lost-after-5xx", fmt.Sprintf("week %s: every request was answered 5xx or not at all, but local/%s.json is gone", w, w), rp())
				}
				if any4xx && !any200 {
					suffix := ":other"
					if created[w+".json"] > 1 {
						suffix = ":recreated-by-concurrent-uploader"
					}
					if lerr == nil {
						c08.Violate("report-kept-after-4xx"+suffix, fmt.Sprintf("week %s was answered with a client error but local/%s.json is still there", w, w), rp())
					}
					if uerr == nil {
						c08.Violate("marked-uploaded-after-4xx"+suffix, fmt.Sprintf("week %s was answered with a client error but upload/%s.json exists", w, w), rp())
					}
				}
				if any200 && uerr != nil {
					c08.Violate("ack-not-recorded", fmt.Sprintf("week %s was acknowledged but upload/%s.json does not exist after a crash-free round", w, w), rp())
				}
			}
		}
		_ = killsThisRound
	}
	// ---- whole-history oracles
	reqs := srv.requests()
	for j := range acks {
		if j < len(reqs) {
			acks[j].Body, acks[j].Sum, acks[j].Len = reqs[j].Body, reqs[j].Sum, reqs[j].Len
		}
	}
	ackedBodies := map[string]map[string]int{}
	rejected := map[string]bool{}
	for _, a := range acks {
		if a.Status == 200 {
			if ackedBodies[a.Week] == nil {
				ackedBodies[a.Week] = map[string]int{}
			}
			ackedBodies[a.Week][a.Sum]++
			var ur struct {
				Week     string
				X        float64
				Programs []*jsonProg
			}
			if err := json.Unmarshal(a.Body, &ur); err != nil {
				sig := "acked-body-incomplete:other"
				if len(a.Body) == 0 {
					sig = "acked-body-incomplete:empty-read-of-report-being-written"
				}
				c08.Violate(sig, fmt.Sprintf("server acknowledged a body for week %s that is not a complete JSON report (%d bytes): %v", a.Week, a.Len, err), rp())
				continue
			}
			want := s.Cfg.Uploadable(verifref.Aggregate(byWeek[a.Week]), ur.X)
			if d := compareProgs(toProgs(ur.Programs), want); d != "" || ur.Week != a.Week {
				sig := "acked-body-content:other"
				if staleView[a.Week] && isSubsetReport(s.Cfg, byWeek[a.Week], toProgs(ur.Programs), ur.X, true) {
					sig = "acked-body-content:subset-after-concurrent-removal"
				}
				c08.Violate(sig, fmt.Sprintf("acknowledged body for week %s differs from the week's report: %s", a.Week, d), rp())
			}
		} else if a.Status != 0 && a.Status < 500 {
			rejected[a.Week] = true
		}
	}
	for w, m := range ackedBodies {
		if len(m) > 1 {
			c08.Violate("two-bodies-acked", fmt.Sprintf("server acknowledged %d different report bodies for week %s", len(m), w), rp())
		}
		k := 0
		for _, c := range m {
			k += c
		}
		if k > 1 && !anyKill {
			c08.Violate("acked-twice", fmt.Sprintf("week %s was acknowledged %d times in a crash-free history", w, k), rp())
		}
	}
	if !anyKill {
		all := true
		for _, w := range s.weeks {
			if rejected[w] {
				continue
			}
			if len(ackedBodies[w]) == 0 {
				all = false
				c08.Violate("never-acked", fmt.Sprintf("crash-free history ending in a round answered 200, but week %s was never acknowledged (requests: %d)", w, len(acks)), rp())
			}
		}
		if all {
			c08.Hit("all-acked-once")
		}
	}
	for base, k := range created {
		if k > 1 {
			wk := strings.TrimSuffix(strings.TrimPrefix(base, "local."), ".json")
			why := "while-it-existed"
			for _, a := range acks {
				if a.Week != wk {
					continue
				}
				if a.Status == 200 {
					why = "recreated-after-upload"
				} else if a.Status != 0 && a.Status < 500 && why != "recreated-after-upload" {
					why = "recreated-after-4xx-discard"
				}
			}
			c07.Violate("second-report:"+why, fmt.Sprintf("report %s was created successfully %d times over the history", base, k), rp())
		}
	}
	for _, w := range s.weeks {
		lr, _, err := readReport(filepath.Join(td.dir.LocalDir(), "local."+w+".json"))
		if err != nil {
			if !anyKill {
				c07.Violate("no-local-report", fmt.Sprintf("week %s has no readable local report after a crash-free history: %v", w, err), rp())
			}
			continue
		}
		if d := compareProgs(lr.Programs, verifref.Aggregate(byWeek[w])); d != "" {
			sig := "local-report-content:other"
			if staleView[w] && isSubsetReport(s.Cfg, byWeek[w], lr.Programs, lr.X, false) {
				sig = "local-report-content:subset-after-concurrent-removal"
			}
			c07.Violate(sig, fmt.Sprintf("local.%s.json differs from the sums over the week's files: %s", w, d), rp())
		}
	}
	if anyKill || contention {
		c08.Distinct(fmt.Sprint(i))
		c07.Distinct(fmt.Sprint(i))
	}
	if i < 2 {
		c08.Sample(map[string]any{"case": i, "uploaders": s.N, "rounds": s.Rounds, "script": s.Script, "kills": kp, "requests": len(acks), "weeks": s.weeks})
	}
}
