//go:build verif

package upload

import (
	"encoding/json"
	"fmt"
	"os"
	"path/filepath"
	"testing"
	"time"

	"golang.org/x/telemetry/internal/configstore"
	"golang.org/x/telemetry/internal/configtest"
	"golang.org/x/telemetry/internal/proxy"
	"golang.org/x/telemetry/internal/telemetry"
	"golang.org/x/telemetry/internal/verifrt"
)

// C01 through the public entry point: upload.Run fetches the configuration
// itself (go mod download from a file-based proxy holding the generated
// config), then builds and uploads; same oracle as C01.seq.
func TestVerifC01Public(t *testing.T) {
	// The runs are made in child processes (batches): a panic on a goroutine of
	// the uploader's own cannot be recovered by anybody and ends the process,
	// which is a verdict (C05), not a failure of the harness.
	const nb = 4
	agg := verifrt.NewResult("c01pub")
	verifrt.RunBatches("TestVerifC01Public", agg, nb, 0, 30*time.Minute, "host-process-died", func(b int, _ *verifrt.Result, cur *verifrt.Current) {
		c01PublicBatch(t, b, nb, cur)
	})
	c := &seqChecks{c07: verifrt.NewResult("C07.public"), c01: verifrt.NewResult("C01.public"), c02: verifrt.NewResult("C02.viaRun"), c09: verifrt.NewResult("C09.viaRun")}
	c05r := verifrt.NewResult("C05.viaRun")
	c01PublicRules(c, c05r)
	for _, x := range []*verifrt.Result{c.c01, c.c07, c05r} {
		parts, _ := filepath.Glob(filepath.Join(verifrt.OutDir(), x.Check+".pubpart*.json"))
		for _, p := range parts {
			if pr, err := verifrt.LoadResult(p); err == nil {
				x.Merge(pr)
			}
			os.Remove(p)
		}
	}
	for _, v := range agg.Violations {
		c05r.Violate(v.Sig, "the process running the public upload.Run died: "+v.Msg, v.Replay)
	}
	for _, s := range agg.Inconclusive {
		c05r.Inconc(s)
	}
	c.c01.Require("request-checked", "second-run-after-new-configuration")
	c.c01.Write()
	c.c07.Require("stray-json-in-local")
	c.c07.Write()
	c05r.Require("stray-json-in-local")
	c05r.Write()
}

func c01PublicRules(c *seqChecks, c05r *verifrt.Result) {
	c.c01.Rule = "single-run scenarios of the C01.seq generator (mode on) executed through the public upload.Run: the upload configuration is served by a file-based module proxy and fetched by `go mod download` (RunConfig.Env), X is forced through the instrumented crypto/rand call; every request must equal reference filter(aggregate, fetched config, X) and carry no canary. distinct = scenarios with at least one request"
	c05r.Rule = "the same public upload.Run calls (mode on, configuration fetched through the go command), a third of them with a short-named foreign .json file in local/ on which the uploader's report handling gives up internally: Run must return normally, no panic may escape it and the process must survive (the runs are made in child processes). distinct = scenarios; non-trivial = scenario with the foreign file"
	c.c07.Rule = "the same runs judged for C07 (local reports equal the reference sums; files removed only once a report exists); a third of them with a short-named foreign .json file in local/. distinct = scenarios"
}

func c01PublicBatch(t *testing.T, batch, nb int, cur *verifrt.Current) {
	c := &seqChecks{c07: verifrt.NewResult("C07.public"), c01: verifrt.NewResult("C01.public"), c02: verifrt.NewResult("C02.viaRun"), c09: verifrt.NewResult("C09.viaRun")}
	c05r := verifrt.NewResult("C05.viaRun")
	c01PublicRules(c, c05r)
	for _, x := range []*verifrt.Result{c.c01, c.c07, c05r} {
		x.SetFile(fmt.Sprintf("%s.pubpart%d.json", x.Check, batch))
	}
	defer func() {
		c.c01.Write()
		c.c07.Write()
		c05r.Write()
	}()
	base := vtmp("c01p-")
	defer os.RemoveAll(base)
	n := verifrt.Scale(24, 600)
	for i := 0; i < n; i++ {
		if !verifrt.WantCase("C01.public", i) || i%nb != batch {
			continue
		}
		if cur != nil {
			cur.Set(fmt.Sprintf("public Run case %d", i))
		}
		t.Run(fmt.Sprint(i), func(t *testing.T) {
			rnd := verifrt.NewRand(verifrt.Seed(), fmt.Sprintf("c01pub/%d", i))
			s := genSeqScenario(rnd, 100000+i)
			s.Starts = s.Starts[:1]
			s.Mode = []string{"on 2010-01-01"}
			s.Xs = s.Xs[:1]
			s.Grow = map[int]int{}
			s.Cfg.SampleRate = 0
			var env []string
			pdir := ""
			if i%2 == 0 {
				// (a proxy of the harness's own, so that a second configuration can be
				// published into it between two runs of this process)
				pdir, _ = os.MkdirTemp(base, "proxy")
				defer func() {
					filepath.Walk(pdir, func(p string, info os.FileInfo, err error) error {
						if err == nil && info.IsDir() {
							os.Chmod(p, 0o777)
						}
						return nil
					})
					os.RemoveAll(pdir)
				}()
				var err error
				env, err = c01Publish(pdir, toTelemetryConfig(s.Cfg), "v1.2.3")
				if err != nil {
					c.c01.Inconc("cannot write the proxy: " + err.Error())
					return
				}
			} else {
				env = configtest.LocalProxyEnv(t, toTelemetryConfig(s.Cfg), "v1.2.3")
			}
			td := newTdir(base)
			defer os.RemoveAll(td.root)
			srv := newFakeSrv()
			defer srv.close()
			defer unforceX()
			files := map[string]*ufile{}
			for _, f := range s.Files {
				td.put(f, rnd)
				files[f.FileName] = f
			}
			m := s.Mode[0]
			td.setMode(&m)
			if i%3 == 0 {
				// a foreign .json file with a short name in local/: the uploader looks
				// at it as a report ready for upload (and gives up on it); the weeks'
				// reports must be built and sent all the same
				stray := verifrt.Pick(rnd, []string{"notes.json", "x.json", "a.json", "package.json", "zz.json"})
				os.WriteFile(td.dir.LocalDir()+"/"+stray, []byte(`{"name":"something else"}`), 0o644)
				c.c07.Hit("stray-json-in-local")
				c05r.Hit("stray-json-in-local")
				c05r.Distinct(fmt.Sprint(i))
			}
			if s.Xs[0] >= 0 {
				forceX(s.Xs[0])
			}
			before := snapshot(td.root)
			var err error
			// (loops and lock waits in the instrumented packages count against a
			// budget: a hang is a verdict, not a 30-minute test timeout)
			verifrt.SetTickBudget(50_000_000)
			pv, stack := guarded(func() {
				err = Run(RunConfig{TelemetryDir: td.root, UploadURL: srv.srv.URL, Env: env, StartTime: s.Starts[0]})
			})
			over := verifrt.TickExceeded()
			verifrt.SetTickBudget(0)
			if over {
				c05r.Violate("uploader-unbounded-loop", fmt.Sprintf("the public upload.Run exceeded the loop/lock-wait budget\n%.800s", stack), verifrt.CaseReplay(i, nil))
				return
			}
			c.c01.Eval()
			c.c07.Eval()
			c.c07.Distinct(fmt.Sprint(i))
			replay := func(extra map[string]any) map[string]any {
				mm := verifrt.CaseReplay(i, map[string]any{"start": fmt.Sprint(s.Starts[0]), "x": s.Xs[0]})
				for k, v := range extra {
					mm[k] = v
				}
				return mm
			}
			c05r.Eval()
			if pv != nil {
				c05r.Violate("uploader-panic-escaped", fmt.Sprintf("a panic escaped the public upload.Run: %v\n%.800s", pv, stack), replay(nil))
			}
			if pv != nil {
				c.c01.Violate("run-panic", fmt.Sprintf("upload.Run let a panic escape: %v\n%.800s", pv, stack), replay(nil))
				return
			}
			if err != nil {
				c.c01.Inconc(fmt.Sprintf("upload.Run failed (config download?): %v", err))
				return
			}
			after := snapshot(td.root)
			mode, asof := parseModeRef(m, false)
			judgeSeqRun(c, s, td, files, before, after, srv.requests(), mode, asof, s.Starts[0], 0, replay)
			if i < 2 {
				c.c01.Sample(map[string]any{"case": i, "requests": len(srv.requests()), "files": len(s.Files)})
			}
			if pdir == "" {
				return
			}
			// a second run of this process, on another directory, after the next
			// configuration has been published: it filters with the configuration
			// fetched for that run
			rnd2 := verifrt.NewRand(verifrt.Seed(), fmt.Sprintf("c01pub2/%d", i))
			s2 := genSeqScenario(rnd2, 400000+i)
			s2.Starts = s2.Starts[:1]
			s2.Mode = []string{"on 2010-01-01"}
			s2.Xs = s2.Xs[:1]
			s2.Grow = map[int]int{}
			s2.Cfg.SampleRate = 0
			if _, err := c01Publish(pdir, toTelemetryConfig(s2.Cfg), "v1.2.4"); err != nil {
				c.c01.Inconc("cannot publish the second configuration: " + err.Error())
				return
			}
			td2 := newTdir(base)
			defer os.RemoveAll(td2.root)
			srv2 := newFakeSrv()
			defer srv2.close()
			files2 := map[string]*ufile{}
			for _, f := range s2.Files {
				td2.put(f, rnd2)
				files2[f.FileName] = f
			}
			m2 := s2.Mode[0]
			td2.setMode(&m2)
			unforceX()
			if s2.Xs[0] >= 0 {
				forceX(s2.Xs[0])
			}
			before2 := snapshot(td2.root)
			verifrt.SetTickBudget(50_000_000)
			pv2, stack2 := guarded(func() {
				err = Run(RunConfig{TelemetryDir: td2.root, UploadURL: srv2.srv.URL, Env: env, StartTime: s2.Starts[0]})
			})
			verifrt.SetTickBudget(0)
			if pv2 != nil || err != nil {
				c.c01.Inconc(fmt.Sprintf("second upload.Run of the process failed: %v %v %.300s", pv2, err, stack2))
				return
			}
			c.c01.Eval()
			c.c01.Hit("second-run-after-new-configuration")
			replay2 := func(extra map[string]any) map[string]any {
				mm := verifrt.CaseReplay(i, map[string]any{"run": "second of the process, configuration v1.2.4", "start": fmt.Sprint(s2.Starts[0]), "x": s2.Xs[0]})
				for k, v := range extra {
					mm[k] = v
				}
				return mm
			}
			mode2, asof2 := parseModeRef(m2, false)
			judgeSeqRun(c, s2, td2, files2, before2, snapshot(td2.root), srv2.requests(), mode2, asof2, s2.Starts[0], 0, replay2)
		})
	}
}

// c01Publish adds one version of the configuration module to a file-based
// module proxy below dir and returns the go environment for fetching from it.
func c01Publish(dir string, cfg *telemetry.UploadConfig, version string) ([]string, error) {
	enc, err := json.Marshal(cfg)
	if err != nil {
		return nil, err
	}
	dp := fmt.Sprintf("%v@%v/", configstore.ModulePath, version)
	uri, err := proxy.WriteProxy(filepath.Join(dir, "proxy"), map[string][]byte{
		dp + "go.mod":      []byte("module " + configstore.ModulePath + "\n\ngo 1.20\n"),
		dp + "config.json": enc,
	})
	if err != nil {
		return nil, err
	}
	return []string{"GOPROXY=" + uri, "GONOSUMDB=*", "GOMODCACHE=" + filepath.Join(dir, "modcache")}, nil
}
