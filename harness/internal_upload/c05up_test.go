//go:build verif

package upload

import (
	"bytes"
	"encoding/binary"
	"fmt"
	"os"
	"path/filepath"
	"syscall"
	"testing"
	"time"

	"golang.org/x/telemetry/internal/verifref"
	"golang.org/x/telemetry/internal/verifrt"
)

// C05 (uploader side): running the uploader returns normally within a bounded
// number of steps whatever state the directory is in and whichever fs call
// fails; damaged files never change what is reported for healthy ones.

type upDamage struct {
	class string
	apply func(r *verifrt.Rand, d []byte, cf *verifref.CounterFile) []byte
}

func p32(d []byte, off uint32, v uint32) {
	if int(off)+4 <= len(d) {
		binary.LittleEndian.PutUint32(d[off:], v)
	}
}

var upDamages = []upDamage{
	{"next-self", func(r *verifrt.Rand, d []byte, cf *verifref.CounterFile) []byte {
		rec := cf.Records[r.Intn(len(cf.Records))]
		p32(d, rec.Off+12, rec.Off)
		return d
	}},
	{"cycle-all", func(r *verifrt.Rand, d []byte, cf *verifref.CounterFile) []byte {
		for i, rec := range cf.Records {
			p32(d, rec.Off+12, cf.Records[(i+1)%len(cf.Records)].Off)
		}
		return d
	}},
	{"hdrlen", func(r *verifrt.Rand, d []byte, cf *verifref.CounterFile) []byte {
		p32(d, 28, uint32(verifrt.Pick(r, []int{0, 1, 31, 33, 16383, 16385, -1})))
		return d
	}},
	{"limit", func(r *verifrt.Rand, d []byte, cf *verifref.CounterFile) []byte {
		p32(d, cf.HdrLen, uint32(verifrt.Pick(r, []int{0, 1, 0xffffc001, -1, len(d) + 1})))
		return d
	}},
	{"head", func(r *verifrt.Rand, d []byte, cf *verifref.CounterFile) []byte {
		p32(d, cf.HdrLen+4+4*uint32(cf.Records[0].Bucket), uint32(verifrt.Pick(r, []int{1, 31, len(d) - 8, len(d), -1})))
		return d
	}},
	{"namelen", func(r *verifrt.Rand, d []byte, cf *verifref.CounterFile) []byte {
		rec := cf.Records[r.Intn(len(cf.Records))]
		p32(d, rec.Off+8, uint32(verifrt.Pick(r, []int{0, 0x00ffffff, len(d), -1})))
		return d
	}},
	{"truncate", func(r *verifrt.Rand, d []byte, cf *verifref.CounterFile) []byte {
		return d[:verifrt.Pick(r, []int{0, 1, 28, 100, 16383})]
	}},
	{"random", func(r *verifrt.Rand, d []byte, cf *verifref.CounterFile) []byte {
		o := r.Bytes(len(d))
		if r.Bool() {
			copy(o, verifref.Prefix)
		}
		return o
	}},
	{"meta", func(r *verifrt.Rand, d []byte, cf *verifref.CounterFile) []byte {
		copy(d[32:], verifrt.Pick(r, []string{"NoSeparator\n", "TimeEnd: never\n", "TimeBegin: 2024-01-01T00:00:00Z\nTimeEnd: 0000\n", "\xff\xfe\x00"}))
		return d
	}},
}

var c07faults *verifrt.Result

// c01faults: what reaches the server during and after a run in which an fs
// call failed contains nothing the configuration does not approve (C01).
var c01faults *verifrt.Result

const c01FaultCanary = "CANARY-c01faults"

func TestVerifC05Upload(t *testing.T) {
	const check = "C05.upload"
	res := verifrt.NewResult(check)
	c07f := verifrt.NewResult("C07.faults")
	c07f.Rule = "the C05.upload runs (uploader over two healthy finished files of one week, one damaged file of another week, hostile layouts) with one fs call failing with EACCES/ENOSPC/EIO/ENOENT/EMFILE: whenever no report for the healthy week exists afterwards, its counter files must still be there, byte for byte (files are removed only once a report for their week exists), and a fault-free second run must then produce the report. distinct = distinct fault plans that were delivered"
	res.Rule = "telemetry directory with two healthy finished counter files of one week plus one file damaged at rest (self/ring links incl. through zero-valued records, header length, limit, bucket head, name length, truncation, random bytes, metadata), and hostile layouts (local/upload missing or a regular file, report name taken by a directory); the public upload.Run (mode local) and the uploader's Run (mode on, local server) are called under a loop-tick budget and panic guard, fault-free and with every recorded fs call failing with EACCES/ENOSPC/EIO/ENOENT in turn: must return; with no injected fault the healthy week's report must equal the reference sums. distinct = distinct (damage, fault) plans"
	nb := 8
	total := verifrt.Scale(600, 20000)
	per := (total + nb - 1) / nb
	verifrt.RunBatches("TestVerifC05Upload", res, nb, 0, 30*time.Minute, "c05up.death", func(b int, r *verifrt.Result, cur *verifrt.Current) {
		base := vtmp("c05u-")
		defer os.RemoveAll(base)
		c07faults = verifrt.NewResult("C07.faults")
		c07faults.SetFile(fmt.Sprintf("C07.faults.part%d.json", b))
		defer c07faults.Write()
		c01faults = verifrt.NewResult("C01.faults")
		c01faults.SetFile(fmt.Sprintf("C01.faults.part%d.json", b))
		defer c01faults.Write()
		lo, hi := verifrt.CaseRange(check, b, per)
		for i := lo; i < hi; i++ {
			rnd := verifrt.NewRand(verifrt.Seed(), fmt.Sprintf("%s/%d", check, i))
			if cur != nil {
				cur.Set(fmt.Sprintf("case %d", i))
			}
			c05UploadCase(r, base, rnd, i)
		}
	})
	res.Require("damage:next-self", "damage:cycle-all", "zero-valued-cycle", "fault-delivered", "healthy-week-checked", "layout:local-is-file", "layout:old-lock-is-nonempty-dir")
	if err := res.Write(); err != nil {
		t.Fatal(err)
	}
	parts, _ := filepath.Glob(filepath.Join(verifrt.OutDir(), "C07.faults.part*.json"))
	for _, p := range parts {
		if pr, err := verifrt.LoadResult(p); err == nil {
			c07f.Merge(pr)
		}
		os.Remove(p)
	}
	c07f.Require("fault-then-no-report", "retry-produced-report")
	c07f.Write()
	c01f := verifrt.NewResult("C01.faults")
	c01f.Rule = "the C05.upload runs in mode on (two healthy files of one week holding an approved counter, an unapproved one and a private name carrying a canary token), one fs call failing with EACCES/ENOSPC/EIO/ENOENT/EMFILE, followed by a fault-free run: no request of either run carries the unapproved name or the canary (whatever a failed write or clean-up left behind in local/). distinct = distinct fault plans that were delivered"
	parts, _ = filepath.Glob(filepath.Join(verifrt.OutDir(), "C01.faults.part*.json"))
	for _, p := range parts {
		if pr, err := verifrt.LoadResult(p); err == nil {
			c01f.Merge(pr)
		}
		os.Remove(p)
	}
	c01f.Require("requests-after-fault-checked")
	c01f.Write()
}

func c05UploadCase(r *verifrt.Result, base string, rnd *verifrt.Rand, i int) {
	td := newTdir(base)
	defer os.RemoveAll(td.root)
	start := day(2024, 6, 12).Add(5 * time.Hour)
	end := day(2024, 6, 10)
	bld := verifref.Build{Program: "golang.org/x/tools/gopls", Version: "v1.2.3", GoVersion: "go1.22.1", GOOS: "linux", GOARCH: "amd64"}
	var srcs []verifref.SourceFile
	for k := 0; k < 2; k++ {
		f := &ufile{Build: bld, Kind: "ok", End: end, Begin: end.Add(-3 * 24 * time.Hour), Counts: map[string]uint64{"editor/opens": uint64(2 + k), "flag:v": 7, "private/" + c01FaultCanary: 3}}
		f.setName(k)
		td.put(f, rnd)
		srcs = append(srcs, verifref.SourceFile{Build: f.Build, Counts: f.Counts})
	}
	// the damaged file belongs to another week so that the healthy week stays well-defined
	bad := &ufile{Build: bld, Kind: "ok", End: end.Add(-7 * 24 * time.Hour), Begin: end.Add(-9 * 24 * time.Hour), Counts: map[string]uint64{}}
	zero := rnd.Intn(2) == 0
	for k := 0; k < 1+rnd.Intn(5); k++ {
		v := uint64(1 + rnd.Intn(9))
		if zero {
			v = 0
		}
		bad.Counts[fmt.Sprintf("c%d", k)] = v
	}
	bad.setName(9)
	data := bad.bytes(rnd)
	cf, err := verifref.ParseCounterFile(data)
	if err != nil || len(cf.Records) == 0 {
		r.Inconc("reference writer/reader disagree")
		return
	}
	dm := upDamages[rnd.Intn(len(upDamages))]
	data = dm.apply(rnd, data, cf)
	os.WriteFile(filepath.Join(td.dir.LocalDir(), bad.FileName), data, 0o666)
	r.Hit("damage:" + dm.class)
	if zero && (dm.class == "next-self" || dm.class == "cycle-all") {
		r.Hit("zero-valued-cycle")
	}
	layout := "normal"
	switch rnd.Intn(8) {
	case 0:
		layout = "upload-missing"
		os.RemoveAll(td.dir.UploadDir())
	case 1:
		layout = "upload-is-file"
		os.RemoveAll(td.dir.UploadDir())
		os.WriteFile(td.dir.UploadDir(), []byte("x"), 0o666)
	case 2:
		layout = "report-name-is-dir"
		os.MkdirAll(filepath.Join(td.dir.LocalDir(), "local."+end.Format("2006-01-02")+".json"), 0o777)
	case 3:
		layout = "local-is-file"
		os.RemoveAll(td.dir.LocalDir())
		os.WriteFile(td.dir.LocalDir(), []byte("x"), 0o666)
	case 4, 5:
		// the week's upload lock is there already, left years ago, and cannot be
		// removed (a directory with something in it) or is an ordinary old file
		lock := filepath.Join(td.dir.UploadDir(), end.Format("2006-01-02")+".json.lock")
		layout = "old-lock-file"
		if rnd.Intn(2) == 0 {
			layout = "old-lock-is-nonempty-dir"
			os.MkdirAll(filepath.Join(lock, "x"), 0o777)
		} else {
			os.WriteFile(lock, nil, 0o666)
		}
		old := time.Date(2000, 1, 2, 3, 4, 5, 0, time.UTC)
		os.Chtimes(lock, old, old)
	}
	r.Hit("layout:" + layout)
	modeOn := rnd.Bool()
	srv := newFakeSrv()
	defer srv.close()
	m := "local"
	if modeOn {
		m = "on 2020-01-01"
	}
	td.setMode(&m)
	cfg := &verifref.UploadConfig{GOOS: []string{"linux"}, GOARCH: []string{"amd64"}, GoVersion: []string{"go1.22.1"},
		Programs: []*verifref.ProgramConfig{{Name: bld.Program, Versions: []string{bld.Version}, Counters: []verifref.CounterConfig{{Name: "editor/opens", Rate: 1}}}}}
	run := func(faults []*verifrt.Fault) (evs []verifrt.Event, sig, msg string) {
		plan := &verifrt.Plan{Faults: faults}
		verifrt.SetPlan(plan)
		defer verifrt.SetPlan(nil)
		verifrt.SetTickBudget(5_000_000)
		pv, stack := guarded(func() {
			if modeOn {
				mkUploader(td.dir, cfg, "v1.2.3", srv.srv.URL, start).Run()
			} else {
				Run(RunConfig{TelemetryDir: td.root, UploadURL: srv.srv.URL, StartTime: start})
			}
		})
		over := verifrt.TickExceeded()
		verifrt.SetTickBudget(0)
		if over {
			return plan.Snapshot(), "uploader-unbounded-loop", fmt.Sprintf("uploader exceeded the loop-tick budget (damage %s, layout %s)\n%.1000s", dm.class, layout, stack)
		}
		if pv != nil && !modeOn {
			return plan.Snapshot(), "uploader-panic-escaped", fmt.Sprintf("panic escaped upload.Run: %v\n%.1000s", pv, stack)
		}
		if pv != nil {
			// uploader.Run is always called under upload.Run's recover in production; a
			// panic here is only a finding if it escapes Run, which the local-mode leg checks
			r.Hit("panic-inside-uploader.Run")
		}
		return plan.Snapshot(), "", ""
	}
	// fault injection on a copy of the state: pick one recorded call of a dry recording
	faultSeq := 0
	var errno syscall.Errno
	if i%2 == 1 {
		faultSeq = 1 + rnd.Intn(40)
		errno = verifrt.Pick(rnd, []syscall.Errno{syscall.EACCES, syscall.ENOSPC, syscall.EIO, syscall.ENOENT, syscall.EMFILE})
	}
	var faults []*verifrt.Fault
	if faultSeq > 0 {
		faults = []*verifrt.Fault{{AtSeq: faultSeq, Errno: errno}}
	}
	r.Eval()
	r.Distinct(fmt.Sprintf("%s/%s/%v/%d/%v/%v", dm.class, layout, modeOn, faultSeq, errno, zero))
	evs, sig, msg := run(faults)
	rp := verifrt.CaseReplay(i, map[string]any{"damage": dm.class, "layout": layout, "mode_on": modeOn, "fault_seq": faultSeq, "errno": int(errno), "zero_valued": zero})
	if sig != "" {
		r.Violate(sig, msg, rp)
		return
	}
	delivered := false
	for _, e := range evs {
		if e.Inj {
			delivered = true
		}
	}
	if delivered {
		r.Hit("fault-delivered")
	}
	if delivered && c07faults != nil && (layout == "normal" || layout == "upload-missing") {
		w := end.Format("2006-01-02")
		c07faults.Eval()
		c07faults.Distinct(fmt.Sprintf("%d/%v/%s", faultSeq, errno, layout))
		_, e1 := os.Stat(filepath.Join(td.dir.LocalDir(), "local."+w+".json"))
		_, e2 := os.Stat(filepath.Join(td.dir.LocalDir(), w+".json"))
		_, e3 := os.Stat(filepath.Join(td.dir.UploadDir(), w+".json"))
		if e1 != nil && e2 != nil && e3 != nil {
			c07faults.Hit("fault-then-no-report")
			missing := 0
			ents, _ := os.ReadDir(td.dir.LocalDir())
			have := map[string]bool{}
			for _, en := range ents {
				have[en.Name()] = true
			}
			for k := 0; k < 2; k++ {
				f := &ufile{Build: bld, Begin: end.Add(-3 * 24 * time.Hour)}
				f.setName(k)
				if !have[f.FileName] {
					missing++
				}
			}
			if missing > 0 {
				c07faults.Violate("files-removed-without-report", fmt.Sprintf("fs call #%d failed with %v: no report for week %s exists, yet %d of its 2 counter files were removed (their data is lost)", faultSeq, errno, w, missing), rp)
			} else {
				// a later fault-free run must be able to report the week
				run(nil)
				if lr, _, err := readReport(filepath.Join(td.dir.LocalDir(), "local."+w+".json")); err != nil {
					c07faults.Violate("retry-produced-no-report", fmt.Sprintf("after a failed run (call #%d = %v) a fault-free run still produced no report: %v", faultSeq, errno, err), rp)
				} else if d := compareProgs(lr.Programs, verifref.Aggregate(srcs)); d != "" {
					c07faults.Violate("retry-report-content", "report of the retry differs from the week's sums: "+d, rp)
				} else {
					c07faults.Hit("retry-produced-report")
				}
			}
		} else {
			c07faults.Hit("fault-but-report-exists")
			// a report *file* exists; if it is not the week's complete report (a
			// write that failed half-way), the week's data must not be lost: after
			// a fault-free retry either the complete report exists or the counter
			// files are still there
			// (a report that is complete for the files that could be read during the
			// faulted run is a report: a file that becomes readable later is late for
			// its week and may be dropped; an unreadable or missing local report is not)
			_, _, err := readReport(filepath.Join(td.dir.LocalDir(), "local."+w+".json"))
			complete := err == nil
			if !complete {
				c07faults.Hit("fault-left-incomplete-report-file")
				run(nil)
				_, _, err = readReport(filepath.Join(td.dir.LocalDir(), "local."+w+".json"))
				complete = err == nil
				missing := 0
				for k := 0; k < 2; k++ {
					f := &ufile{Build: bld, Begin: end.Add(-3 * 24 * time.Hour)}
					f.setName(k)
					if _, serr := os.Stat(filepath.Join(td.dir.LocalDir(), f.FileName)); serr != nil {
						missing++
					}
				}
				if !complete && missing > 0 {
					c07faults.Violate("data-lost-after-incomplete-report", fmt.Sprintf("fs call #%d failed with %v and left an incomplete report file for week %s; after a fault-free retry there is still no readable local report (%v) and %d of the week's 2 counter files are gone: their data is lost", faultSeq, errno, w, err, missing), rp)
				}
			}
		}
		if i < 40 && faultSeq > 0 {
			c07faults.Sample(map[string]any{"case": i, "fault_at_call": faultSeq, "errno": errno.Error(), "layout": layout})
		}
	}
	if delivered && modeOn && c01faults != nil {
		run(nil) // (a later, fault-free run meets whatever the failed one left behind)
		c01faults.Eval()
		c01faults.Distinct(fmt.Sprintf("%d/%v/%s", faultSeq, errno, layout))
		for _, q := range srv.requests() {
			c01faults.Hit("requests-after-fault-checked")
			if bytes.Contains(q.Body, []byte(c01FaultCanary)) || bytes.Contains(q.Body, []byte(`"flag:v"`)) {
				c01faults.Violate("request-carries-unapproved-after-fault", fmt.Sprintf("fs call #%d failed with %v; a request of that or of the following fault-free run carries data the configuration does not approve: %.300s", faultSeq, errno, q.Body), rp)
				break
			}
		}
	}
	if !delivered && layout == "normal" || layout == "upload-missing" && !delivered {
		// the healthy week must be reported exactly, whatever the damaged file is
		lr, _, err := readReport(filepath.Join(td.dir.LocalDir(), "local."+end.Format("2006-01-02")+".json"))
		if err != nil {
			r.Violate("healthy-week-not-reported", fmt.Sprintf("a damaged counter file of another week (%s) prevented the healthy week's report: %v", dm.class, err), rp)
			return
		}
		if d := compareProgs(lr.Programs, verifref.Aggregate(srcs)); d != "" {
			r.Violate("healthy-week-changed", "a damaged counter file changed what is reported for healthy files: "+d, rp)
		}
		r.Hit("healthy-week-checked")
	}
	if i < 2 {
		r.Sample(map[string]any{"case": i, "damage": dm.class, "layout": layout, "mode_on": modeOn, "fault_at_call": faultSeq, "fs_calls": len(evs)})
	}
}
