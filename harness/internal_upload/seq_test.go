//go:build verif

package upload

import (
	"bytes"
	"encoding/json"
	"fmt"
	"os"
	"path/filepath"
	"sort"
	"strings"
	"testing"
	"time"

	"golang.org/x/telemetry/internal/telemetry"
	"golang.org/x/telemetry/internal/verifref"
	"golang.org/x/telemetry/internal/verifrt"
)

// Sequential upload histories: one generator, three oracles.
//   C07.seq  every expired file is folded into exactly one weekly report
//   C01.seq  uploaded reports contain only configuration-approved data
//   C02.seq  nothing is uploaded beyond what the consent mode allows

var (
	// longProg makes a counter file's metadata about 500 bytes long (the cap is 512)
	longProg = "example.com/" + strings.Repeat("verylongpathelement/", 17) + "tool2"
	// localProg is a program whose counter files start with "local.", like the local reports
	localProg = "example.com/m/local.test"
	// twinProg has the same last path element as example.com/tool: their counter files
	// differ only in the date (and sort among each other)
	twinProg      = "example.org/other/tool"
	vocabPrograms = []string{"golang.org/x/tools/gopls", "cmd/go", "cmd/gofmt", "example.com/tool", longProg, localProg, twinProg}
	vocabVersions = map[string][]string{
		"golang.org/x/tools/gopls": {"v0.14.0", "v0.15.1-pre.1", "v1.2.3", "v1.2.30", "devel"},
		"example.com/tool":         {"v1.0.0", "v1.0.1", ""},
		longProg:                   {"v1.0.0", "v0.15.1-pre.1"},
		localProg:                  {"v1.0.0", ""},
		twinProg:                   {"v1.0.0", "v1.0.1", ""},
	}
	vocabGo   = []string{"go1.21.5", "go1.22.1", "go1.22.10", "go1.23rc1", "devel"}
	vocabOS   = []string{"linux", "darwin", "windows", "plan9"}
	vocabArch = []string{"amd64", "arm64", "386"}
	// counter expressions a configuration may list
	vocabCounterExprs = []string{"editor/opens", "go/cmd/build", "flag:{v,x,json}", "gopls/gotoolchain:{auto,local,other}", "crash/crash", "gopls/bug", "gopls/client:{vscode,vim}", "editor/opens\ufffd", "flag:\ufffd",
		// bucket texts with a closing brace that is not the last byte: the list is everything after the first {, less one final }
		"lang:{go}1,rust}", "mode:{a,b}x",
		// characters that HTML escaping rewrites (a viewer must look the raw name up)
		"latency:{<1s,>1s}", `editor/"quoted"&more`,
		// one bucket of a chart listed by itself, without braces
		"tool/cache:hit"}
	vocabStackExprs = []string{"crash/crash", "gopls/bug", "editor/opens",
		// (stack names are literal: no bucket syntax)
		"hang/{a,b}"}
	frames = "\ngolang.org/x/tools/gopls.main:+3,+0x1a\n\".run:+10,+0x44\nruntime.main:+100,+0x2"
)

func versionsOf(prog string) []string {
	if strings.HasPrefix(prog, "cmd/") {
		return vocabGo
	}
	return vocabVersions[prog]
}

// localNames returns counter names a program may have recorded locally:
// approved names, every near-miss class, and canary-carrying private names.
func localNames(r *verifrt.Rand, canary string) map[string]uint64 {
	pool := []string{
		"editor/opens", "go/cmd/build", "flag:v", "flag:x", "flag:json", "gopls/gotoolchain:auto", "gopls/gotoolchain:other", "gopls/client:vim",
		// near misses
		"flag:", "flag:{v,x,json}", "flag:vx", "flag:V", "xflag:v", "flag:v ", " flag:v", "flag:v,x", "flag", "editor/opens2", "editor/open", "Editor/opens",
		"gopls/gotoolchain:", "gopls/gotoolchain:auto,local", "gopls/client:emacs", "go/cmd/build}", "{v,x,json}",
		"tool/cache:hit", "tool/cache:miss", "tool/cache", "lang:go", "lang:go}1", "lang:rust", "lang:rust}", "mode:a", "mode:b", "mode:b}x",
		"latency:<1s", "latency:>1s", "latency:1s", "latency:&lt;1s", `editor/"quoted"&more`, "editor/&#34;quoted&#34;&amp;more", "crash/<unknown>" + frames, "crash/&lt;unknown&gt;" + frames,
		// plain counters named like stacks and vice versa
		"crash/crash", "gopls/bug",
		"crash/crash" + frames, "gopls/bug" + frames, "editor/opens" + frames, "go/cmd/build" + frames, "crash/crash2" + frames, "crash" + frames,
		"crash/crash\nother.pkg.f:+1,+0x1", "hang/{a,b}" + frames, "hang/a" + frames, "hang/b" + frames, "hang/a", "hang/{a,b}",
		// a stack counter whose own name looks like an abbreviated frame line
		"\".crash/crash" + frames, "\".gopls/bug\nmain.f:+1,+0x1",
		// private
		"secret/" + canary + "/a", "private:" + canary, "secretstack/" + canary + frames,
		// names that are not valid UTF-8 (a report renders them with U+FFFD, which a configuration can list)
		"editor/opens\xff", "secret/" + canary + "\xfe\xff", "flag:\xc3",
	}
	m := map[string]uint64{}
	n := 1 + r.Intn(10)
	for i := 0; i < n; i++ {
		name := pool[r.Intn(len(pool))]
		m[name] = uint64(1 + r.Intn(1000))
		if r.Intn(12) == 0 {
			// a record that exists with the value 0 (its writer died between linking
			// the record and adding to it): present locally, so it is reported, as 0
			m[name] = 0
		}
	}
	if r.Intn(5) == 0 {
		// one name used both for a plain counter and for stack counters (a
		// configuration may list it in both roles, with different rates)
		n := verifrt.Pick(r, []string{"crash/crash", "editor/opens", "gopls/bug"})
		m[n] = uint64(1 + r.Intn(1000))
		m[n+frames] = uint64(1 + r.Intn(1000))
	}
	if r.Intn(6) == 0 {
		// a stack counter whose name looks like a bucket list, and stacks named like its "buckets"
		m["hang/{a,b}"+frames] = uint64(1 + r.Intn(1000))
		m["hang/a"+frames] = uint64(1 + r.Intn(1000))
	}
	if r.Intn(8) == 0 {
		// values at the top of the range: a counter that saturated in the file
		// (2^64-1), and values whose weekly sum exceeds what a report can carry
		for name := range m {
			m[name] = verifrt.Pick(r, []uint64{^uint64(0), 1 << 63, 1<<63 - 1, 1<<62 + 5, 1 << 62})
			if r.Intn(3) == 0 {
				break
			}
		}
	}
	if r.Intn(6) == 0 {
		// names of exactly the largest length a record can hold: a stack cut
		// off by the encoder, or a plain name
		const max = 4096
		if r.Bool() {
			deep := "crash/crash" + strings.Repeat(frames, 70)
			const bad = "\ntruncated\n"
			m[deep[:max-len(bad)]+bad] = uint64(1 + r.Intn(9))
		} else {
			m["big/"+canary+"/"+strings.Repeat("n", max-5-len(canary))] = 1
		}
	}
	return m
}

func genConfig(r *verifrt.Rand) *verifref.UploadConfig {
	c := &verifref.UploadConfig{}
	pickSome := func(xs []string, p float64) []string {
		var out []string
		for _, x := range xs {
			if r.Prob(p) {
				out = append(out, x)
			}
		}
		return out
	}
	c.GOOS = pickSome(vocabOS, 0.7)
	c.GOARCH = pickSome(vocabArch, 0.7)
	c.GoVersion = pickSome(vocabGo, 0.7)
	c.SampleRate = verifrt.Pick(r, []float64{0, 0, 1, 1, 0.5, 0.25, -1})
	rates := []float64{0, 0.25, 0.5, 1, 1, 1}
	for _, p := range vocabPrograms {
		if !r.Prob(0.7) {
			continue
		}
		pc := &verifref.ProgramConfig{Name: p, Versions: pickSome(versionsOf(p), 0.6)}
		for _, e := range vocabCounterExprs {
			if r.Prob(0.6) {
				pc.Counters = append(pc.Counters, verifref.CounterConfig{Name: e, Rate: verifrt.Pick(r, rates)})
			}
		}
		for _, e := range vocabStackExprs {
			if r.Prob(0.5) {
				pc.Stacks = append(pc.Stacks, verifref.CounterConfig{Name: e, Rate: verifrt.Pick(r, rates), Depth: 8})
			}
		}
		c.Programs = append(c.Programs, pc)
	}
	return c
}

func genBuild(r *verifrt.Rand) verifref.Build {
	p := verifrt.Pick(r, vocabPrograms)
	gv := verifrt.Pick(r, vocabGo)
	v := verifrt.Pick(r, versionsOf(p))
	if strings.HasPrefix(p, "cmd/") && r.Intn(4) != 0 {
		v = gv
	}
	return verifref.Build{Program: p, Version: v, GoVersion: gv, GOOS: verifrt.Pick(r, vocabOS), GOARCH: verifrt.Pick(r, vocabArch)}
}

type seqScenario struct {
	Cfg                 *verifref.UploadConfig
	Files               []*ufile
	Mode                []string    // mode file content per run ("" = missing)
	Starts              []time.Time // start time per run
	Xs                  []float64   // forced X per run (<0: not forced)
	Grow                map[int]int // run index -> file index whose counts grow before that run
	Canary              string
	PreLocal, PreUpload map[string]string // pre-existing report files: week -> kind
	// Stray: a foreign .json file with a short, dateless name in local/ (only in
	// histories that never run in mode on: nothing is sent there, so the file
	// is never looked at as a report to upload)
	Stray       string
	Zoned       bool // start times carry a non-UTC location
	TwinFamily  bool // two builds differing in one identity field, one week
	AgeLimit    bool // the age-limit family (a week ending within minutes of the 21-day limit)
	FutureReady bool
}

func day(y int, m time.Month, d int) time.Time { return time.Date(y, m, d, 0, 0, 0, 0, time.UTC) }

func genSeqScenario(r *verifrt.Rand, i int) *seqScenario {
	s := &seqScenario{Cfg: genConfig(r), Canary: fmt.Sprintf("CANARY%dX%d", i, r.Intn(1e9)), Grow: map[int]int{}, PreLocal: map[string]string{}, PreUpload: map[string]string{}}
	base := day(2019+r.Intn(12), time.Month(1+r.Intn(12)), 1+r.Intn(28)).Add(0)
	t1 := base.Add(time.Duration(r.Intn(86400)) * time.Second)
	if r.Intn(4) == 0 {
		t1 = base // exactly midnight
	}
	nruns := 1 + r.Intn(3)
	t := t1
	for k := 0; k < nruns; k++ {
		s.Starts = append(s.Starts, t)
		t = t.Add(time.Duration(verifrt.Pick(r, []int{0, 1, 3600, 86400, 7 * 86400, 30 * 86400})) * time.Second)
		mode := verifrt.Pick(r, []string{"on", "on", "on", "local", "", "off"})
		if mode == "on" && r.Intn(2) == 0 {
			// opt-in date around the data
			d := t1.Add(time.Duration(-r.Intn(40)) * 24 * time.Hour)
			mode = "on " + d.Format("2006-01-02")
		}
		if mode == "on" && r.Intn(12) == 0 {
			mode = verifrt.Pick(r, []string{"ON", "on\n", " on ", "on garbage", "on  2020-01-01", "onward", "o n", "on 2024-13-45"})
		}
		s.Mode = append(s.Mode, mode)
		x := -1.0
		if r.Intn(3) != 0 {
			x = verifrt.Pick(r, []float64{0.1, 0.25, 0.5, 0.2500000001, 0.2499999999, 0.5000000001, 0.4999999, 0.99, 0.75})
		}
		s.Xs = append(s.Xs, x)
	}
	nb := 1 + r.Intn(3)
	builds := make([]verifref.Build, nb)
	for k := range builds {
		builds[k] = genBuild(r)
	}
	twin := false
	if nb > 1 && r.Intn(2) == 0 { // same program, builds differing in one identity field only
		builds[1] = builds[0]
		switch r.Intn(4) {
		case 0:
			builds[1].GOOS = verifrt.Pick(r, vocabOS)
		case 1:
			builds[1].GOARCH = verifrt.Pick(r, vocabArch)
		case 2:
			builds[1].GoVersion = verifrt.Pick(r, vocabGo)
		default:
			builds[1].Version = verifrt.Pick(r, versionsOf(builds[1].Program))
		}
		twin = builds[1] != builds[0]
	}
	nf := 1 + r.Intn(6)
	for k := 0; k < nf; k++ {
		f := &ufile{Build: builds[r.Intn(nb)], Kind: "ok"}
		// end relative to the first start time
		var end time.Time
		switch r.Intn(10) {
		case 0:
			end = t1 // exactly the start instant: not finished
		case 1:
			end = t1.Add(-time.Second)
		case 2:
			end = t1.Add(time.Second)
		case 3:
			end = t1.Add(time.Duration(1+r.Intn(6)) * 24 * time.Hour).Truncate(24 * time.Hour) // still active at run 1
		case 4:
			end = t1.Add(-time.Duration(20+r.Intn(4))*24*time.Hour - time.Duration(r.Intn(3)-1)*time.Second) // around the 21 day limit
			if r.Intn(3) == 0 {
				// ... and within the hour on either side of it (21 days are 504 hours,
				// whatever the wall clock of the start time's zone did meanwhile)
				end = t1.Add(-21*24*time.Hour - time.Duration(r.Intn(5)-2)*29*time.Minute)
			}
		default:
			end = t1.Truncate(24 * time.Hour).Add(-time.Duration(r.Intn(15)) * 24 * time.Hour)
		}
		if r.Intn(3) != 0 {
			end = end.Truncate(24 * time.Hour) // real files end at midnight
			if !end.Before(t1) && r.Intn(2) == 0 {
				end = end.Add(-24 * time.Hour)
			}
		}
		f.End = end
		f.Begin = end.Add(-time.Duration(1+r.Intn(7)) * 24 * time.Hour).Truncate(24 * time.Hour)
		f.Counts = localNames(r, s.Canary)
		switch r.Intn(12) {
		case 0:
			f.Kind = "empty"
		case 1:
			f.Kind = verifrt.Pick(r, []string{"garbage", "truncated", "badend", "nometa", "short", "pagecut"})
		}
		f.setName(k)
		s.Files = append(s.Files, f)
	}
	if twin && nf >= 2 && i%8 != 0 && i%8 != 4 && r.Intn(4) != 0 {
		// the twin builds both have a readable file in the same week
		a, b := s.Files[0], s.Files[1]
		a.Kind, b.Kind = "ok", "ok"
		a.Build, b.Build = builds[0], builds[1]
		b.End, b.Begin = a.End, a.Begin
		a.setName(0)
		b.setName(1)
	}
	if i%8 == 0 && nf >= 2 {
		// two readable files of one week with different begin dates and the
		// opt-in date on or between them, in both file-name orders
		a, b := s.Files[0], s.Files[1]
		a.Kind, b.Kind = "ok", "ok"
		end := t1.Truncate(24 * time.Hour).Add(-time.Duration(r.Intn(10)) * 24 * time.Hour)
		a.End, b.End = end, end
		a.Begin = end.Add(-time.Duration(4+r.Intn(3)) * 24 * time.Hour)
		b.Begin = end.Add(-time.Duration(1+r.Intn(2)) * 24 * time.Hour)
		if r.Bool() {
			a.Begin, b.Begin = b.Begin, a.Begin
		}
		a.setName(0)
		b.setName(1)
		early := a.Begin
		if b.Begin.Before(early) {
			early = b.Begin
		}
		asof := early.Add(time.Duration(r.Intn(4)-1) * 24 * time.Hour)
		for k := range s.Mode {
			s.Mode[k] = "on " + asof.Format("2006-01-02")
		}
		s.Cfg.SampleRate = 0
	}
	if i%8 == 4 && nf >= 2 {
		// two approved programs in one week sharing a stack (and a counter) name
		// that the configuration treats differently per program, in both file orders
		pa, pb := "golang.org/x/tools/gopls", "example.com/tool"
		if r.Bool() {
			pa, pb = pb, pa
		}
		s.Cfg.GOOS, s.Cfg.GOARCH, s.Cfg.GoVersion = []string{"linux"}, []string{"amd64"}, []string{"go1.22.1"}
		s.Cfg.SampleRate = 0
		s.Cfg.Programs = []*verifref.ProgramConfig{
			{Name: pa, Versions: []string{"v1.0.0"}, Stacks: []verifref.CounterConfig{{Name: "crash/crash", Rate: 1, Depth: 8}}, Counters: []verifref.CounterConfig{{Name: "editor/opens", Rate: 1}}},
			{Name: pb, Versions: []string{"v1.0.0"}, Stacks: []verifref.CounterConfig{{Name: "crash/crash", Rate: verifrt.Pick(r, []float64{0, 0.25}), Depth: 8}, {Name: "gopls/bug", Rate: 1}}, Counters: []verifref.CounterConfig{{Name: "editor/opens", Rate: verifrt.Pick(r, []float64{0.25, 1})}}},
		}
		if r.Intn(3) == 0 {
			s.Cfg.Programs[1].Stacks = s.Cfg.Programs[1].Stacks[1:] // not listed at all for the second program
		}
		end := t1.Truncate(24 * time.Hour).Add(-time.Duration(1+r.Intn(5)) * 24 * time.Hour)
		for k, prog := range []string{pa, pb} {
			f := s.Files[k]
			f.Kind = "ok"
			f.Build = verifref.Build{Program: prog, Version: "v1.0.0", GoVersion: "go1.22.1", GOOS: "linux", GOARCH: "amd64"}
			f.End, f.Begin = end, end.Add(-3*24*time.Hour)
			f.Counts = map[string]uint64{"crash/crash" + frames: uint64(1 + r.Intn(5)), "gopls/bug" + frames: 2, "editor/opens": uint64(10 + r.Intn(5)), "secret/" + s.Canary: 1}
			f.setName(k)
		}
		for k := range s.Mode {
			s.Mode[k] = "on 2010-01-01"
			if s.Xs[k] < 0 || s.Xs[k] < 0.3 {
				s.Xs[k] = 0.5
			}
		}
	}
	// a file that keeps growing between runs
	if nruns > 1 && r.Intn(2) == 0 {
		s.Grow[1+r.Intn(nruns-1)] = r.Intn(nf)
	}
	if i%8 == 2 {
		// an approved program's file is still active at the first run (same
		// process), keeps counting, expires, and is uploaded by the second run:
		// the upload must carry the final counts
		prog := "golang.org/x/tools/gopls"
		s.Cfg.GOOS, s.Cfg.GOARCH, s.Cfg.GoVersion = []string{"linux"}, []string{"amd64"}, []string{"go1.22.1"}
		s.Cfg.SampleRate = 0
		s.Cfg.Programs = []*verifref.ProgramConfig{{Name: prog, Versions: []string{"v1.0.0"}, Counters: []verifref.CounterConfig{{Name: "editor/opens", Rate: 1}, {Name: "flag:{v,x}", Rate: 1}}}}
		end := t1.Truncate(24 * time.Hour).Add(time.Duration(1+r.Intn(5)) * 24 * time.Hour)
		f := s.Files[0]
		f.Kind = "ok"
		f.Build = verifref.Build{Program: prog, Version: "v1.0.0", GoVersion: "go1.22.1", GOOS: "linux", GOARCH: "amd64"}
		f.End, f.Begin = end, end.Add(-time.Duration(2+r.Intn(5))*24*time.Hour)
		f.Counts = map[string]uint64{"editor/opens": uint64(1 + r.Intn(9)), "flag:v": 2, "secret/" + s.Canary: 1}
		f.setName(0)
		s.Starts = []time.Time{t1, end.Add(time.Duration(1+r.Intn(100)) * time.Hour)}
		s.Mode = []string{verifrt.Pick(r, []string{"on 2010-01-01", "local"}), "on 2010-01-01"}
		s.Xs = []float64{0.5, 0.5}
		s.Grow = map[int]int{1: 0}
		s.PreLocal, s.PreUpload = map[string]string{}, map[string]string{}
	}
	if i%20 == 11 {
		// one tool built for two targets (or with two toolchains, or in two
		// versions) on one machine: two finished files of one week whose builds differ
		// in exactly one identity field, under a configuration that approves the
		// first, the second or both; everything else permits the upload
		j := i / 20
		a := verifref.Build{Program: "golang.org/x/tools/gopls", Version: "v1.2.3", GoVersion: "go1.22.1", GOOS: "linux", GOARCH: "amd64"}
		if j%5 != 4 {
			// (the tool is not always gopls: one whose counter files are named like
			// local reports, one with a plain name)
			a.Program = []string{a.Program, localProg, "example.com/tool"}[j%3]
		}
		b := a
		s.Cfg.GOOS, s.Cfg.GOARCH, s.Cfg.GoVersion = []string{"linux"}, []string{"amd64"}, []string{"go1.22.1"}
		vers := []string{"v1.2.3"}
		approve := (j / 5) % 3 // 0: first only, 1: second only, 2: both
		progs := []string{a.Program}
		switch j % 5 {
		case 4:
			// another program with the same last path element: the counter files
			// of the two differ in nothing but the date
			b.Program = "example.org/forks/gopls"
			if j%10 == 9 {
				// ... or a program whose counter files are named like local reports
				b.Program = localProg
			}
			progs = [][]string{{a.Program}, {b.Program}, {a.Program, b.Program}}[approve]
		case 0:
			b.GOARCH = "386"
			s.Cfg.GOARCH = [][]string{{"amd64"}, {"386"}, {"amd64", "386"}}[approve]
		case 1:
			b.GOOS = "darwin"
			s.Cfg.GOOS = [][]string{{"linux"}, {"darwin"}, {"linux", "darwin"}}[approve]
		case 2:
			b.GoVersion = "go1.21.5"
			s.Cfg.GoVersion = [][]string{{"go1.22.1"}, {"go1.21.5"}, {"go1.22.1", "go1.21.5"}}[approve]
		default:
			b.Version = "v0.14.0"
			vers = [][]string{{"v1.2.3"}, {"v0.14.0"}, {"v1.2.3", "v0.14.0"}}[approve]
		}
		threeFiles := (j/15)%2 == 1 || j%5 == 4
		s.Cfg.SampleRate = 0
		s.Cfg.Programs = nil
		for _, pn := range progs {
			s.Cfg.Programs = append(s.Cfg.Programs, &verifref.ProgramConfig{Name: pn, Versions: vers, Counters: []verifref.CounterConfig{{Name: "editor/opens", Rate: 1}, {Name: "flag:{v,x}", Rate: 1}},
				Stacks: []verifref.CounterConfig{{Name: "crash/crash", Rate: 1, Depth: 8}}})
		}
		end := s.Starts[0].UTC().Truncate(24 * time.Hour).Add(-time.Duration(1+r.Intn(6)) * 24 * time.Hour)
		s.Files = s.Files[:0]
		for k, bl := range []verifref.Build{a, b} {
			if (j/15)%2 == 1 {
				bl = []verifref.Build{b, a}[k] // (which file the directory lists first)
			}
			f := &ufile{Build: bl, Kind: "ok", End: end, Begin: end.Add(-time.Duration(2+r.Intn(5)) * 24 * time.Hour)}
			f.Counts = map[string]uint64{"editor/opens": uint64(1 + r.Intn(9) + 100*k), "flag:v": uint64(2 + k), "crash/crash" + frames: uint64(1 + k), "secret/" + s.Canary: 1}
			if k == 0 && (j/30)%2 == 0 {
				// (a stack cut off by the encoder: a name of exactly the largest length)
				deep := "crash/crash" + strings.Repeat(frames, 70)
				const bad = "\ntruncated\n"
				f.Counts[deep[:4096-len(bad)]+bad] = 3
			}
			f.setName(k)
			s.Files = append(s.Files, f)
		}
		if threeFiles {
			// a third file, of the first file's build again, begun later than the
			// second: the directory lists the builds as A, B, A
			f0 := s.Files[0]
			f := &ufile{Build: f0.Build, Kind: "ok", End: end, Begin: end.Add(-24 * time.Hour)}
			s.Files[0].Begin = end.Add(-5 * 24 * time.Hour)
			s.Files[1].Begin = end.Add(-3 * 24 * time.Hour)
			s.Files[0].setName(0)
			s.Files[1].setName(1)
			f.Counts = map[string]uint64{"editor/opens": 1000, "flag:x": 5, "crash/crash" + frames: 7}
			f.setName(2)
			s.Files = append(s.Files, f)
		}
		s.Starts = s.Starts[:1]
		s.Mode = []string{"on 2010-01-01"}
		s.Xs = []float64{0.5}
		s.Grow = map[int]int{}
		s.PreLocal, s.PreUpload = map[string]string{}, map[string]string{}
		s.TwinFamily = true
	}
	if i%20 == 7 {
		// the 21-day age limit seen from a zone whose clocks moved by an hour during
		// those 21 days (either way): a week that ended half an hour before or after
		// the limit, one run, everything else permitting the upload
		j := i / 20
		off := int32([]int{-5, 1, 10, -8}[j%4]) * 3600
		d := int32([]int{3600, -3600}[(j/4)%2])
		t0 := s.Starts[0].UTC()
		z := verifrt.ShiftZone(t0.Add(-time.Duration(1+r.Intn(20))*24*time.Hour), off+d, off)
		side := time.Duration([]int{-31, 31, -1, 1}[(j/8)%4]) * time.Minute
		f := s.Files[0]
		f.Kind = "ok"
		f.End = t0.Add(-21*24*time.Hour + side)
		f.Begin = f.End.Add(-3 * 24 * time.Hour).Truncate(24 * time.Hour)
		f.setName(0)
		s.Files = s.Files[:1]
		s.Starts = []time.Time{t0.In(z)}
		s.Mode = []string{"on 2010-01-01"}
		s.Xs = []float64{0.5}
		s.Cfg.SampleRate = 0
		s.Grow = map[int]int{}
		s.PreLocal, s.PreUpload = map[string]string{}, map[string]string{}
		s.Zoned = true
		s.AgeLimit = true
	} else if i%40 == 13 {
		// late in the UTC day, seen from a zone where it is already tomorrow: a
		// pending report dated tomorrow (UTC) is a report for a week in the future
		d := s.Starts[0].UTC().Truncate(24 * time.Hour)
		s.Starts = []time.Time{d.Add(time.Duration(11+r.Intn(12)) * time.Hour).In(time.FixedZone("E", 14*3600))}
		s.Mode = []string{verifrt.Pick(r, []string{"on", "on 2010-01-01"})}
		s.Xs = s.Xs[:1]
		s.Grow = map[int]int{}
		s.PreLocal[d.Add(24*time.Hour).Format("2006-01-02")] = "ready"
		s.Zoned = true
		s.FutureReady = true
	} else if i%5 == 3 {
		// the start times are the same instants, expressed in another time zone
		// (the default start time is time.Now(), a local time): nothing may depend on it
		z := time.FixedZone("Z", verifrt.Pick(r, []int{14, 13, 9, 5, -3, -8, -11, -12})*3600)
		if r.Intn(2) == 0 {
			// a zone whose offset changed by an hour (either way) 1-20 days before the
			// first start: calendar arithmetic in it is off by that hour
			off := int32(verifrt.Pick(r, []int{-5, -8, 1, 10, 0})) * 3600
			d := int32(verifrt.Pick(r, []int{3600, -3600}))
			z = verifrt.ShiftZone(s.Starts[0].Add(-time.Duration(1+r.Intn(20))*24*time.Hour), off+d, off)
		}
		for k := range s.Starts {
			s.Starts[k] = s.Starts[k].In(z)
		}
		s.Zoned = true
	}
	allLocal := true
	for _, m := range s.Mode {
		if strings.HasPrefix(strings.TrimSpace(m), "on") {
			allLocal = false
		}
	}
	if allLocal && r.Intn(3) == 0 {
		s.Stray = verifrt.Pick(r, []string{"notes.json", "x.json", ".json", "a.json", "2024.json", "0.json", "package.json"})
	}
	// pre-existing reports for some weeks
	for _, f := range s.Files {
		if r.Intn(8) == 0 {
			w := f.End.UTC().Format("2006-01-02")
			switch r.Intn(3) {
			case 0:
				s.PreLocal[w] = "local"
			case 1:
				s.PreLocal[w] = "ready"
			default:
				s.PreUpload[w] = "uploaded"
			}
		}
	}
	return s
}

// parseModeRef is the documented reading of the mode file.
func parseModeRef(content string, missing bool) (mode string, asof time.Time) {
	if missing {
		return "local", time.Time{}
	}
	m := strings.TrimSpace(content)
	if i := strings.Index(m, " "); i >= 0 {
		d, err := time.Parse("2006-01-02", m[i+1:])
		if err != nil {
			d = time.Time{}
		}
		return m[:i], d
	}
	return m, time.Time{}
}

type seqChecks struct {
	c07, c01, c02, c09 *verifrt.Result
}

func TestVerifUploadSeq(t *testing.T) {
	cs := &seqChecks{c07: verifrt.NewResult("C07.seq"), c01: verifrt.NewResult("C01.seq"), c02: verifrt.NewResult("C02.seq"), c09: verifrt.NewResult("C09.agree")}
	cs.c09.Rule = "uploader side of the week boundary: in the generated histories a readable counter file is consumed iff its recorded end is strictly before the run's start time (ends generated at start-1s, start, start+1s, same UTC day before/after the end instant, days earlier, still active) and the report it is folded into is named by the end date. distinct = (end-vs-start class) observations"
	cs.c07.Rule = "generated telemetry directories (1-3 program builds x several weeks; files ok/empty/garbage/truncated/bad metadata; ends exactly at, 1s before/after the start instant, still active, around the 21-day limit; several files per build and week; pre-existing local/ready/uploaded reports; a file that grows between runs) run through 1-3 uploader runs in one process with later start times and changing modes. Oracle per run: reference aggregator over exactly the readable files that ended before the start: one local.<week>.json per eligible week without a report, equal programs/counters/stacks; files removed only then; other files byte-identical; existing reports untouched. distinct = scenario hashes; non-trivial = at least one eligible week"
	cs.c01.Rule = "same histories with generated upload configurations (program/version/Go version subsets, bucketed counters, stacks, rates {0,.25,.5,1}) and forced X (at, just above and just below rates): every uploaded report equals reference filter(aggregate, config, X) and the POSTed bytes equal the report file; request bytes are scanned for canary tokens carried by every unapproved private name. distinct = scenarios with at least one request"
	cs.c02.Rule = "same histories with mode files (on/local/off/missing, with and without opt-in dates around the data, malformed variants) : requests are made iff the mode file reads exactly 'on' and the week is uploadable by the documented predicate (age <= 21 days, opt-in date strictly before the earliest begin, X <= positive sample rate) and not in the future; in mode off no counter file or report is created, changed or removed. distinct = (mode class, outcome) pairs per scenario"
	nb := 16
	total := verifrt.Scale(1600, 48000)
	per := (total + nb - 1) / nb
	// all three results are produced by the same batches
	agg := verifrt.NewResult("seq")
	verifrt.RunBatches("TestVerifUploadSeq", agg, nb, 0, 30*time.Minute, "upload.death", func(b int, r *verifrt.Result, cur *verifrt.Current) {
		base := vtmp("seq-")
		defer os.RemoveAll(base)
		c := &seqChecks{c07: verifrt.NewResult("C07.seq"), c01: verifrt.NewResult("C01.seq"), c02: verifrt.NewResult("C02.seq"), c09: verifrt.NewResult("C09.agree")}
		c.c09.SetFile(fmt.Sprintf("C09.agree.part%d.json", b))
		c.c07.SetFile(fmt.Sprintf("C07.seq.part%d.json", b))
		c.c01.SetFile(fmt.Sprintf("C01.seq.part%d.json", b))
		c.c02.SetFile(fmt.Sprintf("C02.seq.part%d.json", b))
		for _, check := range []string{"C07.seq", "C01.seq", "C02.seq"} {
			lo, hi := verifrt.CaseRange(check, b, per)
			if _, rp := verifrt.Replaying(); !rp && check != "C07.seq" {
				continue // in a normal run the cases are run once, for all three oracles
			}
			for i := lo; i < hi; i++ {
				if cur != nil {
					cur.Set(fmt.Sprintf("seq case %d", i))
				}
				rnd := verifrt.NewRand(verifrt.Seed(), fmt.Sprintf("seq/%d", i))
				runSeqScenario(c, base, genSeqScenario(rnd, i), rnd, i)
			}
		}
		c.c07.Write()
		c.c01.Write()
		c.c02.Write()
		c.c09.Write()
	})
	// merge the parts
	for _, x := range []*verifrt.Result{cs.c07, cs.c01, cs.c02, cs.c09} {
		parts, _ := filepath.Glob(filepath.Join(verifrt.OutDir(), x.Check+".part*.json"))
		for _, p := range parts {
			if pr, err := verifrt.LoadResult(p); err == nil {
				x.Merge(pr)
			}
			os.Remove(p)
		}
		for _, v := range agg.Violations {
			x.Violate(v.Sig, v.Msg, v.Replay)
		}
		for _, s := range agg.Inconclusive {
			x.Inconc(s)
		}
	}
	cs.c07.Require("stray-json-in-local", "week-reported", "multi-file-sum", "multi-build", "boundary-end==start", "unreadable-untouched", "preexisting-report", "rerun", "grown-file", "empty-only-week")
	cs.c01.Require("request-checked", "excluded-by-rate", "unlisted-version", "near-miss-dropped", "stack-plain-clash", "twin-builds-one-week")
	cs.c02.Require("mode-on-sent", "mode-local", "mode-off", "mode-malformed", "too-old", "asof-blocks", "sample-blocks", "age-limit-in-shifted-zone")
	cs.c09.Require("end<start:consumed", "end==start:kept", "end>start:kept", "same-day-after-end:consumed")
	for _, x := range []*verifrt.Result{cs.c07, cs.c01, cs.c02, cs.c09} {
		if err := x.Write(); err != nil {
			t.Fatal(err)
		}
	}
}

func runSeqScenario(c *seqChecks, base string, s *seqScenario, rnd *verifrt.Rand, i int) {
	td := newTdir(base)
	if i%16 == 9 && len(s.Files) > 0 {
		// the telemetry directory lives below a directory whose name contains a
		// date - here the end date of one of the weeks (a dated backup or
		// profile directory): nothing may depend on the path
		os.RemoveAll(td.root)
		dated, _ := os.MkdirTemp(base, "profile-"+s.Files[0].End.UTC().Format("2006-01-02")+"-")
		td = newTdir(dated)
		c.c07.Hit("telemetry-dir-path-contains-week-date")
	}
	defer os.RemoveAll(td.root)
	srv := newFakeSrv()
	defer srv.close()
	defer unforceX()
	replay := func(extra map[string]any) map[string]any {
		m := verifrt.CaseReplay(i, map[string]any{"modes": s.Mode, "starts": fmt.Sprint(s.Starts), "xs": s.Xs})
		for k, v := range extra {
			m[k] = v
		}
		return m
	}
	files := map[string]*ufile{}
	for _, f := range s.Files {
		td.put(f, rnd)
		files[f.FileName] = f
	}
	for w, kind := range s.PreLocal {
		name := "local." + w + ".json"
		if kind == "ready" {
			name = w + ".json"
		}
		os.WriteFile(filepath.Join(td.dir.LocalDir(), name), []byte(fmt.Sprintf(`{"Week":%q,"LastWeek":"","X":0.123,"Programs":[],"Config":"v0.0.1-pre"}`, w)), 0o644)
	}
	if s.Zoned {
		c.c02.Hit("start-time-in-another-zone")
	}
	if s.AgeLimit {
		c.c02.Hit("age-limit-in-shifted-zone")
	}
	if s.TwinFamily {
		c.c01.Hit("twin-builds-one-week")
	}
	if s.FutureReady {
		c.c02.Hit("pending-report-for-tomorrow-utc")
	}
	if s.Stray != "" {
		os.WriteFile(filepath.Join(td.dir.LocalDir(), s.Stray), []byte(`{"name":"something else"}`), 0o644)
		c.c07.Hit("stray-json-in-local")
	}
	for w := range s.PreUpload {
		os.WriteFile(filepath.Join(td.dir.UploadDir(), w+".json"), []byte(fmt.Sprintf(`{"Week":%q,"LastWeek":"","X":0.321,"Programs":[],"Config":"v0.0.1-pre"}`, w)), 0o644)
	}
	c.c07.Eval()
	c.c01.Eval()
	c.c02.Eval()
	c.c09.Eval()
	anyEligible := false
	for run := range s.Starts {
		T := s.Starts[run]
		if fi, ok := s.Grow[run]; ok {
			f := s.Files[fi]
			if _, err := os.Stat(filepath.Join(td.dir.LocalDir(), f.FileName)); err == nil && f.readable() {
				for k := range f.Counts {
					f.Counts[k] += 17
				}
				f.Counts["late/"+s.Canary] = 3
				f.Kind = "ok"
				td.put(f, rnd)
				c.c07.Hit("grown-file")
			}
		}
		modeMissing := s.Mode[run] == ""
		if modeMissing {
			td.setMode(nil)
		} else {
			m := s.Mode[run]
			td.setMode(&m)
		}
		mode, asof := parseModeRef(s.Mode[run], modeMissing)
		if s.Xs[run] >= 0 {
			forceX(s.Xs[run])
		} else {
			unforceX()
		}
		before := snapshot(td.root)
		nreq0 := len(srv.requests())
		u := mkUploader(td.dir, s.Cfg, "v1.2.3", srv.srv.URL, T)
		var err error
		pv, stack := guarded(func() { err = u.Run() })
		if pv != nil {
			c.c07.Violate("run-panic", fmt.Sprintf("uploader.Run panicked: %v\n%.1200s", pv, stack), replay(nil))
			return
		}
		_ = err
		after := snapshot(td.root)
		reqs := srv.requests()[nreq0:]
		if run > 0 {
			c.c07.Hit("rerun")
		}
		if judgeSeqRun(c, s, td, files, before, after, reqs, mode, asof, T, run, replay) {
			anyEligible = true
		}
	}
	if anyEligible {
		c.c07.Distinct(fmt.Sprint(i))
	}
	if i < 2 {
		var fs []string
		for _, f := range s.Files {
			fs = append(fs, fmt.Sprintf("%s kind=%s end=%s counters=%d", f.FileName, f.Kind, rfc(f.End), len(f.Counts)))
		}
		c.c07.Sample(map[string]any{"case": i, "files": fs, "modes": s.Mode, "starts": fmt.Sprint(s.Starts)})
		c.c01.Sample(map[string]any{"case": i, "config": s.Cfg, "xs": s.Xs})
		c.c02.Sample(map[string]any{"case": i, "modes": s.Mode, "starts": fmt.Sprint(s.Starts), "sample_rate": s.Cfg.SampleRate})
	}
}

func exists(m map[string]fent, rel string) bool { _, ok := m[rel]; return ok }

func judgeSeqRun(c *seqChecks, s *seqScenario, td *tdir, files map[string]*ufile, before, after map[string]fent, reqs []reqRec,
	mode string, asof time.Time, T time.Time, run int, replay func(map[string]any) map[string]any) (anyEligible bool) {
	created, removed, changed := snapDiff(before, after)
	isCreated := func(rel string) bool { return has(created, rel) }
	isRemoved := func(rel string) bool { return has(removed, rel) }
	rp := replay(map[string]any{"run": run, "mode": mode, "created": created, "removed": removed, "changed": changed})

	// ---- mode off: nothing may happen to counter files and reports, nothing sent
	modeClass := mode
	if mode != "on" && mode != "off" && mode != "local" {
		modeClass = "malformed"
		c.c02.Hit("mode-malformed")
	}
	if mode == "off" {
		c.c02.Hit("mode-off")
		for _, k := range append(append(created, removed...), changed...) {
			if strings.HasSuffix(k, ".count") || strings.HasSuffix(k, ".json") {
				c.c02.Violate("off-touched-data", fmt.Sprintf("mode off: uploader created/removed/changed %s", k), rp)
			}
		}
		if len(reqs) > 0 {
			c.c02.Violate("off-sent", fmt.Sprintf("mode off: %d request(s) made", len(reqs)), rp)
		}
		return false
	}
	if mode != "on" && len(reqs) > 0 {
		c.c02.Violate("sent-without-consent", fmt.Sprintf("mode file reads %q (class %s) but %d request(s) were made", mode, modeClass, len(reqs)), rp)
	}
	if mode == "local" {
		c.c02.Hit("mode-local")
	}

	// ---- which files are finished, by week
	weeks := map[string][]*ufile{}
	var untouched []*ufile
	for name, f := range files {
		if !exists(before, filepath.Join("local", name)) {
			continue
		}
		if f.readable() && f.End.Before(T) {
			w := f.End.UTC().Format("2006-01-02")
			weeks[w] = append(weeks[w], f)
		} else {
			untouched = append(untouched, f)
			if f.readable() && f.End.Equal(T) {
				c.c07.Hit("boundary-end==start")
			}
			if !f.readable() {
				c.c07.Hit("unreadable-untouched")
			}
		}
	}
	// ---- C09 (uploader side): consumed iff end < start, week named by the end date
	for name, f := range files {
		rel := filepath.Join("local", name)
		if !exists(before, rel) || !f.readable() {
			continue
		}
		gone := isRemoved(rel)
		w := f.End.UTC().Format("2006-01-02")
		switch {
		case f.End.Before(T):
			cls := "end<start:consumed"
			if w == T.UTC().Format("2006-01-02") {
				cls = "same-day-after-end:consumed"
			}
			reportable := false
			for _, g := range files {
				if exists(before, filepath.Join("local", g.FileName)) && g.readable() && g.End.Before(T) && g.End.UTC().Format("2006-01-02") == w && g.Kind == "ok" && len(g.Counts) > 0 {
					reportable = true
				}
			}
			hadReport := exists(before, filepath.Join("local", "local."+w+".json")) || exists(before, filepath.Join("local", w+".json")) || exists(before, filepath.Join("upload", w+".json"))
			if reportable && !hadReport {
				c.c09.Hit(cls)
				c.c09.Distinct(cls + "/" + name + fmt.Sprint(run))
				if !gone || !exists(after, filepath.Join("local", "local."+w+".json")) {
					c.c09.Violate("finished-file-not-consumed", fmt.Sprintf("file %s ended %s, before the start %s, but was not folded into a report for week %s (removed=%v)", name, rfc(f.End), rfc(T), w, gone), rp)
				}
			}
		case f.End.Equal(T):
			c.c09.Hit("end==start:kept")
			if gone {
				c.c09.Violate("unfinished-file-consumed", fmt.Sprintf("file %s ends exactly at the start instant %s but was consumed", name, rfc(T)), rp)
			}
		default:
			c.c09.Hit("end>start:kept")
			if gone {
				c.c09.Violate("unfinished-file-consumed", fmt.Sprintf("file %s ends %s, after the start %s, but was consumed", name, rfc(f.End), rfc(T)), rp)
			}
		}
	}
	for _, f := range untouched {
		rel := filepath.Join("local", f.FileName)
		if isRemoved(rel) || has(changed, rel) {
			why := "has not ended before the start time"
			if !f.readable() {
				why = "cannot be read (" + f.Kind + ")"
			}
			c.c07.Violate("untouchable-file-touched", fmt.Sprintf("counter file %s %s (end %s, start %s) but was removed or changed", f.FileName, why, rfc(f.End), rfc(T)), rp)
		}
	}
	today := T.UTC().Format("2006-01-02")
	sentWeeks := map[string]reqRec{}
	for _, q := range reqs {
		w := strings.TrimPrefix(q.Path, "/")
		if _, dup := sentWeeks[w]; dup {
			c.c02.Violate("sent-twice-in-one-run", "week "+w+" was posted twice in one run", rp)
		}
		sentWeeks[w] = q
		if len(w) == 10 && w > today {
			// (the week named by the request ends after the run's start instant)
			c.c02.Violate("sent-future-week", fmt.Sprintf("a report for week %s was sent by a run started at %s (%s UTC): that week is in the future", w, T.Format(time.RFC3339), T.UTC().Format(time.RFC3339)), rp)
		}
		if q.Method != "POST" {
			c.c01.Violate("not-post", "request method "+q.Method, rp)
		}
		// canary scan: private names never travel
		if bytes.Contains(q.Body, []byte(s.Canary)) || strings.Contains(q.Path, s.Canary) {
			c.c01.Violate("canary-leak", fmt.Sprintf("request for %s carries a private (unapproved) name: %.300s", w, q.Body), rp)
		}
	}
	weekKeys := make([]string, 0, len(weeks))
	for w := range weeks {
		weekKeys = append(weekKeys, w)
	}
	sort.Strings(weekKeys)
	for _, w := range weekKeys {
		fs := weeks[w]
		anyEligible = true
		localRel := filepath.Join("local", "local."+w+".json")
		readyRel := filepath.Join("local", w+".json")
		upRel := filepath.Join("upload", w+".json")
		had := exists(before, localRel) || exists(before, readyRel) || exists(before, upRel)
		nonEmpty := false
		var srcs []verifref.SourceFile
		earliest := time.Time{}
		for _, f := range fs {
			if f.Kind == "ok" && len(f.Counts) > 0 {
				nonEmpty = true
			}
			cnt := f.Counts
			if f.Kind == "empty" {
				cnt = nil
			}
			srcs = append(srcs, verifref.SourceFile{Build: f.Build, Counts: cnt})
			if earliest.IsZero() || f.Begin.Before(earliest) {
				earliest = f.Begin
			}
		}
		filesGone := true
		for _, f := range fs {
			if !isRemoved(filepath.Join("local", f.FileName)) {
				filesGone = false
			}
		}
		switch {
		case had:
			c.c07.Hit("preexisting-report")
			if isCreated(localRel) || has(changed, localRel) || (has(changed, readyRel)) || has(changed, upRel) {
				c.c07.Violate("second-report", fmt.Sprintf("week %s already had a report but a report file was created or changed", w), rp)
			}
			if filesGone {
				c.c07.Hit("reported-week-files-removed")
			}
		case !nonEmpty:
			c.c07.Hit("empty-only-week")
			if exists(after, localRel) || exists(after, readyRel) {
				c.c07.Violate("report-from-empty-files", fmt.Sprintf("week %s has only empty counter files but a report was created", w), rp)
			}
		default:
			c.c07.Hit("week-reported")
			if len(fs) > 1 {
				c.c07.Hit("multi-file-sum")
			}
			agg := verifref.Aggregate(srcs)
			if len(agg) > 1 {
				c.c07.Hit("multi-build")
			}
			if !exists(after, localRel) {
				c.c07.Violate("no-local-report", fmt.Sprintf("week %s: %d finished readable files (at least one non-empty) but no local.%s.json after the run", w, len(fs), w), rp)
				continue
			}
			if !filesGone {
				c.c07.Violate("files-kept", fmt.Sprintf("week %s was reported but its counter files were not all removed", w), rp)
			}
			lr, _, err := readReport(filepath.Join(td.root, localRel))
			if err != nil {
				c.c07.Violate("local-report-unreadable", err.Error(), rp)
				continue
			}
			if lr.Week != w {
				c.c07.Violate("local-report-week", fmt.Sprintf("local.%s.json says Week=%q", w, lr.Week), rp)
			}
			if d := compareProgs(lr.Programs, agg); d != "" {
				c.c07.Violate("local-report-content", fmt.Sprintf("local.%s.json differs from the sums over the week's files: %s", w, d), rp)
			}
			if s.Xs[run] >= 0 && (lr.X-s.Xs[run] > 1e-9 || s.Xs[run]-lr.X > 1e-9) {
				c.c01.Inconc(fmt.Sprintf("X was not forced: got %v want %v", lr.X, s.Xs[run]))
			}
			// ---- C02: was it made uploadable / sent exactly when allowed?
			wt, _ := time.Parse("2006-01-02", w)
			tooOld := T.Sub(wt) > 21*24*time.Hour
			asofBlocks := !asof.IsZero() && !asof.Before(earliest)
			sampleBlocks := s.Cfg.SampleRate > 0 && lr.X > s.Cfg.SampleRate
			uploadable := mode == "on" && !tooOld && !asofBlocks && !sampleBlocks
			if mode == "on" {
				if tooOld {
					c.c02.Hit("too-old")
				}
				if asofBlocks {
					c.c02.Hit("asof-blocks")
				}
				if sampleBlocks {
					c.c02.Hit("sample-blocks")
				}
			}
			q, sent := sentWeeks[w]
			madeReady := exists(after, readyRel) || exists(after, upRel)
			if !uploadable && (madeReady || sent) {
				c.c02.Violate("uploadable-beyond-consent", fmt.Sprintf("week %s was made uploadable/sent although mode=%q tooOld=%v optInNotBeforeData=%v (asof %s, earliest begin %s) aboveSampleRate=%v (X=%v rate=%v)",
					w, mode, tooOld, asofBlocks, asof.Format("2006-01-02"), rfc(earliest), sampleBlocks, lr.X, s.Cfg.SampleRate), rp)
				continue
			}
			if uploadable {
				// (a start time in a zone west of UTC shows an earlier calendar date:
				// the report then waits for a later run, which the property allows)
				if !sent {
					if w <= today && w <= T.Format("2006-01-02") {
						c.c02.Violate("uploadable-not-sent", fmt.Sprintf("week %s is uploadable (mode on, age ok, opt-in ok, sampling ok) but no request was made", w), rp)
					}
					continue // nothing was sent: no content to judge
				}
				c.c02.Hit("mode-on-sent")
				c.c02.Distinct(fmt.Sprintf("%s/%s/sent", w, modeClass))
				// ---- C01: content of what was sent
				want := s.Cfg.Uploadable(agg, lr.X)
				var ur struct {
					Week, LastWeek, Config string
					X                      float64
					Programs               []*jsonProg
				}
				if err := json.Unmarshal(q.Body, &ur); err != nil {
					c.c01.Violate("request-not-json", fmt.Sprintf("request body for %s is not JSON: %v", w, err), rp)
					continue
				}
				c.c01.Hit("request-checked")
				c.c01.Distinct(fmt.Sprintf("%d/%s", run, w))
				if ur.Week != w || ur.X != lr.X {
					c.c01.Violate("request-header-fields", fmt.Sprintf("uploaded report Week=%q X=%v, local report Week=%q X=%v", ur.Week, ur.X, lr.Week, lr.X), rp)
				}
				if d := compareProgs(toProgs(ur.Programs), want); d != "" {
					sig := "upload-content"
					if d2 := compareProgs(toProgs(ur.Programs), uploadableSharedRate(s.Cfg, agg, lr.X)); d2 == "" {
						// explained entirely by finding F13: one rate table for counters and stacks
						sig = "upload-content:rate-of-same-named-counter-and-stack-shared"
					}
					c.c01.Violate(sig, fmt.Sprintf("uploaded report for %s (X=%v) differs from filter(config, local data): %s", w, lr.X, d), rp)
				}
				// classes
				for _, pd := range agg {
					if !s.Cfg.BuildApproved(pd.Program, pd.Version, pd.GoVersion, pd.GOOS, pd.GOARCH) {
						c.c01.Hit("unlisted-version")
						if s.Cfg.ProgramApproved(pd.Program, pd.Version, pd.GoVersion) {
							c.c01.Hit("unlisted-goos-goarch")
						}
						continue
					}
					for n := range pd.Counters {
						if r, ok := s.Cfg.CounterRate(pd.Program, n); ok && lr.X > r {
							c.c01.Hit("excluded-by-rate")
						} else if ok && lr.X == r {
							c.c01.Hit("included-at-X==rate")
						} else if !ok && (strings.HasPrefix(n, "flag") || strings.HasPrefix(n, "editor/open")) {
							c.c01.Hit("near-miss-dropped")
						}
						if _, isStack := s.Cfg.StackRate(pd.Program, n); isStack {
							c.c01.Hit("stack-plain-clash")
						}
					}
					for n := range pd.Stacks {
						if _, isCtr := s.Cfg.CounterRate(pd.Program, strings.SplitN(n, "\n", 2)[0]); isCtr {
							c.c01.Hit("stack-plain-clash")
						}
					}
				}
				// the bytes posted are the bytes recorded as uploaded
				if ub, err := os.ReadFile(filepath.Join(td.root, upRel)); err == nil && !bytes.Equal(ub, q.Body) {
					c.c01.Violate("posted-bytes-differ", "bytes posted for "+w+" differ from upload/"+w+".json", rp)
				}
			}
		}
	}
	// requests for weeks that were not built in this run: leftovers from earlier runs
	for w, q := range sentWeeks {
		if _, built := weeks[w]; built {
			continue
		}
		wt, err := time.Parse("2006-01-02", w)
		if err != nil {
			continue
		}
		if !exists(before, filepath.Join("local", w+".json")) {
			c.c02.Violate("sent-nonexistent", "request for week "+w+" which had no ready report", rp)
			continue
		}
		if w > today || (!asof.IsZero() && !asof.Before(wt)) {
			c.c02.Violate("leftover-sent-beyond-consent", fmt.Sprintf("ready report %s sent although week>today=%v or opt-in date %s not before it", w, w > today, asof.Format("2006-01-02")), rp)
		}
		_ = q
		c.c02.Hit("leftover-sent")
	}
	return anyEligible
}

type jsonProg struct {
	Program, Version, GoVersion, GOOS, GOARCH string
	Counters, Stacks                          map[string]int64
}

func has(xs []string, s string) bool {
	for _, x := range xs {
		if x == s {
			return true
		}
	}
	return false
}

func toProgs(ps []*jsonProg) []*telemetry.ProgramReport {
	var out []*telemetry.ProgramReport
	for _, p := range ps {
		if p == nil {
			out = append(out, nil)
			continue
		}
		out = append(out, &telemetry.ProgramReport{Program: p.Program, Version: p.Version, GoVersion: p.GoVersion, GOOS: p.GOOS, GOARCH: p.GOARCH, Counters: p.Counters, Stacks: p.Stacks})
	}
	return out
}

// uploadableSharedRate is the reference filter with the one deviation of known
// finding F13: when a program lists the same name as a counter and as a stack,
// the library keeps a single rate for both (the stack's). Used only to
// attribute a mismatch to that finding, never to accept one.
func uploadableSharedRate(c *verifref.UploadConfig, data []*verifref.ProgramData, x float64) []*verifref.ProgramData {
	c2 := *c
	c2.Programs = nil
	for _, p := range c.Programs {
		q := *p
		q.Counters = append([]verifref.CounterConfig(nil), p.Counters...)
		q.Stacks = append([]verifref.CounterConfig(nil), p.Stacks...)
		for i, cc := range q.Counters {
			for _, e := range verifref.ExpandBuckets(cc.Name) {
				for _, sc := range q.Stacks {
					if sc.Name == e && len(verifref.ExpandBuckets(cc.Name)) == 1 {
						q.Counters[i].Rate = sc.Rate
					}
				}
			}
		}
		c2.Programs = append(c2.Programs, &q)
	}
	return c2.Uploadable(data, x)
}
