//go:build verif

package upload

import (
	"bytes"
	"fmt"
	"os"
	"testing"
	"time"

	"golang.org/x/telemetry/internal/verifref"
	"golang.org/x/telemetry/internal/verifrt"
)

// C02 (mode file): setting a valid mode and reading it back yields the same
// mode and date; an invalid mode is rejected leaving the file unchanged; any
// other content reads as documented (fail-safe: not "on").
func TestVerifC02Mode(t *testing.T) {
	const check = "C02.mode"
	res := verifrt.NewResult(check)
	res.Rule = "SetModeAsOf(mode, t) for modes {on, off, local, with surrounding blanks} x instants over 2019-2031 in 27 fixed time zones (UTC-12..UTC+14, half-hour offsets) at day boundaries; then Mode() must return the mode and the UTC calendar day of t; invalid modes (empty, upper case, URLs, embedded blanks/newlines, arbitrary bytes) must return an error and leave the mode file byte-identical; arbitrary mode-file contents read back as (first token, date or zero) and only the exact token 'on' counts as consent. distinct = (mode, zone offset, hour) triples"
	base := vtmp("mode-")
	defer os.RemoveAll(base)
	td := newTdir(base)
	n := verifrt.Scale(6000, 200000)
	valid := []string{"on", "off", "local", " on", "local ", "\toff\n"}
	invalid := []string{"", "ON", "On", "yes", "on off", "on\nlocal", "http://insecure.com", "https://x.y", "onn", "o", "locale", "\x00", "on\x00", "enabled", "1"}
	for i := 0; i < n; i++ {
		if !verifrt.WantCase(check, i) {
			continue
		}
		rnd := verifrt.NewRand(verifrt.Seed(), fmt.Sprintf("%s/%d", check, i))
		res.Eval()
		offMin := (rnd.Intn(53) - 24) * 30 // -12h .. +14h in half hours
		zone := time.FixedZone(fmt.Sprintf("Z%+d", offMin), offMin*60)
		dayN := verifref.DaysFromCivil(2019, 1, 1) + int64(rnd.Intn(4748))
		sec := verifrt.Pick(rnd, []int{0, 1, 3599, 3600, 43200, 86399, rnd.Intn(86400)})
		at := time.Unix(dayN*86400+int64(sec), int64(rnd.Intn(2))*999999999).In(zone)
		wantDay := verifref.DateString(at.Unix() / 86400)
		rp := verifrt.CaseReplay(i, map[string]any{"at": at.Format(time.RFC3339Nano)})
		if i%3 != 0 {
			m := valid[rnd.Intn(len(valid))]
			err := td.dir.SetModeAsOf(m, at)
			if err != nil {
				res.Violate("valid-mode-rejected", fmt.Sprintf("SetModeAsOf(%q) failed: %v", m, err), rp)
				continue
			}
			gotM, gotD := td.dir.Mode()
			wantM := string(bytes.TrimSpace([]byte(m)))
			res.Distinct(fmt.Sprintf("%s/%d/%d", wantM, offMin, at.Hour()))
			if at.Format("2006-01-02") != wantDay {
				res.Hit("local-date-differs-from-utc")
			}
			if gotM != wantM || gotD.IsZero() || gotD.Format("2006-01-02") != wantDay || gotD.Location() != time.UTC {
				res.Violate("mode-roundtrip", fmt.Sprintf("SetModeAsOf(%q, %s) then Mode() = (%q, %s); want (%q, %s 00:00 UTC)", m, at.Format(time.RFC3339), gotM, gotD.Format(time.RFC3339), wantM, wantDay), rp)
			}
			res.Hit("valid-roundtrip")
		} else {
			// prime the file with something valid, then try an invalid mode
			prime := verifrt.Pick(rnd, []string{"on 2023-04-05", "local", "off 2020-02-29", "weird bytes \x01"})
			os.WriteFile(td.dir.ModeFile(), []byte(prime), 0o666)
			m := invalid[rnd.Intn(len(invalid))]
			err := td.dir.SetModeAsOf(m, at)
			after, _ := os.ReadFile(td.dir.ModeFile())
			if err == nil {
				res.Violate("invalid-mode-accepted", fmt.Sprintf("SetModeAsOf(%q) succeeded", m), rp)
			} else if string(after) != prime {
				res.Violate("invalid-mode-changed-file", fmt.Sprintf("SetModeAsOf(%q) failed but the mode file changed from %q to %q", m, prime, after), rp)
			}
			res.Hit("invalid-rejected")
			// reading arbitrary contents
			content := verifrt.Pick(rnd, []string{"on", "ON", " on ", "on 2024-01-02", "on 2024-13-45", "on  2024-01-02", "off", "local 2021-01-01", "", "\n", "garbage\x00\xff", "onward 2024-01-01", "on\t2024-01-01"})
			os.WriteFile(td.dir.ModeFile(), []byte(content), 0o666)
			gm, gd := td.dir.Mode()
			wm, wd := parseModeRef(content, false)
			if gm != wm || !gd.Equal(wd) {
				res.Violate("mode-read", fmt.Sprintf("mode file %q reads as (%q, %s); documented (%q, %s)", content, gm, gd.Format(time.RFC3339), wm, wd.Format(time.RFC3339)), rp)
			}
		}
		if i < 2 {
			res.Sample(map[string]any{"case": i, "at": at.Format(time.RFC3339Nano), "zone_offset_min": offMin})
		}
	}
	res.Require("valid-roundtrip", "invalid-rejected", "local-date-differs-from-utc")
	if err := res.Write(); err != nil {
		t.Fatal(err)
	}
}
