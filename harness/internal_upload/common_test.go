//go:build verif

package upload

import (
	"crypto/sha256"
	"encoding/binary"
	"encoding/hex"
	"encoding/json"
	"fmt"
	"io"
	"log"
	"math"
	"net/http"
	"net/http/httptest"
	"os"
	"path"
	"path/filepath"
	"runtime/debug"
	"sort"
	"strings"
	"sync"
	"time"
	"unicode/utf8"

	"golang.org/x/telemetry/internal/telemetry"
	"golang.org/x/telemetry/internal/verifref"
	"golang.org/x/telemetry/internal/verifrt"
)

func vtmp(prefix string) string {
	base := os.Getenv("VERIF_TMP")
	if base == "" {
		base = os.TempDir()
	}
	d, err := os.MkdirTemp(base, prefix)
	if err != nil {
		panic(err)
	}
	return d
}

func guarded(fn func()) (pv any, stack string) {
	defer func() {
		if r := recover(); r != nil {
			pv = r
			stack = string(debug.Stack())
		}
	}()
	fn()
	return nil, ""
}

// ---------------------------------------------------------------- counter files

type ufile struct {
	verifref.Build
	Begin, End time.Time
	Counts     map[string]uint64
	Kind       string // ok | empty | garbage | truncated | badend | nometa | short
	FileName   string
}

func rfc(t time.Time) string { return t.UTC().Format(time.RFC3339) }

func (f *ufile) meta() string {
	end := rfc(f.End)
	if f.Kind == "badend" {
		end = "next tuesday"
	}
	if f.Kind == "nometa" {
		return "Program: " + f.Program + "\n\n"
	}
	return fmt.Sprintf("TimeBegin: %s\nTimeEnd: %s\nProgram: %s\nVersion: %s\nGoVersion: %s\nGOOS: %s\nGOARCH: %s\n\n",
		rfc(f.Begin), end, f.Program, f.Version, f.GoVersion, f.GOOS, f.GOARCH)
}

func (f *ufile) bytes(r *verifrt.Rand) []byte {
	var es []verifref.Entry
	if f.Kind != "empty" {
		for _, k := range verifref.SortedKeys(f.Counts) {
			es = append(es, verifref.Entry{Name: k, Value: f.Counts[k]})
		}
	}
	if f.Kind == "pagecut" {
		// a file that had grown over several pages and lost all but the first:
		// chains of its hash table lead beyond the end of the file
		for k := 0; k < 40; k++ {
			es = append(es, verifref.Entry{Name: fmt.Sprintf("fill/%d/", k) + strings.Repeat("f", 1000), Value: 1})
		}
	}
	d, err := verifref.BuildCounterFile(f.meta(), es)
	if err != nil {
		panic(err)
	}
	switch f.Kind {
	case "pagecut":
		d = d[:verifref.PageSize]
	case "garbage":
		d = r.Bytes(len(d))
	case "truncated":
		d = d[:len(d)/3]
	case "short":
		d = d[:100]
	}
	return d
}

// readable reports whether the uploader can use the file at all.
func (f *ufile) readable() bool {
	switch f.Kind {
	case "ok", "empty":
		return true
	}
	return false
}

func (f *ufile) setName(uniq int) {
	v := f.Version
	if v != "" {
		v = "@" + v
	}
	f.FileName = fmt.Sprintf("%s%s-%s-%s-%s-%s-u%d.v1.count", path.Base(f.Program), v, f.GoVersion, f.GOOS, f.GOARCH, f.Begin.UTC().Format("2006-01-02"), uniq)
}

// ---------------------------------------------------------------- telemetry dir

type tdir struct {
	root string
	dir  telemetry.Dir
}

func newTdir(base string) *tdir {
	root, _ := os.MkdirTemp(base, "td")
	d := &tdir{root: root, dir: telemetry.NewDir(root)}
	os.MkdirAll(d.dir.LocalDir(), 0o777)
	os.MkdirAll(d.dir.UploadDir(), 0o777)
	return d
}

func (d *tdir) setMode(content *string) {
	if content == nil {
		os.Remove(d.dir.ModeFile())
		return
	}
	os.WriteFile(d.dir.ModeFile(), []byte(*content), 0o666)
}

func (d *tdir) put(f *ufile, r *verifrt.Rand) string {
	p := filepath.Join(d.dir.LocalDir(), f.FileName)
	if err := os.WriteFile(p, f.bytes(r), 0o666); err != nil {
		panic(err)
	}
	return p
}

type fent struct {
	Size int64
	Sum  string
	Dir  bool
	Mode os.FileMode
}

// snapshot lists every path under root (relative), with content hashes.
func snapshot(root string) map[string]fent {
	m := map[string]fent{}
	filepath.Walk(root, func(p string, info os.FileInfo, err error) error {
		if err != nil || p == root {
			return nil
		}
		rel, _ := filepath.Rel(root, p)
		e := fent{Size: info.Size(), Dir: info.IsDir(), Mode: info.Mode()}
		if info.Mode().IsRegular() {
			b, _ := os.ReadFile(p)
			h := sha256.Sum256(b)
			e.Sum = hex.EncodeToString(h[:8])
		}
		m[rel] = e
		return nil
	})
	return m
}

func snapDiff(a, b map[string]fent) (created, removed, changed []string) {
	for k, v := range b {
		if w, ok := a[k]; !ok {
			created = append(created, k)
		} else if w.Sum != v.Sum || w.Size != v.Size || w.Dir != v.Dir {
			changed = append(changed, k)
		}
	}
	for k := range a {
		if _, ok := b[k]; !ok {
			removed = append(removed, k)
		}
	}
	sort.Strings(created)
	sort.Strings(removed)
	sort.Strings(changed)
	return
}

// ---------------------------------------------------------------- fake upload server

type reqRec struct {
	Seq    int    `json:"seq"`
	Method string `json:"method"`
	Path   string `json:"path"`
	Body   []byte `json:"-"`
	Sum    string `json:"body_sum"`
	Len    int    `json:"body_len"`
	Status int    `json:"status"`
	Actor  string `json:"actor,omitempty"`
}

type fakeSrv struct {
	srv    *httptest.Server
	mu     sync.Mutex
	reqs   []reqRec
	Script func(seq int, week string) int // status to answer; 0 = drop the connection
}

func newFakeSrv() *fakeSrv {
	s := &fakeSrv{}
	s.srv = verifrt.NewHTTPServer(http.HandlerFunc(func(w http.ResponseWriter, r *http.Request) {
		body, _ := io.ReadAll(r.Body)
		s.mu.Lock()
		seq := len(s.reqs)
		st := 200
		if s.Script != nil {
			st = s.Script(seq, path.Base(r.URL.Path))
		}
		h := sha256.Sum256(body)
		s.reqs = append(s.reqs, reqRec{Seq: seq, Method: r.Method, Path: r.URL.Path, Body: body, Sum: hex.EncodeToString(h[:8]), Len: len(body), Status: st})
		s.mu.Unlock()
		if st == 0 {
			if hj, ok := w.(http.Hijacker); ok {
				c, _, _ := hj.Hijack()
				c.Close()
				return
			}
			st = 500
		}
		if st >= 1000 {
			// the answer (status st-1000) arrives, but the connection breaks
			// while its body is being sent
			st -= 1000
			if hj, ok := w.(http.Hijacker); ok {
				c, buf, _ := hj.Hijack()
				fmt.Fprintf(buf, "HTTP/1.1 %d %s\r\nContent-Type: text/plain\r\nContent-Length: 64\r\n\r\nabcde", st, http.StatusText(st))
				buf.Flush()
				c.Close()
				return
			}
		}
		if (st == 429 || st == 413 || st == 503) && seq%2 == 0 {
			// (servers add this to "try again later" answers; what the uploader does
			// with a report depends on the status class alone)
			w.Header().Set("Retry-After", "120")
		}
		w.WriteHeader(st)
	}))
	return s
}

func (s *fakeSrv) requests() []reqRec {
	s.mu.Lock()
	defer s.mu.Unlock()
	return append([]reqRec(nil), s.reqs...)
}

func (s *fakeSrv) close() { s.srv.Close() }

// ---------------------------------------------------------------- uploader construction

func toTelemetryConfig(c *verifref.UploadConfig) *telemetry.UploadConfig {
	b, err := json.Marshal(c)
	if err != nil {
		panic(err)
	}
	var t telemetry.UploadConfig
	if err := json.Unmarshal(b, &t); err != nil {
		panic(err)
	}
	return &t
}

// mkUploader builds an uploader the way newUploader does, without the config
// download (the configuration is given).
func mkUploader(d telemetry.Dir, cfg *verifref.UploadConfig, version string, url string, start time.Time) *uploader {
	return &uploader{
		config:          toTelemetryConfig(cfg),
		configVersion:   version,
		dir:             d,
		uploadServerURL: url,
		startTime:       start,
		logger:          log.New(vfLogSink(), "", 0),
	}
}

// forceX makes the next crypto/rand reads of the code under test yield a
// report X of exactly x (x in [0,1)).
func forceX(x float64) {
	f := (x + 1) / 2 // Frexp(f) = (f, 0) for f in [0.5,1): X = f*2-1 = x
	h := func(b []byte) bool {
		if len(b) != 8 {
			return false
		}
		binary.LittleEndian.PutUint64(b, math.Float64bits(f))
		return true
	}
	verifrt.RandHook.Store(&h)
}

func unforceX() { verifrt.RandHook.Store(nil) }

func readReport(p string) (*telemetry.Report, []byte, error) {
	b, err := os.ReadFile(p)
	if err != nil {
		return nil, nil, err
	}
	var r telemetry.Report
	if err := json.Unmarshal(b, &r); err != nil {
		return nil, b, err
	}
	return &r, b, nil
}

// compareProgs compares report programs with reference data; builds without
// any counter are don't-care (their presence is not part of any property).
func compareProgs(got []*telemetry.ProgramReport, want []*verifref.ProgramData) string {
	var ds []string
	gm := map[verifref.Build]*telemetry.ProgramReport{}
	for _, p := range got {
		if p == nil {
			ds = append(ds, "nil program entry")
			continue
		}
		b := verifref.Build{Program: p.Program, Version: p.Version, GoVersion: p.GoVersion, GOOS: p.GOOS, GOARCH: p.GOARCH}
		if _, dup := gm[b]; dup {
			ds = append(ds, fmt.Sprintf("build %v appears twice", b))
		}
		gm[b] = p
	}
	wm := map[verifref.Build]*verifref.ProgramData{}
	for _, w := range want {
		wm[w.Build] = w
	}
	for b, w := range wm {
		g := gm[b]
		if g == nil {
			if len(w.Counters)+len(w.Stacks) > 0 {
				ds = append(ds, fmt.Sprintf("missing build %v", b))
			}
			continue
		}
		ds = append(ds, diffMap("counter", b, g.Counters, w.Counters)...)
		ds = append(ds, diffMap("stack", b, g.Stacks, w.Stacks)...)
	}
	for b, g := range gm {
		if _, ok := wm[b]; !ok {
			if len(g.Counters)+len(g.Stacks) > 0 {
				ds = append(ds, fmt.Sprintf("unexpected build %v with %d counters", b, len(g.Counters)+len(g.Stacks)))
			} else {
				ds = append(ds, fmt.Sprintf("unexpected (empty) build %v", b))
			}
		}
	}
	sort.Strings(ds)
	if len(ds) > 6 {
		ds = append(ds[:6], fmt.Sprintf("… %d more", len(ds)-6))
	}
	return strings.Join(ds, "; ")
}

// jsonText is how encoding/json renders s: every byte that is not part of a
// valid UTF-8 sequence becomes one U+FFFD.
func jsonText(s string) string {
	if utf8.ValidString(s) {
		return s
	}
	var b strings.Builder
	for i := 0; i < len(s); {
		r, n := utf8.DecodeRuneInString(s[i:])
		if r == utf8.RuneError && n == 1 {
			b.WriteRune(utf8.RuneError)
		} else {
			b.WriteString(s[i : i+n])
		}
		i += n
	}
	return b.String()
}

func validUTF8Only(m map[string]uint64) map[string]uint64 {
	for k := range m {
		if !utf8.ValidString(k) {
			delete(m, k)
		}
	}
	return m
}

func diffMap(kind string, b verifref.Build, got, want0 map[string]int64) []string {
	var ds []string
	// JSON renders bytes that are not valid UTF-8 as U+FFFD: that is how such a
	// local name appears in a report
	want := map[string]int64{}
	for k, v := range want0 {
		want[jsonText(k)] += v
	}
	for k, v := range want {
		if g, ok := got[k]; !ok {
			ds = append(ds, fmt.Sprintf("%s %q missing for %s@%s", kind, k, b.Program, b.Version))
		} else if g != v {
			ds = append(ds, fmt.Sprintf("%s %q = %d, want %d (%s@%s)", kind, k, g, v, b.Program, b.Version))
		}
	}
	for k := range got {
		if _, ok := want[k]; !ok {
			ds = append(ds, fmt.Sprintf("%s %q not expected for %s@%s", kind, k, b.Program, b.Version))
		}
	}
	return ds
}

// vfLogSink: the uploader's log is discarded unless VERIF_DEBUG is set (replays).
func vfLogSink() io.Writer {
	if os.Getenv("VERIF_DEBUG") != "" {
		return os.Stdout
	}
	return io.Discard
}
