//go:build verif

package upload

import (
	"encoding/json"
	"fmt"
	"os"
	"path/filepath"
	"testing"
	"time"

	"golang.org/x/telemetry/internal/verifref"
	"golang.org/x/telemetry/internal/verifrt"
)

// C11 (uploader leg): produce, under generated configurations with all rates 1,
// what the uploader uploads for generated local data, and hand configuration,
// data and verdicts to the server and viewer legs through files.

type c11File struct {
	Build  verifref.Build    `json:"build"`
	Meta   map[string]string `json:"meta"`
	Counts map[string]uint64 `json:"counts"` // expanded names, as the file decoder returns them
}

type c11Kept struct {
	Emitted  bool            `json:"emitted"`
	Counters map[string]bool `json:"counters"`
}

type c11Case struct {
	ID     int                    `json:"id"`
	Config *verifref.UploadConfig `json:"config"`
	Files  []c11File              `json:"files"`
	Posted []string               `json:"posted"`
	Kept   []c11Kept              `json:"kept"`
	Week   string                 `json:"week"`
}

func TestVerifC11Uploader(t *testing.T) {
	const check = "C11.uploader"
	res := verifrt.NewResult(check)
	res.Rule = "configurations (GOOS/GOARCH/Go-version lists, programs, versions, bucketed counters, stacks; all rates 1, no sampling) and local data (1-3 builds drawn so that each of the five build fields is individually inside or outside the configuration; approved names, near-misses, stacks) are run through the real uploader against a local server; configuration, data, posted bodies and per-item verdicts (program emitted, counter kept) are handed to the server and viewer legs. Oracle here: the uploader's verdicts equal the documented configuration semantics (program build = all five fields listed). distinct = cases with at least one posted report"
	share := os.Getenv("VERIF_SHARE")
	if share == "" {
		share = verifrt.OutDir()
	}
	os.MkdirAll(filepath.Join(share, "c11"), 0o755)
	out, _ := os.Create(filepath.Join(share, "c11", "cases.jsonl"))
	defer out.Close()
	enc := json.NewEncoder(out)
	base := vtmp("c11-")
	defer os.RemoveAll(base)
	n := verifrt.Scale(300, 6000)
	start := day(2024, 4, 10).Add(3 * time.Hour)
	end := day(2024, 4, 8)
	week := end.Format("2006-01-02")
	for i := 0; i < n; i++ {
		if !verifrt.WantCase(check, i) {
			continue
		}
		rnd := verifrt.NewRand(verifrt.Seed(), fmt.Sprintf("%s/%d", check, i))
		cfg := genConfig(rnd)
		cfg.SampleRate = 0
		for _, p := range cfg.Programs {
			for k := range p.Counters {
				p.Counters[k].Rate = 1
			}
			for k := range p.Stacks {
				p.Stacks[k].Rate = 1
			}
		}
		td := newTdir(base)
		on := "on 2020-01-01"
		td.setMode(&on)
		srv := newFakeSrv()
		cs := c11Case{ID: i, Config: cfg, Week: week}
		nb := 1 + rnd.Intn(3)
		seen := map[verifref.Build]bool{}
		for k := 0; k < nb; k++ {
			b := genBuild(rnd)
			// bias towards approved builds with exactly one field perturbed
			if len(cfg.Programs) > 0 && rnd.Intn(3) != 0 {
				pc := cfg.Programs[rnd.Intn(len(cfg.Programs))]
				b.Program = pc.Name
				if len(pc.Versions) > 0 {
					b.Version = verifrt.Pick(rnd, pc.Versions)
				}
				if len(cfg.GoVersion) > 0 {
					b.GoVersion = verifrt.Pick(rnd, cfg.GoVersion)
				}
				if len(cfg.GOOS) > 0 {
					b.GOOS = verifrt.Pick(rnd, cfg.GOOS)
				}
				if len(cfg.GOARCH) > 0 {
					b.GOARCH = verifrt.Pick(rnd, cfg.GOARCH)
				}
				switch rnd.Intn(7) {
				case 0:
					b.GOOS = verifrt.Pick(rnd, vocabOS)
				case 1:
					b.GOARCH = verifrt.Pick(rnd, vocabArch)
				case 2:
					b.GoVersion = verifrt.Pick(rnd, vocabGo)
				case 3:
					b.Version = verifrt.Pick(rnd, versionsOf(b.Program))
				case 4:
					b.Program = verifrt.Pick(rnd, vocabPrograms)
				}
			}
			if k > 0 && len(cs.Files) > 0 && rnd.Intn(3) == 0 {
				// a twin of an earlier build of this case, differing in exactly one
				// identity field (the same tool rebuilt with another toolchain, ...)
				b = cs.Files[rnd.Intn(len(cs.Files))].Build
				switch rnd.Intn(5) {
				case 0:
					b.GOOS = verifrt.Pick(rnd, vocabOS)
				case 1:
					b.GOARCH = verifrt.Pick(rnd, vocabArch)
				case 2, 3:
					b.GoVersion = verifrt.Pick(rnd, vocabGo)
				default:
					b.Version = verifrt.Pick(rnd, versionsOf(b.Program))
				}
				res.Hit("twin-build")
			}
			if seen[b] {
				continue
			}
			seen[b] = true
			f := &ufile{Build: b, Kind: "ok", End: end, Begin: end.Add(-5 * 24 * time.Hour), Counts: validUTF8Only(localNames(rnd, fmt.Sprintf("CAN%d", i)))} // (the legs are chained through JSON files, which cannot carry other names)
			if i%25 == 13 && k == 0 && len(cfg.Programs) > 0 {
				// a week with many distinct traces of one approved stack counter (a
				// tool that reported many different bugs): a large, fully approved report
				pc := cfg.Programs[0]
				if len(pc.Stacks) == 0 {
					pc.Stacks = append(pc.Stacks, verifref.CounterConfig{Name: "gopls/bug", Rate: 1})
				}
				f.Build = verifref.Build{Program: pc.Name, Version: "devel", GoVersion: "devel", GOOS: "linux", GOARCH: "amd64"}
				if len(pc.Versions) > 0 {
					f.Build.Version = pc.Versions[0]
				}
				if len(cfg.GoVersion) > 0 {
					f.Build.GoVersion = cfg.GoVersion[0]
				}
				if len(cfg.GOOS) > 0 {
					f.Build.GOOS = cfg.GOOS[0]
				}
				if len(cfg.GOARCH) > 0 {
					f.Build.GOARCH = cfg.GOARCH[0]
				}
				b = f.Build
				seen[b] = true
				ntr := []int{40, 95, 130, 250}[(i/25)%4]
				for tr := 0; tr < ntr; tr++ {
					nme := pc.Stacks[0].Name
					for fr := 0; len(nme) < 800; fr++ {
						nme += fmt.Sprintf("\nexample.com/pkg%d/sub%d.(*T%d).method%d:+%d,+0x%x", tr, fr, fr, tr, fr+1, 16*fr+tr)
					}
					f.Counts[nme] = uint64(1 + tr)
				}
				res.Hit(fmt.Sprintf("many-traces:%d", ntr))
			}
			f.setName(k)
			td.put(f, rnd)
			exp := map[string]uint64{}
			for nme, v := range f.Counts {
				exp[verifref.ExpandStack(nme)] = v
			}
			cs.Files = append(cs.Files, c11File{Build: b, Counts: exp, Meta: map[string]string{"Program": b.Program, "Version": b.Version, "GoVersion": b.GoVersion, "GOOS": b.GOOS, "GOARCH": b.GOARCH,
				"TimeBegin": rfc(f.Begin), "TimeEnd": rfc(f.End)}})
		}
		forceX(0.5)
		u := mkUploader(td.dir, cfg, "v1.2.3", srv.srv.URL, start)
		pv, stack := guarded(func() { u.Run() })
		unforceX()
		res.Eval()
		if pv != nil {
			res.Violate("uploader-panic", fmt.Sprintf("%v\n%.800s", pv, stack), verifrt.CaseReplay(i, nil))
			srv.close()
			os.RemoveAll(td.root)
			continue
		}
		reqs := srv.requests()
		var rep struct{ Programs []*jsonProg }
		for _, q := range reqs {
			cs.Posted = append(cs.Posted, string(q.Body))
			json.Unmarshal(q.Body, &rep)
		}
		if len(reqs) > 0 {
			res.Distinct(fmt.Sprint(i))
		}
		for _, f := range cs.Files {
			k := c11Kept{Counters: map[string]bool{}}
			for _, p := range rep.Programs {
				if p != nil && (verifref.Build{Program: p.Program, Version: p.Version, GoVersion: p.GoVersion, GOOS: p.GOOS, GOARCH: p.GOARCH}) == f.Build {
					k.Emitted = true
					for c := range p.Counters {
						k.Counters[c] = true
					}
					for c := range p.Stacks {
						k.Counters[c] = true
					}
				}
			}
			cs.Kept = append(cs.Kept, k)
			// the documented semantics: a program build is approved iff all five fields are listed
			want := cfg.BuildApproved(f.Build.Program, f.Build.Version, f.Build.GoVersion, f.Build.GOOS, f.Build.GOARCH)
			rp := verifrt.CaseReplay(i, map[string]any{"build": f.Build, "config_goos": cfg.GOOS, "config_goarch": cfg.GOARCH})
			if len(reqs) > 0 && k.Emitted != want {
				field := "other"
				switch {
				case !contains(cfg.GOOS, f.Build.GOOS):
					field = "goos"
				case !contains(cfg.GOARCH, f.Build.GOARCH):
					field = "goarch"
				}
				res.Violate("uploader-build-verdict:"+field, fmt.Sprintf("uploader emitted=%v for build %+v; by the configuration (GOOS %v, GOARCH %v) the build is approved=%v", k.Emitted, f.Build, cfg.GOOS, cfg.GOARCH, want), rp)
			}
			if want {
				res.Hit("build-approved")
			} else if !contains(cfg.GOOS, f.Build.GOOS) || !contains(cfg.GOARCH, f.Build.GOARCH) {
				res.Hit("build-outside-os-arch")
			} else {
				res.Hit("build-outside-other")
			}
		}
		enc.Encode(cs)
		if i < 2 {
			res.Sample(map[string]any{"case": i, "builds": len(cs.Files), "posted": len(cs.Posted)})
		}
		srv.close()
		os.RemoveAll(td.root)
	}
	res.Require("build-approved", "build-outside-os-arch", "build-outside-other", "twin-build", "many-traces:95", "many-traces:130")
	if err := res.Write(); err != nil {
		t.Fatal(err)
	}
}

func contains(xs []string, s string) bool {
	for _, x := range xs {
		if x == s {
			return true
		}
	}
	return false
}
