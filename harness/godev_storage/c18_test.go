//go:build verif

package storage

import (
	"context"
	"errors"
	"fmt"
	"io"
	"os"
	"path/filepath"
	"sort"
	"strings"
	"sync/atomic"
	"testing"
	"time"

	"golang.org/x/telemetry/internal/verifrt"
)

// C18: file-system buckets confine, round-trip and list objects correctly.

func vtmp(prefix string) string {
	base := os.Getenv("VERIF_TMP")
	if base == "" {
		base = os.TempDir()
	}
	d, err := os.MkdirTemp(base, prefix)
	if err != nil {
		panic(err)
	}
	return d
}

var c18Components = []string{"2024-01-01", "2024-01-02", "2024-01", "2024", "a", "ab", "abc", "b", "0.5.json", "0.25.json", "1e-05.json", "x=y", "data_1", "v1.2.3", "ünï", "linux", "amd64", "prefix", "pre", "p", "local.json", ".hidden", "UPPER", "with space", "q-r", "7.json"}

// c18Names returns a pool of object names such that no name is a directory
// prefix of another (a file system cannot hold both).
func c18Names(r *verifrt.Rand, n int) []string {
	var names []string
	isDirOf := func(a, b string) bool { return strings.HasPrefix(b, a+"/") }
	for tries := 0; len(names) < n && tries < n*20; tries++ {
		depth := 1 + r.Intn(5)
		parts := make([]string, depth)
		for i := range parts {
			parts[i] = c18Components[r.Intn(len(c18Components))]
		}
		name := strings.Join(parts, "/")
		ok := true
		for _, o := range names {
			if o == name || isDirOf(o, name) || isDirOf(name, o) {
				ok = false
				break
			}
		}
		if ok {
			names = append(names, name)
		}
	}
	return names
}

func listRegular(root string) map[string]int64 {
	m := map[string]int64{}
	filepath.Walk(root, func(p string, info os.FileInfo, err error) error {
		if err == nil && info.Mode().IsRegular() {
			rel, _ := filepath.Rel(root, p)
			m[rel] = info.Size()
		}
		return nil
	})
	return m
}

func TestVerifC18(t *testing.T) {
	const check = "C18.model"
	res := verifrt.NewResult(check)
	res.Rule = "random sequences (5-200 ops) of write / overwrite with longer, shorter and empty content / read / read-absent / list(prefix) / Copy / listing and reading everything else while one object is half-written / two writers open at once (each closed twice, as the services do) / two listings with overlapping lifetimes, over a pool of slash-separated names (1-5 levels, plus siblings that differ by .tmp ~ .part .lock .swp suffixes or a leading dot; components with dots, dashes, '=', spaces, unicode, date-like; no name a directory-prefix of another); prefixes: empty, every component boundary, mid-component, whole names, non-matching. Oracle: in-memory map; after every op every regular file under the scratch root lies at <dir>/<bucket>/<name> and nothing else exists. distinct = distinct sequences; non-trivial = sequence overwrote at least one object and listed with a non-empty prefix"
	// (child batches: an operation that takes the test process down with it, e.g. a
	// listing that panics because a write removed the bucket's directory, is a
	// verdict and not a failure of the harness)
	const nb = 4
	parent := res
	verifrt.RunBatches("TestVerifC18", parent, nb, 0, 40*time.Minute, "storage-operation-killed-the-process", func(batch int, res *verifrt.Result, cur *verifrt.Current) {
		base := vtmp("c18-")
		defer os.RemoveAll(base)
		ctx := context.Background()
		n := verifrt.Scale(500, 30000)
		for i := 0; i < n; i++ {
			if !verifrt.WantCase(check, i) || i%nb != batch {
				continue
			}
			if cur != nil {
				cur.Set(fmt.Sprintf("case %d", i))
			}
			rnd := verifrt.NewRand(verifrt.Seed(), fmt.Sprintf("%s/%d", check, i))
			root, _ := os.MkdirTemp(base, "s")
			bucketName := verifrt.Pick(rnd, []string{"local-telemetry-uploaded", "b", "x.y", "merged"})
			placeDir := bucketName
			if i%5 == 4 {
				// the bucket's directory entry is a symbolic link to a directory (storage
				// mounted elsewhere): objects live in the target, and are listed as ever
				placeDir = "zz-volume"
				os.Mkdir(filepath.Join(root, placeDir), 0o777)
				if err := os.Symlink(placeDir, filepath.Join(root, bucketName)); err == nil {
					res.Hit("bucket-directory-is-a-symlink")
				} else {
					placeDir = bucketName
				}
			}
			bh, err := NewFSBucket(ctx, root, bucketName)
			if err != nil {
				res.Violate("new-bucket", err.Error(), verifrt.CaseReplay(i, nil))
				continue
			}
			other, _ := NewFSBucket(ctx, root, "other-bucket")
			names := c18Names(rnd, 3+rnd.Intn(12))
			// sibling names that differ by a suffix or prefix an implementation might
			// use for scratch files: they are ordinary object names
			for _, n := range names[:1+rnd.Intn(3)] {
				switch rnd.Intn(3) {
				case 0:
					names = append(names, n+verifrt.Pick(rnd, []string{".tmp", "~", ".part", ".new", ".bak", ".lock", ".swp", ".tmp.tmp", ".1"}))
				case 1:
					if j := strings.LastIndex(n, "/"); j >= 0 {
						names = append(names, n[:j+1]+"."+n[j+1:]+verifrt.Pick(rnd, []string{".tmp", "", ".swp"}))
					} else {
						names = append(names, "."+n+".tmp")
					}
				}
			}
			model := map[string][]byte{}
			nops := verifrt.Pick(rnd, []int{5, 20, 60, 200})
			var sig strings.Builder
			overwrote, prefixed := false, false
			res.Eval()
			bad := false
			for op := 0; op < nops && !bad; op++ {
				rp := verifrt.CaseReplay(i, map[string]any{"op": op, "ops": sig.String()})
				name := names[rnd.Intn(len(names))]
				switch k := rnd.Intn(13); {
				case k == 12: // two listings with overlapping lifetimes
					pa, pb := "", name[:rnd.Intn(len(name)+1)]
					if rnd.Bool() {
						pa, pb = pb, pa
					}
					wantOf := func(prefix string) string {
						var w []string
						for n := range model {
							if strings.HasPrefix(n, prefix) {
								w = append(w, n)
							}
						}
						sort.Strings(w)
						return strings.Join(w, "\x00")
					}
					drain := func(it ObjectIterator, first []string) string {
						got := append([]string(nil), first...)
						for k := 0; k < 100000; k++ {
							o, err := it.Next()
							if err != nil {
								break
							}
							got = append(got, o)
						}
						sort.Strings(got)
						return strings.Join(got, "\x00")
					}
					itA := bh.Objects(ctx, pa)
					var firstA []string
					if o, err := itA.Next(); err == nil {
						firstA = append(firstA, o)
					}
					itB := bh.Objects(ctx, pb)
					gotB := drain(itB, nil)
					gotA := drain(itA, firstA)
					if gotA != wantOf(pa) || gotB != wantOf(pb) {
						res.Violate("list-mismatch:overlapping-listings", fmt.Sprintf("two listings in progress at once: Objects(%q) gave %q (stored: %q), Objects(%q) gave %q (stored: %q)", pa, gotA, wantOf(pa), pb, gotB, wantOf(pb)), rp)
						bad = true
					}
					res.Hit("overlapping-listings")
					fmt.Fprintf(&sig, "L(%s|%s);", pa, pb)
				case k == 11: // two writers open at the same time, closed the way the services do (twice)
					other := names[rnd.Intn(len(names))]
					if other == name {
						break
					}
					ca, cb := rnd.Bytes(rnd.Intn(400)), rnd.Bytes(rnd.Intn(400))
					wa, err1 := bh.Object(name).NewWriter(ctx)
					wb, err2 := bh.Object(other).NewWriter(ctx)
					if err1 != nil || err2 != nil {
						res.Violate("write-failed", fmt.Sprintf("opening two writers: %v / %v", err1, err2), rp)
						bad = true
						break
					}
					wa.Write(ca[:len(ca)/2])
					wb.Write(cb[:len(cb)/2])
					wa.Write(ca[len(ca)/2:])
					wb.Write(cb[len(cb)/2:])
					e1 := wa.Close()
					wa.Close() // (handlers defer a Close and also close explicitly)
					e2 := wb.Close()
					wb.Close()
					if e1 != nil || e2 != nil {
						res.Violate("write-failed", fmt.Sprintf("closing two writers: %v / %v", e1, e2), rp)
						bad = true
						break
					}
					if _, ok := model[name]; ok {
						overwrote = true
					}
					model[name], model[other] = ca, cb
					for _, n := range []string{name, other} {
						rd, err := bh.Object(n).NewReader(ctx)
						if err != nil {
							res.Violate("read-failed", fmt.Sprintf("reading %q after two interleaved writers: %v", n, err), rp)
							bad = true
							break
						}
						got, _ := io.ReadAll(rd)
						rd.Close()
						if string(got) != string(model[n]) {
							res.Violate("roundtrip:two-writers", fmt.Sprintf("two writers open at once: object %q reads %d bytes, written %d (contents differ)", n, len(got), len(model[n])), rp)
							bad = true
						}
					}
					res.Hit("two-writers-at-once")
					fmt.Fprintf(&sig, "WW(%s,%s);", name, other)
				case k == 10: // a write in progress while the bucket is listed and read
					content := rnd.Bytes(rnd.Intn(2000))
					w, err := bh.Object(name).NewWriter(ctx)
					if err != nil {
						res.Violate("write-failed", fmt.Sprintf("opening a writer for %q: %v", name, err), rp)
						bad = true
						break
					}
					half := len(content) / 2
					w.Write(content[:half])
					it := bh.Objects(ctx, "")
					seen := map[string]bool{}
					for k := 0; k < 100000; k++ {
						o, err := it.Next()
						if err != nil {
							break
						}
						seen[o] = true
					}
					for n := range model {
						if !seen[n] && n != name {
							res.Violate("list-mismatch:during-write", fmt.Sprintf("while %q is being written, stored object %q is missing from the listing", name, n), rp)
							bad = true
						}
					}
					for o := range seen {
						if _, ok := model[o]; !ok && o != name {
							res.Violate("list-mismatch:during-write", fmt.Sprintf("while %q is being written, the listing names %q which nobody stored", name, o), rp)
							bad = true
						}
					}
					for n, c := range model {
						if n == name {
							continue
						}
						rd, err := bh.Object(n).NewReader(ctx)
						if err != nil {
							res.Violate("read-failed:during-write", fmt.Sprintf("while %q is being written, reading %q: %v", name, n, err), rp)
							bad = true
							break
						}
						got, _ := io.ReadAll(rd)
						rd.Close()
						if string(got) != string(c) {
							res.Violate("roundtrip:during-write", fmt.Sprintf("while %q is being written, object %q reads %d bytes, stored %d", name, n, len(got), len(c)), rp)
							bad = true
						}
					}
					w.Write(content[half:])
					if err := w.Close(); err != nil {
						res.Violate("write-failed", fmt.Sprintf("closing the writer of %q: %v", name, err), rp)
						bad = true
						break
					}
					if _, ok := model[name]; ok {
						overwrote = true
					}
					model[name] = content
					res.Hit("list-during-write")
					fmt.Fprintf(&sig, "W(%s,%d);", name, len(content))
				case k < 4 && rnd.Intn(6) == 0 && strings.Contains(name, "/"):
					// a write to a name that is a directory of stored objects (or would be
					// one): a file system cannot hold it; whatever the outcome of that write,
					// the objects below it stay what they are (judged by the placement check
					// after every op)
					if _, stored := model[name]; !stored {
						break
					}
					dirName := name[:strings.LastIndex(name, "/")]
					if rnd.Bool() {
						dirName = name[:strings.Index(name, "/")]
					}
					if _, isObj := model[dirName]; isObj {
						break
					}
					if w, err := bh.Object(dirName).NewWriter(ctx); err == nil {
						w.Write([]byte("x"))
						w.Close()
						if fi, serr := os.Stat(filepath.Join(root, placeDir, filepath.FromSlash(dirName))); serr == nil && fi.Mode().IsRegular() {
							model[dirName] = []byte("x")
						}
					}
					res.Hit("write-to-directory-of-objects")
					fmt.Fprintf(&sig, "wd(%s);", dirName)
				case k < 4: // write / overwrite
					var content []byte
					switch rnd.Intn(4) {
					case 0:
						content = nil
					case 1:
						content = rnd.Bytes(1 + rnd.Intn(8))
					default:
						content = rnd.Bytes(rnd.Intn(3000))
					}
					if old, ok := model[name]; ok {
						overwrote = true
						if len(content) < len(old) {
							res.Hit("overwrite-shorter")
						}
					}
					w, err := bh.Object(name).NewWriter(ctx)
					if err == nil {
						_, err = w.Write(content)
						if cerr := w.Close(); err == nil {
							err = cerr
						}
						if rnd.Bool() {
							w.Close() // closed twice, as by a deferred and an explicit Close
						}
					}
					if err != nil {
						res.Violate("write-failed", fmt.Sprintf("writing %q: %v", name, err), rp)
						bad = true
						break
					}
					model[name] = content
					fmt.Fprintf(&sig, "w(%s,%d);", name, len(content))
				case k < 6: // read
					if _, stored := model[name]; stored && rnd.Intn(4) == 0 {
						// an absent object whose name is a directory of stored objects, or
						// lies below a stored object: ordinary names, never written
						absent, kind := name+"/"+verifrt.Pick(rnd, []string{"y", "x.json", "2024-01-01.json"}), "below-an-object"
						if j := strings.LastIndex(name, "/"); j > 0 && rnd.Bool() {
							absent, kind = name[:j], "directory-of-objects"
							if k := strings.Index(name, "/"); k != j && rnd.Bool() {
								absent = name[:k]
							}
						}
						if _, isObj := model[absent]; !isObj {
							rd, err := bh.Object(absent).NewReader(ctx)
							res.Hit("read-absent:" + kind)
							if !errors.Is(err, ErrObjectNotExist) {
								res.Violate("absent-not-notexist:"+kind, fmt.Sprintf("reading absent %q (stored: %q): reader=%v err=%v", absent, name, rd != nil, err), rp)
								bad = true
							}
							if rd != nil {
								rd.Close()
							}
							break
						}
					}
					rd, err := bh.Object(name).NewReader(ctx)
					want, ok := model[name]
					if !ok {
						res.Hit("read-absent")
						if !errors.Is(err, ErrObjectNotExist) {
							res.Violate("absent-not-notexist", fmt.Sprintf("reading absent %q: err=%v", name, err), rp)
							bad = true
						}
						if rd != nil {
							rd.Close()
						}
						break
					}
					if err != nil {
						res.Violate("read-failed", fmt.Sprintf("reading %q: %v", name, err), rp)
						bad = true
						break
					}
					got, _ := io.ReadAll(rd)
					rd.Close()
					if string(got) != string(want) {
						res.Violate("roundtrip", fmt.Sprintf("object %q: read %d bytes, last written %d bytes (contents differ)", name, len(got), len(want)), rp)
						bad = true
					}
					fmt.Fprintf(&sig, "r(%s);", name)
				case k < 7 && rnd.Intn(4) == 0: // copy from an object that does not exist
					src := "never/stored/" + names[rnd.Intn(len(names))]
					err := Copy(ctx, bh.Object(name), other.Object(src))
					res.Hit("copy-from-absent-source")
					if err == nil {
						res.Violate("copy-of-absent-succeeded", fmt.Sprintf("Copy(%q <- absent %q) reported success", name, src), rp)
						bad = true
						break
					}
					// the failed copy stored nothing: the destination is what it was
					rd, rerr := bh.Object(name).NewReader(ctx)
					if want, ok := model[name]; ok {
						var got []byte
						if rerr == nil {
							got, _ = io.ReadAll(rd)
							rd.Close()
						}
						if rerr != nil || string(got) != string(want) {
							res.Violate("roundtrip:after-failed-copy", fmt.Sprintf("object %q: %d bytes had been written; after a copy from an absent source failed it reads %d bytes (err %v)", name, len(want), len(got), rerr), rp)
							bad = true
						}
					} else {
						if rd != nil {
							rd.Close()
						}
						if !errors.Is(rerr, ErrObjectNotExist) {
							res.Violate("absent-not-notexist:after-failed-copy", fmt.Sprintf("object %q was never stored; after a copy from an absent source failed, reading it gives err=%v", name, rerr), rp)
							bad = true
						}
					}
					fmt.Fprintf(&sig, "cx(%s);", name)
				case k < 7: // copy from another bucket
					src := names[rnd.Intn(len(names))]
					content := rnd.Bytes(rnd.Intn(500))
					w, err := other.Object(src).NewWriter(ctx)
					if err != nil {
						break
					}
					w.Write(content)
					w.Close()
					if old, ok := model[name]; ok && len(content) < len(old) {
						res.Hit("overwrite-shorter")
					}
					if rnd.Intn(3) == 0 {
						// the destination already holds another object of the same length,
						// written after the source: the copy replaces it all the same
						oc := rnd.Bytes(len(content))
						if w2, err := bh.Object(name).NewWriter(ctx); err == nil {
							w2.Write(oc)
							w2.Close()
							model[name] = oc
							res.Hit("copy-over-newer-object-of-same-length")
						}
					}
					if err := Copy(ctx, bh.Object(name), other.Object(src)); err != nil {
						res.Violate("copy-failed", err.Error(), rp)
						bad = true
						break
					}
					model[name] = content
					fmt.Fprintf(&sig, "c(%s);", name)
				default: // list
					var prefix string
					switch rnd.Intn(6) {
					case 0:
						prefix = ""
					case 1: // component boundary of an existing or pooled name
						parts := strings.Split(name, "/")
						prefix = strings.Join(parts[:1+rnd.Intn(len(parts))], "/")
						if rnd.Bool() && prefix != name {
							prefix += "/"
						}
					case 2: // mid-component
						prefix = name[:rnd.Intn(len(name)+1)]
					case 3:
						prefix = name
					case 4:
						prefix = "nomatch/" + name
					default:
						prefix = c18Components[rnd.Intn(len(c18Components))][:1]
					}
					if rnd.Intn(5) == 0 {
						// a listing under a context that is cancelled before it starts or while
						// it runs: it may fail, but if it ends without an error it is complete
						cctx := &c18Ctx{Context: ctx, after: int64(rnd.Intn(12))}
						it := bh.Objects(cctx, prefix)
						var got []string
						var lerr error
						for {
							n, err := it.Next()
							if err != nil {
								if !errors.Is(err, ErrObjectIteratorDone) {
									lerr = err
								}
								break
							}
							got = append(got, n)
						}
						res.Hit("listing-under-cancelled-context")
						if lerr == nil {
							var want []string
							for n := range model {
								if strings.HasPrefix(n, prefix) {
									want = append(want, n)
								}
							}
							sort.Strings(want)
							sort.Strings(got)
							if strings.Join(got, "\x00") != strings.Join(want, "\x00") {
								res.Violate("list-mismatch:cancelled-context", fmt.Sprintf("listing %q under a context cancelled after %d polls ended without an error with %d of %d names", prefix, cctx.after, len(got), len(want)), rp)
								bad = true
							}
						}
					}
					if prefix != "" {
						prefixed = true
					}
					var want []string
					for n := range model {
						if strings.HasPrefix(n, prefix) {
							want = append(want, n)
						}
					}
					sort.Strings(want)
					it := bh.Objects(ctx, prefix)
					var got []string
					for k := 0; k < 100000; k++ {
						o, err := it.Next()
						if errors.Is(err, ErrObjectIteratorDone) {
							break
						}
						if err != nil {
							res.Violate("list-error", err.Error(), rp)
							bad = true
							break
						}
						got = append(got, o)
					}
					sort.Strings(got)
					if strings.Join(got, "\x00") != strings.Join(want, "\x00") {
						res.Violate("list-mismatch", fmt.Sprintf("Objects(%q) = %q, stored names with that prefix: %q", prefix, got, want), rp)
						bad = true
					}
					res.Hit("list")
					if strings.Count(prefix, "/") == 0 && len(want) > 0 && strings.Count(want[0], "/") >= 2 {
						res.Hit("list-deeply-nested")
					}
					fmt.Fprintf(&sig, "l(%s);", prefix)
				}
				// confinement: every regular file of the main bucket's model is where it should be, nothing else
				files := listRegular(root)
				for n, c := range model {
					rel := filepath.Join(placeDir, filepath.FromSlash(n))
					if sz, ok := files[rel]; !ok || sz != int64(len(c)) {
						res.Violate("placement", fmt.Sprintf("object %q should be the file %s (%d bytes); on disk: present=%v size=%d", n, rel, len(c), ok, sz), rp)
						bad = true
					}
					delete(files, rel)
				}
				for rel := range files {
					if !strings.HasPrefix(rel, "other-bucket"+string(filepath.Separator)) {
						res.Violate("stray-file", fmt.Sprintf("unexpected file %s under the storage root", rel), rp)
						bad = true
					}
				}
			}
			if overwrote && prefixed {
				res.Distinct(sig.String())
			}
			if i < 2 {
				s := sig.String()
				if len(s) > 300 {
					s = s[:300]
				}
				res.Sample(map[string]any{"case": i, "names": names, "ops": s})
			}
			os.RemoveAll(root)
		}
	})
	res.Require("bucket-directory-is-a-symlink", "two-writers-at-once", "overlapping-listings", "list-during-write", "write-to-directory-of-objects", "copy-from-absent-source", "copy-over-newer-object-of-same-length", "listing-under-cancelled-context", "overwrite-shorter", "read-absent", "read-absent:below-an-object", "read-absent:directory-of-objects", "list", "list-deeply-nested")
	if err := res.Write(); err != nil {
		t.Fatal(err)
	}
}

// c18Ctx is a context that reports cancellation from its after-th poll on.
type c18Ctx struct {
	context.Context
	after int64
	polls atomic.Int64
}

func (c *c18Ctx) Err() error {
	if c.polls.Add(1) > c.after {
		return context.Canceled
	}
	return nil
}

func (c *c18Ctx) Done() <-chan struct{} {
	ch := make(chan struct{})
	if c.polls.Load() >= c.after {
		close(ch)
	}
	return ch
}
