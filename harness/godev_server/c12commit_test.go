//go:build verif

package main

import (
	"bytes"
	"context"
	"encoding/json"
	"fmt"
	"io"
	"net/http"
	"os"
	"path/filepath"
	"sync/atomic"
	"testing"

	"golang.org/x/telemetry/godev/internal/storage"
	tconfig "golang.org/x/telemetry/internal/config"
	"golang.org/x/telemetry/internal/verifrt"
)

// C12 (commit leg): "stores an object if and only if ..." also when storing
// fails. The upload handler runs over a bucket with the commit semantics of
// an object store: what is written becomes the object when the writer is
// closed, and that close can fail.

type c12CommitBucket struct {
	storage.BucketHandle
	failNext  atomic.Int32 // the next n commits fail
	failWrite atomic.Int32 // the next n writes fail
}

func (b *c12CommitBucket) Object(name string) storage.ObjectHandle {
	return &c12CommitObject{ObjectHandle: b.BucketHandle.Object(name), b: b}
}

type c12CommitObject struct {
	storage.ObjectHandle
	b *c12CommitBucket
}

func (o *c12CommitObject) NewWriter(ctx context.Context) (io.WriteCloser, error) {
	return &c12CommitWriter{o: o, ctx: ctx}, nil
}

type c12CommitWriter struct {
	o      *c12CommitObject
	ctx    context.Context
	buf    bytes.Buffer
	closed bool
}

func (w *c12CommitWriter) Write(p []byte) (int, error) {
	if w.closed {
		return 0, os.ErrClosed
	}
	if w.o.b.failWrite.Load() > 0 {
		w.o.b.failWrite.Add(-1)
		return 0, fmt.Errorf("verif: injected write failure")
	}
	return w.buf.Write(p)
}

func (w *c12CommitWriter) Close() error {
	if w.closed {
		return os.ErrClosed
	}
	w.closed = true
	if w.o.b.failNext.Load() > 0 {
		w.o.b.failNext.Add(-1)
		return fmt.Errorf("verif: injected failure committing the object (nothing stored)")
	}
	iw, err := w.o.ObjectHandle.NewWriter(w.ctx)
	if err != nil {
		return err
	}
	if _, err := iw.Write(w.buf.Bytes()); err != nil {
		iw.Close()
		return err
	}
	return iw.Close()
}

func TestVerifC12Commit(t *testing.T) {
	const check = "C12.commit"
	res := verifrt.NewResult(check)
	res.Rule = "the upload handler over a commit-on-close bucket (the object exists once the writer's Close succeeded); valid reports are sent while the next write or the next commit is made to fail, then sent again. Oracle: an answer of 200 means the object <Week>/<X>.json exists and decodes to the report; a failed store is not answered 200 and leaves no object; the repeated request succeeds. distinct = reports; non-trivial = report has a program"
	base := vtmp("c12c-")
	defer os.RemoveAll(base)
	ctx := context.Background()
	fsb, err := storage.NewFSBucket(ctx, base, "uploaded")
	if err != nil {
		t.Fatal(err)
	}
	cb := &c12CommitBucket{BucketHandle: fsb}
	cfgPath := filepath.Join(base, "config.json")
	b, _ := json.Marshal(c12Cfg)
	os.WriteFile(cfgPath, b, 0o644)
	ucfg, err := tconfig.ReadConfig(cfgPath)
	if err != nil {
		t.Fatal(err)
	}
	mux := http.NewServeMux()
	mux.Handle("/upload/", handleUpload(ucfg, cb))
	srv := verifrt.NewHTTPServer(mux)
	defer srv.Close()
	post := func(rep *jreport) (int, string) {
		body, _ := json.Marshal(rep)
		resp, err := http.Post(srv.URL+"/upload/"+rep.Week, "application/json", bytes.NewReader(body))
		if err != nil {
			return 0, err.Error()
		}
		defer resp.Body.Close()
		rb, _ := io.ReadAll(io.LimitReader(resp.Body, 2000))
		return resp.StatusCode, string(rb)
	}
	stored := func(rep *jreport) bool {
		sb, err := os.ReadFile(filepath.Join(base, "uploaded", rep.Week, fmt.Sprintf("%g.json", rep.X)))
		if err != nil {
			return false
		}
		var got jreport
		if json.Unmarshal(sb, &got) != nil {
			return false
		}
		gb, _ := json.Marshal(normalize(&got))
		eb, _ := json.Marshal(normalize(rep))
		return bytes.Equal(gb, eb)
	}
	n := verifrt.Scale(300, 12000)
	for i := 0; i < n; i++ {
		if !verifrt.WantCase(check, i) {
			continue
		}
		rnd := verifrt.NewRand(verifrt.Seed(), fmt.Sprintf("%s/%d", check, i))
		rep := validReport(rnd)
		rep.Week = fmt.Sprintf("20%02d-%02d-%02d", 19+i%12, 1+(i/12)%12, 1+(i/144)%28)
		// (the object of this case does not exist yet: weeks repeat after 4032 cases)
		os.Remove(filepath.Join(base, "uploaded", rep.Week, fmt.Sprintf("%g.json", rep.X)))
		res.Eval()
		if len(rep.Programs) > 0 {
			res.Distinct(fmt.Sprint(i))
		}
		rp := verifrt.CaseReplay(i, map[string]any{"week": rep.Week, "x": rep.X})
		kind := verifrt.Pick(rnd, []string{"commit", "commit", "write", "none"})
		switch kind {
		case "commit":
			cb.failNext.Store(1)
		case "write":
			cb.failWrite.Store(1)
		}
		st, body := post(rep)
		cb.failNext.Store(0)
		cb.failWrite.Store(0)
		res.Hit("fault:" + kind)
		switch {
		case st == 200 && !stored(rep):
			res.Violate("acknowledged-without-object:"+kind, fmt.Sprintf("a valid report was answered 200 (%.100s) although storing it failed (%s): the object does not exist", body, kind), rp)
			continue
		case st != 200 && kind == "none":
			res.Violate("rejected-valid:commit-bucket", fmt.Sprintf("valid report answered %d: %.200s", st, body), rp)
			continue
		case st != 200 && stored(rep):
			res.Violate("object-despite-failure:"+kind, fmt.Sprintf("answered %d but the object exists", st), rp)
		}
		if kind != "none" {
			if st2, body2 := post(rep); st2 != 200 || !stored(rep) {
				res.Violate("repeat-after-failure", fmt.Sprintf("the repeated request was answered %d (%.100s), object stored=%v", st2, body2, stored(rep)), rp)
			} else {
				res.Hit("repeat-succeeds")
			}
		}
	}
	res.Require("fault:commit", "fault:write", "fault:none", "repeat-succeeds")
	if err := res.Write(); err != nil {
		t.Fatal(err)
	}
}
