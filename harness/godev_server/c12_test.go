//go:build verif

package main

import (
	"bytes"
	"context"
	"crypto/sha256"
	"encoding/hex"
	"encoding/json"
	"fmt"
	"io"
	"net/http"
	"net/http/httptest"
	"os"
	"path/filepath"
	"strings"
	"testing"
	"time"

	"golang.org/x/telemetry/godev/internal/config"
	"golang.org/x/telemetry/internal/verifref"
	"golang.org/x/telemetry/internal/verifrt"
)

// C12: the upload endpoint stores exactly the valid reports it is sent.

func vtmp(prefix string) string {
	base := os.Getenv("VERIF_TMP")
	if base == "" {
		base = os.TempDir()
	}
	d, err := os.MkdirTemp(base, prefix)
	if err != nil {
		panic(err)
	}
	return d
}

type srvEnv struct {
	root   string
	cfg    *config.Config
	ucfg   *verifref.UploadConfig
	srv    *httptest.Server
	client *http.Client
}

var c12Cfg = &verifref.UploadConfig{
	GOOS: []string{"linux", "darwin"}, GOARCH: []string{"amd64", "arm64"}, GoVersion: []string{"go1.21.5", "go1.22.1"}, SampleRate: 1,
	Programs: []*verifref.ProgramConfig{
		{Name: "golang.org/x/tools/gopls", Versions: []string{"v0.14.0", "v1.2.3"},
			Counters: []verifref.CounterConfig{{Name: "editor/opens", Rate: 1}, {Name: "flag:{v,x,json}", Rate: 1}},
			Stacks:   []verifref.CounterConfig{{Name: "crash/crash", Rate: 1, Depth: 8}}},
		{Name: "cmd/go", Versions: []string{"go1.21.5", "go1.22.1"}, Counters: []verifref.CounterConfig{{Name: "go/cmd/build", Rate: 1}}},
	},
}

func newSrvEnv(base string, ucfg *verifref.UploadConfig, maxBytes int64) *srvEnv {
	root, _ := os.MkdirTemp(base, "srv")
	cfgPath := filepath.Join(root, "config.json")
	b, _ := json.Marshal(ucfg)
	os.WriteFile(cfgPath, b, 0o644)
	e := &srvEnv{root: root, ucfg: ucfg}
	e.cfg = &config.Config{
		LocalStorage: filepath.Join(root, "storage"), UploadBucket: "test-uploaded", MergedBucket: "test-merged", ChartDataBucket: "test-charted",
		UploadConfig: cfgPath, MaxRequestBytes: maxBytes, RequestTimeout: 10 * time.Minute,
	}
	h := newHandler(context.Background(), e.cfg)
	e.srv = verifrt.NewHTTPServer(h)
	e.client = &http.Client{Timeout: 60 * time.Second}
	return e
}

func (e *srvEnv) close() {
	e.srv.Close()
	os.RemoveAll(e.root)
}

func listing(root string) map[string]string {
	m := map[string]string{}
	filepath.Walk(root, func(p string, info os.FileInfo, err error) error {
		if err == nil && info.Mode().IsRegular() {
			rel, _ := filepath.Rel(root, p)
			b, _ := os.ReadFile(p)
			h := sha256.Sum256(b)
			m[rel] = hex.EncodeToString(h[:8])
		}
		return nil
	})
	return m
}

type jprog struct {
	Program, Version, GoVersion, GOOS, GOARCH string
	Counters, Stacks                          map[string]int64
}

type jreport struct {
	Week     string
	LastWeek string
	X        float64
	Programs []*jprog
	Config   string
}

// validReport builds a report with only approved contents.
func validReport(r *verifrt.Rand) *jreport {
	rep := &jreport{Week: fmt.Sprintf("20%02d-%02d-%02d", 19+r.Intn(12), 1+r.Intn(12), 1+r.Intn(28)), Config: verifrt.Pick(r, []string{"v1.2.3", "v0.0.1-pre.1", "v10.20.30+meta"}),
		X: verifrt.Pick(r, []float64{0.5, 0.25, 1e-320, 1e308, -1, 5e-324, 0.1234567891234, 1, 123456789}) + 0}
	if r.Intn(3) == 0 {
		rep.X = r.Float() + 1e-9
	}
	n := r.Intn(3)
	for i := 0; i < n; i++ {
		p := &jprog{Program: "golang.org/x/tools/gopls", Version: verifrt.Pick(r, []string{"v0.14.0", "v1.2.3"}), GoVersion: verifrt.Pick(r, []string{"go1.21.5", "go1.22.1"}),
			GOOS: verifrt.Pick(r, []string{"linux", "darwin"}), GOARCH: verifrt.Pick(r, []string{"amd64", "arm64"}), Counters: map[string]int64{}, Stacks: map[string]int64{}}
		if r.Bool() {
			p.Program = "cmd/go"
			p.Version = p.GoVersion
			p.Counters["go/cmd/build"] = int64(r.Intn(100))
		} else {
			for _, c := range []string{"editor/opens", "flag:v", "flag:json"} {
				if r.Bool() {
					p.Counters[c] = int64(r.Intn(1000))
				}
			}
			if r.Bool() {
				p.Stacks["crash/crash\ngolang.org/x/tools/gopls.main:+3,+0x1a\nruntime.main:+1,+0x2"] = 1
			}
		}
		if r.Intn(6) == 0 {
			p.Counters = nil
		}
		rep.Programs = append(rep.Programs, p)
	}
	return rep
}

// invalidate returns a JSON body that must be rejected, derived from a valid report.
func invalidate(r *verifrt.Rand, rep *jreport) (body []byte, why string) {
	cp := *rep
	cp.Programs = nil
	for _, p := range rep.Programs {
		q := *p
		q.Counters = map[string]int64{}
		for k, v := range p.Counters {
			q.Counters[k] = v
		}
		q.Stacks = map[string]int64{}
		for k, v := range p.Stacks {
			q.Stacks[k] = v
		}
		cp.Programs = append(cp.Programs, &q)
	}
	ensureProg := func() *jprog {
		if len(cp.Programs) == 0 {
			cp.Programs = append(cp.Programs, &jprog{Program: "cmd/go", Version: "go1.22.1", GoVersion: "go1.22.1", GOOS: "linux", GOARCH: "amd64", Counters: map[string]int64{"go/cmd/build": 1}, Stacks: map[string]int64{}})
		}
		return cp.Programs[r.Intn(len(cp.Programs))]
	}
	switch k := r.Intn(16); k {
	case 0:
		cp.Week = verifrt.Pick(r, []string{"", "2023-02-30", "2023-1-1", "../x", "2023-01-01/../..", "2023-01-01 ", "23-01-01", "2023/01/01", "2023-13-01", "2023-01-01T00:00:00Z"})
		why = "week"
	case 1:
		cp.Config = verifrt.Pick(r, []string{"", "1.2.3", "v1", "latest", "v1.2.3.4", "vv1.2.3", "v1.2.x"})
		if cp.Config == "v1" { // "v1" is valid semver shorthand for golang.org/x/mod/semver
			cp.Config = "one"
		}
		why = "config"
	case 2:
		cp.X = 0
		why = "X==0"
	case 3:
		ensureProg().GOOS = verifrt.Pick(r, []string{"windows", "", "Linux", "plan9"})
		why = "goos"
	case 4:
		ensureProg().GOARCH = verifrt.Pick(r, []string{"386", "", "AMD64"})
		why = "goarch"
	case 5:
		ensureProg().GoVersion = verifrt.Pick(r, []string{"go1.22.10", "go1.22", "", "devel", "go1.22.1 X:loopvar", "go1.21.5 built by jane.doe@example.com", "go1.22.1 ", " go1.22.1", "go1.22.1\n"})
		why = "goversion"
	case 6:
		ensureProg().Program = verifrt.Pick(r, []string{"cmd/gofmt", "golang.org/x/tools/gopls2", "", "gopls"})
		why = "program"
	case 7:
		p := ensureProg()
		p.Version = verifrt.Pick(r, []string{"v1.2.30", "v1.2", "", "devel", "v1.2.3+dirty", "v0.14.0+incompatible", "v0.14", "v1.2.3 ", "V1.2.3", "1.2.3", "v1.2.3-"})
		if r.Intn(3) == 0 {
			// a module program claiming the (approved) Go version as its own
			// version: approved versions are per program
			p.Program, p.Counters, p.Stacks = "golang.org/x/tools/gopls", nil, nil
			p.Version = p.GoVersion
		}
		why = "version"
	case 8:
		p := ensureProg()
		if r.Bool() {
			// the program with bucketed counters: near-misses of its chart names
			p.Program, p.Version = "golang.org/x/tools/gopls", "v0.14.0"
			p.Counters, p.Stacks = nil, nil
		}
		if p.Counters == nil {
			p.Counters = map[string]int64{}
		}
		p.Counters[verifrt.Pick(r, []string{"flag:", "flag", "flag", "editor", "go/cmd", "flag:{v,x,json}", "flag:V", "editor/opens2", "secret", "crash/crash", "flag:v,x", "flag:{v}", "flag:v:x",
			// an approved stack counter's name and frames, but among the plain counters
			"crash/crash\nmain.f:+1,+0x1", "crash/crash\ngolang.org/x/tools/gopls.main:+3,+0x1a"})] = 1
		why = "counter"
	case 9:
		p := ensureProg()
		if p.Stacks == nil {
			p.Stacks = map[string]int64{}
		}
		p.Stacks[verifrt.Pick(r, []string{"crash/crash2\nf:+1", "editor/opens\nf:+1", "crash\ncrash/crash", "\ncrash/crash", "other", "crash", "crash/\nf:+1", "flag\nf:+1",
			// approved plain counters, but among the stacks
			"editor/opens", "flag:v", "go/cmd/build"})] = 1
		why = "stack"
	case 10: // empty unapproved program entry
		cp.Programs = append(cp.Programs, &jprog{Program: "evil.example/p", Version: "v9", GoVersion: "go9", GOOS: "x", GOARCH: "y"})
		if r.Bool() {
			cp.Programs[len(cp.Programs)-1].Counters = map[string]int64{}
			cp.Programs[len(cp.Programs)-1].Stacks = map[string]int64{}
		}
		why = "empty-unapproved-program"
	case 11: // null program entry
		b, _ := json.Marshal(&cp)
		s := strings.Replace(string(b), `"Programs":null`, `"Programs":[null]`, 1)
		if s == string(b) {
			s = strings.Replace(string(b), `"Programs":[`, `"Programs":[null,`, 1)
		}
		return []byte(s), "null-program"
	case 12: // truncated JSON
		b, _ := json.Marshal(&cp)
		if len(b) < 3 {
			return []byte("{"), "truncated"
		}
		return b[:1+r.Intn(len(b)-2)], "truncated"
	case 13: // wrong types
		b, _ := json.Marshal(&cp)
		s := string(b)
		s = verifrt.Pick(r, []string{
			strings.Replace(s, `"X":`, `"X":"`, 1),
			strings.Replace(s, `"Week":"`, `"Week":["`, 1),
			`[` + s + `]`, `"` + cp.Week + `"`, `null`, `{}`, `{"X":0.7}`, `{"Week":"2023-01-01"}`, `{"Programs":[]}`, ``, `   `, `{"Week":"2023-01-01","Config":"v1.0.0","X":"NaN"}`,
		})
		return []byte(s), "wrong-type-or-partial"
	case 14: // arbitrary bytes
		return r.Bytes(r.Intn(300)), "random-bytes"
	default:
		cp.Week = ""
		cp.Config = ""
		cp.X = 0
		why = "all-missing"
	}
	b, _ := json.Marshal(&cp)
	return b, why
}

func (e *srvEnv) do(method, path string, body []byte, chunked bool) (int, string, error) {
	var rd io.Reader
	if body != nil {
		rd = bytes.NewReader(body)
		if chunked {
			rd = io.MultiReader(bytes.NewReader(body)) // hides the length: chunked transfer encoding
		}
	}
	req, err := http.NewRequest(method, e.srv.URL+path, rd)
	if err != nil {
		return 0, "", err
	}
	req.Header.Set("Content-Type", "application/json")
	resp, err := e.client.Do(req)
	if err != nil {
		return 0, "", err
	}
	defer resp.Body.Close()
	rb, _ := io.ReadAll(io.LimitReader(resp.Body, 2000))
	return resp.StatusCode, string(rb), nil
}

func TestVerifC12(t *testing.T) {
	const check = "C12.endpoint"
	res := verifrt.NewResult(check)
	res.Rule = "requests to the real handler chain (newHandler: log, timeout, request-size, recover middlewares; FS storage) over loopback HTTP: methods {POST, GET, PUT, HEAD, DELETE, PATCH, OPTIONS, lower-case, garbage}; bodies: valid reports with approved contents (hostile X values, config versions, 0-2 programs), re-uploads of a shorter/longer report under an already stored week and X, each with exactly one invalid aspect (week, config, X==0, each of the five build fields, counter/bucket near-misses, stack names, empty unapproved program, null program entry), truncated JSON, wrong types, partial objects, random bytes, bodies just under/over the size limit with Content-Length and with chunked encoding, small reports followed by blanks beyond the limit; requests are sent in sequences so that state carried over between requests shows; then rounds of 4-16 overlapping requests (two thirds valid with distinct week/X, one third invalid). Oracle: MUST-STORE => 200 and exactly one new/changed object <upload bucket>/<Week>/<%g of X>.json decoding to the same report; MUST-REJECT => 4xx and storage listing unchanged; always status < 500 and nothing outside the upload bucket. distinct = distinct request bodies; non-trivial = body parses as a JSON object"
	base := vtmp("c12-")
	defer os.RemoveAll(base)
	const limit = 100 * 1024
	e := newSrvEnv(base, c12Cfg, limit)
	defer e.close()
	storageRoot := e.cfg.LocalStorage
	n := verifrt.Scale(3000, 200000)
	methods := []string{"GET", "PUT", "HEAD", "DELETE", "PATCH", "OPTIONS", "post", "FOO"}
	// reports accepted since storage was last wiped: (week, X, body length)
	type accepted struct {
		week string
		x    float64
		n    int
	}
	var pool []accepted
	for i := 0; i < n; i++ {
		if !verifrt.WantCase(check, i) {
			continue
		}
		rnd := verifrt.NewRand(verifrt.Seed(), fmt.Sprintf("%s/%d", check, i))
		rep := validReport(rnd)
		method := "POST"
		path := "/upload/" + rep.Week
		var body []byte
		expect := "store"
		why := "valid"
		chunked := rnd.Intn(4) == 0
		switch k := i % 10; {
		case k < 3:
			if len(pool) > 0 && rnd.Intn(3) == 0 {
				// the same client (or one that drew the same X) uploads again for
				// the same week: the object is replaced by exactly the new report
				prev := pool[rnd.Intn(len(pool))]
				rep.Week, rep.X = prev.week, prev.x
				path = "/upload/" + rep.Week
				if rnd.Intn(2) == 0 {
					rep.Programs = nil
				}
				body, _ = json.Marshal(rep)
				why = "re-upload-longer-or-equal"
				if len(body) < prev.n {
					why = "re-upload-shorter"
				}
				break
			}
			body, _ = json.Marshal(rep)
		case k < 7:
			body, why = invalidate(rnd, rep)
			expect = "reject"
		case k == 7:
			method = methods[rnd.Intn(len(methods))]
			body, _ = json.Marshal(rep)
			expect = "reject"
			why = "method:" + method
		case k == 8 && i%40 == 8: // a small report followed by blanks that take the body over the size limit
			body, _ = json.Marshal(rep)
			body = append(body, bytes.Repeat([]byte(verifrt.Pick(rnd, []string{" ", "\n", " \t"})), limit+verifrt.Pick(rnd, []int{1, 5000, 2 * limit}))...)
			expect = "reject"
			why = "oversize-trailing-blanks"
		case k == 8: // around the size limit
			pad := verifrt.Pick(rnd, []int{limit - 2000, limit - 300, limit + 1, limit + 5000, 3 * limit})
			rep.LastWeek = strings.Repeat("9", pad)
			body, _ = json.Marshal(rep)
			if len(body) > limit {
				expect = "reject"
				why = "oversize"
				if chunked {
					why = "oversize-chunked"
				}
			} else {
				why = "near-limit"
			}
		default: // data after a valid report: the body is then not a JSON report
			body, _ = json.Marshal(rep)
			body = append(body, []byte(verifrt.Pick(rnd, []string{"\n", " ", "{}", "garbage", "\x00", "\n{}", " 1", "null", "]"}))...)
			expect = "reject"
			why = "trailing-data"
			if tail := body[len(body)-1]; tail == '\n' || tail == ' ' {
				expect = "store"
				why = "trailing-whitespace"
			}
		}
		res.Eval()
		res.Hit(expect + ":" + why)
		if len(body) > 0 && body[0] == '{' {
			res.Distinct(verifrt.Hash(body))
		}
		if i%50 == 49 {
			// keep the listing small: forget what was stored so far
			ents, _ := os.ReadDir(filepath.Join(storageRoot, "test-uploaded"))
			for _, en := range ents {
				os.RemoveAll(filepath.Join(storageRoot, "test-uploaded", en.Name()))
			}
			pool = nil
		}
		before := listing(e.root)
		status, rbody, err := e.do(method, path, body, chunked)
		rp := verifrt.CaseReplay(i, map[string]any{"method": method, "why": why, "expect": expect, "chunked": chunked, "body": fmt.Sprintf("%.400s", body), "body_len": len(body)})
		if err != nil {
			if expect == "reject" && strings.HasPrefix(why, "oversize") {
				// the server may cut the connection on an over-long body; nothing must be stored
				status = 499
			} else if method == "FOO" || method == "post" {
				status = 499
			} else {
				res.Inconc(fmt.Sprintf("request failed: %v", err))
				continue
			}
		}
		after := listing(e.root)
		var created, changed []string
		for k, v := range after {
			if w, ok := before[k]; !ok {
				created = append(created, k)
			} else if w != v {
				changed = append(changed, k)
			}
		}
		for k := range before {
			if _, ok := after[k]; !ok {
				changed = append(changed, k+" (removed)")
			}
		}
		if status >= 500 {
			res.Violate("status-5xx:"+why, fmt.Sprintf("%s %s (%s) answered %d: %.200s", method, path, why, status, rbody), rp)
			continue
		}
		for _, k := range append(created, changed...) {
			if !strings.HasPrefix(k, filepath.Join("storage", "test-uploaded")+string(filepath.Separator)) {
				res.Violate("write-outside-bucket", "request touched "+k, rp)
			}
		}
		switch expect {
		case "reject":
			if status < 400 || status == 499 && false {
				res.Violate("accepted-invalid:"+why, fmt.Sprintf("%s with invalid aspect %q answered %d", method, why, status), rp)
			}
			if len(created)+len(changed) > 0 {
				res.Violate("stored-invalid:"+why, fmt.Sprintf("rejected/invalid request (%s) created or changed %v", why, append(created, changed...)), rp)
			}
		case "store":
			if status != 200 {
				res.Violate("rejected-valid:"+why, fmt.Sprintf("valid report (%s, %d bytes) answered %d: %.200s", why, len(body), status, rbody), rp)
				continue
			}
			want := filepath.Join("storage", "test-uploaded", rep.Week, fmt.Sprintf("%g.json", rep.X))
			touched := append(created, changed...)
			if len(touched) > 1 || (len(touched) == 1 && touched[0] != want) {
				res.Violate("stored-wrong-object", fmt.Sprintf("valid report stored as %v, want exactly %s", touched, want), rp)
				continue
			}
			sb, err := os.ReadFile(filepath.Join(e.root, want))
			if err != nil {
				res.Violate("not-stored", fmt.Sprintf("valid report answered 200 but %s does not exist", want), rp)
				continue
			}
			var got, exp jreport
			if err := json.Unmarshal(sb, &got); err != nil {
				res.Violate("stored-not-json", err.Error(), rp)
				continue
			}
			json.Unmarshal(body, &exp)
			gb, _ := json.Marshal(normalize(&got))
			eb, _ := json.Marshal(normalize(&exp))
			if !bytes.Equal(gb, eb) {
				res.Violate("stored-differs", fmt.Sprintf("stored object decodes to %.300s, sent %.300s", gb, eb), rp)
			}
			pool = append(pool, accepted{rep.Week, rep.X, len(body)})
		}
		if i < 3 {
			res.Sample(map[string]any{"case": i, "method": method, "class": expect + ":" + why, "status": status, "body": fmt.Sprintf("%.200s", body)})
		}
	}
	// overlapping requests: valid and invalid reports sent at once by several
	// clients; every valid one must end up stored exactly, no invalid one may
	// leave a trace, whatever the handlers share behind the scenes
	rounds := verifrt.Scale(60, 1500)
	for rd := 0; rd < rounds; rd++ {
		if !verifrt.WantCase(check, 1_000_000+rd) {
			continue
		}
		rnd := verifrt.NewRand(verifrt.Seed(), fmt.Sprintf("%s/conc/%d", check, rd))
		ents, _ := os.ReadDir(filepath.Join(storageRoot, "test-uploaded"))
		for _, en := range ents {
			os.RemoveAll(filepath.Join(storageRoot, "test-uploaded", en.Name()))
		}
		type creq struct {
			body  []byte
			week  string
			x     float64
			valid bool
			why   string
			st    int
			err   error
		}
		nreq := 4 + rnd.Intn(13)
		reqs := make([]*creq, nreq)
		used := map[string]bool{}
		for k := range reqs {
			rep := validReport(rnd)
			for used[fmt.Sprintf("%s/%g", rep.Week, rep.X)] {
				rep = validReport(rnd)
			}
			used[fmt.Sprintf("%s/%g", rep.Week, rep.X)] = true
			q := &creq{week: rep.Week, x: rep.X, valid: true, why: "valid"}
			if rd%2 == 1 && len(rep.Programs) > 0 {
				// bodies of 5-60 KB (many stacks of an approved stack counter), all of
				// different content: encoding and writing them takes long enough to overlap
				for _, p := range rep.Programs {
					if p.Program != "golang.org/x/tools/gopls" {
						continue
					}
					for j, n := 0, 20+rnd.Intn(180); j < n; j++ {
						p.Stacks[fmt.Sprintf("crash/crash\ngolang.org/x/tools/gopls.main:+%d,+0x%x\nruntime.main:+%d,+0x%x\n%s", j, rnd.Intn(1<<20), k, rd, strings.Repeat("runtime.goexit:+0,+0x1\n", 6))] = int64(k + 1)
					}
					break // (one program only: the body stays well below the 100 KiB limit)
				}
			}
			if rnd.Intn(3) == 0 {
				q.body, q.why = invalidate(rnd, rep)
				q.valid = false
			} else {
				q.body, _ = json.Marshal(rep)
			}
			reqs[k] = q
		}
		before := listing(e.root)
		done := make(chan bool, nreq)
		for _, q := range reqs {
			go func(q *creq) {
				q.st, _, q.err = e.do("POST", "/upload/"+q.week, q.body, false)
				done <- true
			}(q)
		}
		for range reqs {
			<-done
		}
		after := listing(e.root)
		res.Eval()
		res.Hit("concurrent-round")
		rp := verifrt.CaseReplay(1_000_000+rd, map[string]any{"requests": nreq})
		want := map[string]bool{}
		for _, q := range reqs {
			if q.err != nil {
				res.Inconc(fmt.Sprintf("concurrent request failed: %v", q.err))
				continue
			}
			if q.st >= 500 {
				res.Violate("status-5xx:concurrent:"+q.why, fmt.Sprintf("a %s request answered %d while others were in flight", q.why, q.st), rp)
			}
			if q.valid {
				name := filepath.Join("storage", "test-uploaded", q.week, fmt.Sprintf("%g.json", q.x))
				want[name] = true
				if q.st != 200 {
					res.Violate("rejected-valid:concurrent", fmt.Sprintf("valid report answered %d while others were in flight", q.st), rp)
					continue
				}
				sb, err := os.ReadFile(filepath.Join(e.root, name))
				if err != nil {
					res.Violate("not-stored:concurrent", fmt.Sprintf("valid report answered 200 but %s does not exist", name), rp)
					continue
				}
				var got, exp jreport
				if json.Unmarshal(sb, &got) != nil {
					res.Violate("stored-not-json:concurrent", name, rp)
					continue
				}
				json.Unmarshal(q.body, &exp)
				gb, _ := json.Marshal(normalize(&got))
				eb, _ := json.Marshal(normalize(&exp))
				if !bytes.Equal(gb, eb) {
					res.Violate("stored-differs:concurrent", fmt.Sprintf("stored object %s decodes to %.300s, sent %.300s", name, gb, eb), rp)
				}
			} else if q.st < 400 && !strings.HasPrefix(q.why, "trailing") {
				res.Violate("accepted-invalid:concurrent:"+q.why, fmt.Sprintf("invalid (%s) answered %d while others were in flight", q.why, q.st), rp)
			}
		}
		for k := range after {
			if _, ok := before[k]; !ok && !want[k] {
				res.Violate("stored-unexpected:concurrent", "object "+k+" appeared that no valid request of the round names", rp)
			}
		}
	}
	_ = storageRoot
	res.Require("concurrent-round", "reject:oversize-trailing-blanks", "reject:trailing-data", "store:trailing-whitespace", "store:valid", "store:re-upload-shorter", "store:re-upload-longer-or-equal", "reject:week", "reject:config", "reject:X==0", "reject:goos", "reject:goarch", "reject:counter", "reject:stack", "reject:null-program", "reject:empty-unapproved-program",
		"reject:truncated", "reject:wrong-type-or-partial", "reject:oversize", "reject:oversize-chunked", "store:near-limit")
	if err := res.Write(); err != nil {
		t.Fatal(err)
	}
}

func normalize(r *jreport) *jreport {
	for _, p := range r.Programs {
		if p == nil {
			continue
		}
		if len(p.Counters) == 0 {
			p.Counters = nil
		}
		if len(p.Stacks) == 0 {
			p.Stacks = nil
		}
	}
	if len(r.Programs) == 0 {
		r.Programs = nil
	}
	return r
}
