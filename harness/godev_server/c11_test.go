//go:build verif

package main

import (
	"bufio"
	"encoding/json"
	"fmt"
	"os"
	"path/filepath"
	"strings"
	"testing"

	"golang.org/x/telemetry/internal/verifref"
	"golang.org/x/telemetry/internal/verifrt"
)

// C11 (server leg): the upload server accepts every report the uploader
// produced under a configuration, and rejects it once any single item outside
// the configuration is spliced in.

type c11File struct {
	Build  verifref.Build    `json:"build"`
	Meta   map[string]string `json:"meta"`
	Counts map[string]uint64 `json:"counts"`
}

type c11Case struct {
	ID     int                    `json:"id"`
	Config *verifref.UploadConfig `json:"config"`
	Files  []c11File              `json:"files"`
	Posted []string               `json:"posted"`
	Week   string                 `json:"week"`
}

func TestVerifC11Server(t *testing.T) {
	const check = "C11.server"
	res := verifrt.NewResult(check)
	res.Rule = "every body the uploader leg posted under a configuration is sent to the real upload handler configured with the same configuration: must be answered 200; then the same body with exactly one item outside the configuration spliced in (program, version, Go version, GOOS, GOARCH, counter, bucket near-miss, stack) must be answered 400. distinct = distinct (case, body) pairs; non-trivial = body has at least one program"
	share := os.Getenv("VERIF_SHARE")
	f, err := os.Open(filepath.Join(share, "c11", "cases.jsonl"))
	if err != nil {
		res.Inconc("no cases from the uploader leg: " + err.Error())
		res.Write()
		return
	}
	defer f.Close()
	base := vtmp("c11s-")
	defer os.RemoveAll(base)
	sc := bufio.NewScanner(f)
	sc.Buffer(nil, 64<<20)
	for sc.Scan() {
		var cs c11Case
		if json.Unmarshal(sc.Bytes(), &cs) != nil || len(cs.Posted) == 0 {
			continue
		}
		if !verifrt.WantCase(check, cs.ID) {
			continue
		}
		rnd := verifrt.NewRand(verifrt.Seed(), fmt.Sprintf("%s/%d", check, cs.ID))
		e := newSrvEnv(base, cs.Config, 100*1024)
		for bi, body := range cs.Posted {
			res.Eval()
			var rep jreport
			if err := json.Unmarshal([]byte(body), &rep); err != nil {
				continue
			}
			if len(rep.Programs) > 0 {
				res.Distinct(fmt.Sprintf("%d/%d", cs.ID, bi))
			}
			rp := verifrt.CaseReplay(cs.ID, map[string]any{"body": fmt.Sprintf("%.600s", body), "config_goos": cs.Config.GOOS, "config_goarch": cs.Config.GOARCH})
			st, rb, err := e.do("POST", "/upload/"+rep.Week, []byte(body), false)
			if err != nil {
				res.Inconc(err.Error())
				continue
			}
			if st != 200 {
				field := "other"
				if len(body) > 100*1024 && strings.Contains(rb, "request body too large") {
					// the report is approved item by item; it is refused for its size alone
					field = "oversize"
				}
				if strings.Contains(rb, "unknown program build") {
					field = "build"
					for _, p := range rep.Programs {
						if p != nil && cs.Config.ProgramApproved(p.Program, p.Version, p.GoVersion) && !cs.Config.BuildApproved(p.Program, p.Version, p.GoVersion, p.GOOS, p.GOARCH) {
							field = "goos-goarch"
						}
					}
				}
				res.Violate("server-rejects-uploader-report:"+field, fmt.Sprintf("a report the uploader produced under this configuration was answered %d: %.200s", st, rb), rp)
				continue
			}
			res.Hit("uploader-report-accepted")
			if len(body) > 64*1024 {
				res.Hit("uploader-report-accepted:over-64KiB")
			}
			// splice exactly one unapproved item in
			if len(rep.Programs) == 0 {
				continue
			}
			for k := 0; k < 3; k++ {
				var m jreport
				json.Unmarshal([]byte(body), &m)
				p := m.Programs[rnd.Intn(len(m.Programs))]
				what := ""
				switch rnd.Intn(13) {
				case 11, 12:
					// a version that differs from a listed one only in a way version
					// tooling tends to normalise away (build metadata, shorthand,
					// spelling): the configuration lists exact strings
					var pc *verifref.ProgramConfig
					for _, c := range cs.Config.Programs {
						if c.Name == p.Program {
							pc = c
						}
					}
					if pc == nil || len(pc.Versions) == 0 {
						continue
					}
					v := pc.Versions[rnd.Intn(len(pc.Versions))]
					nv := verifrt.Pick(rnd, []string{v + "+dirty", v + "+incompatible", v + "+meta.1", strings.TrimSuffix(v, ".0"), strings.TrimPrefix(v, "v"), v + " ", " " + v, strings.ToUpper(v), v + "-", v + ".0"})
					listed := nv == v
					for _, x := range pc.Versions {
						listed = listed || x == nv
					}
					if listed {
						continue
					}
					p.Version, what = nv, "version-near-miss"
				case 0:
					p.GOOS, what = "plan9x", "goos"
				case 1:
					p.GOARCH, what = "riscv128", "goarch"
				case 2:
					p.GoVersion, what = "go1.99.9", "goversion"
				case 3:
					p.Version, what = "v99.99.99", "version"
				case 4:
					p.Program, what = "evil.example/prog", "program"
				case 5:
					if p.Counters == nil {
						p.Counters = map[string]int64{}
					}
					p.Counters["not/approved"] = 1
					what = "counter"
				case 6:
					if p.Counters == nil {
						p.Counters = map[string]int64{}
					}
					p.Counters[verifrt.Pick(rnd, []string{"flag:", "flag:{v,x,json}", "flag:nope", "editor/opens "})] = 1
					what = "bucket-near-miss"
				case 7, 8:
					// an item the configuration approves for this program, but in the other
					// map: a stack counter's name (with frames) among the plain counters
					var pc *verifref.ProgramConfig
					for _, c := range cs.Config.Programs {
						if c.Name == p.Program {
							pc = c
						}
					}
					if pc == nil || len(pc.Stacks) == 0 {
						continue
					}
					n := pc.Stacks[rnd.Intn(len(pc.Stacks))].Name + "\nmain.main:+1,+0x1"
					if _, listed := cs.Config.CounterRate(p.Program, n); listed {
						continue
					}
					if p.Counters == nil {
						p.Counters = map[string]int64{}
					}
					p.Counters[n] = 1
					what = "stack-among-counters"
				case 9:
					// ... or a plain counter among the stacks
					var names []string
					for _, c := range cs.Config.Programs {
						if c.Name == p.Program {
							for _, cc := range c.Counters {
								names = append(names, verifref.ExpandBuckets(cc.Name)...)
							}
						}
					}
					if len(names) == 0 {
						continue
					}
					n := names[rnd.Intn(len(names))]
					if _, listed := cs.Config.StackRate(p.Program, n); listed || strings.Contains(n, "\n") {
						continue
					}
					if p.Stacks == nil {
						p.Stacks = map[string]int64{}
					}
					p.Stacks[n] = 1
					what = "counter-among-stacks"
				default:
					if p.Stacks == nil {
						p.Stacks = map[string]int64{}
					}
					p.Stacks["not/approved\nmain.main:+1,+0x1"] = 1
					what = "stack"
				}
				// the spliced value may by chance be approved by this configuration
				if what == "bucket-near-miss" {
					ok := false
					for c := range p.Counters {
						if _, listed := cs.Config.CounterRate(p.Program, c); !listed {
							ok = true
						}
					}
					if !ok {
						continue
					}
				}
				mb, _ := json.Marshal(&m)
				st, rb, err := e.do("POST", "/upload/"+m.Week, mb, false)
				if err != nil {
					continue
				}
				res.Hit("spliced:" + what)
				if st != 400 {
					res.Violate("server-accepts-spliced:"+what, fmt.Sprintf("report with an unapproved %s spliced in was answered %d: %.200s", what, st, rb), verifrt.CaseReplay(cs.ID, map[string]any{"body": fmt.Sprintf("%.600s", mb)}))
				}
			}
		}
		e.close()
	}
	res.Sample(map[string]any{"source": "cases.jsonl from the uploader leg"})
	res.Require("uploader-report-accepted", "spliced:goos", "spliced:version-near-miss", "spliced:counter", "spliced:stack", "spliced:stack-among-counters", "spliced:counter-among-stacks")
	if err := res.Write(); err != nil {
		t.Fatal(err)
	}
}
