//go:build verif

package main

import (
	"context"
	"encoding/json"
	"fmt"
	"golang.org/x/exp/slog"
	"io"
	"net/http"
	"os"
	"path/filepath"
	"strings"
	"sync"
	"testing"

	"golang.org/x/telemetry/godev/internal/storage"
	tconfig "golang.org/x/telemetry/internal/config"
	"golang.org/x/telemetry/internal/verifrt"
)

// C18 (services leg): every object name the web service constructs from a
// request resolves inside its bucket's directory.
//
// The service's own handlers (upload, chart pages, index, data) are mounted
// on a ServeMux exactly as newHandler mounts them, over file-system buckets
// wrapped in a recorder that sees every Object(name) call. Files with canary
// contents lie outside the buckets (next to them, in the sibling buckets,
// one level further up): a response must never carry a canary.

type recBucket struct {
	storage.BucketHandle
	dir string // the bucket's directory
	mu  sync.Mutex
	// names asked for since the last reset
	names []string
}

func (b *recBucket) Object(name string) storage.ObjectHandle {
	b.mu.Lock()
	b.names = append(b.names, name)
	b.mu.Unlock()
	return b.BucketHandle.Object(name)
}

func (b *recBucket) take() []string {
	b.mu.Lock()
	defer b.mu.Unlock()
	n := b.names
	b.names = nil
	return n
}

// escapes reports whether the object name, resolved the way the file-system
// backend resolves names (joined to the bucket directory), leaves dir.
func escapes(dir, name string) bool {
	p := filepath.Join(dir, filepath.FromSlash(name))
	rel, err := filepath.Rel(dir, p)
	return err != nil || rel == ".." || strings.HasPrefix(rel, ".."+string(filepath.Separator))
}

func TestVerifC18Services(t *testing.T) {
	const check = "C18.services"
	res := verifrt.NewResult(check)
	res.Rule = "the web service's handlers (upload, chart pages, index, data) mounted as in production over recording file-system buckets; requests: chart page paths made of dates, date ranges, plain names and every spelling of '.', '..', '/', '\\', NUL and absolute paths (raw, %-encoded, doubly encoded, mixed), at 1-4 levels, and uploads whose week is such a path. Oracle: every object name a handler asks its bucket for, joined to the bucket directory as the backend does, stays inside that directory; no response carries the content of the canary files placed outside the buckets. distinct = distinct request paths; non-trivial = path contains a dot-dot or separator spelling"
	base := vtmp("c18svc-")
	defer os.RemoveAll(base)
	ctx := context.Background()
	outer := filepath.Join(base, "outer")
	root := filepath.Join(outer, "storage")
	os.MkdirAll(root, 0o777)
	const canary = "CANARY-c18-7f3a9"
	chartLike := func(tag string) []byte {
		b, _ := json.Marshal(map[string]any{"Programs": []any{map[string]any{"ID": canary + "-" + tag, "Name": canary}}, "NumReports": 1, canary: tag})
		return b
	}
	mk := func(n string) *recBucket {
		b, err := storage.NewFSBucket(ctx, root, n)
		if err != nil {
			t.Fatal(err)
		}
		return &recBucket{BucketHandle: b, dir: filepath.Join(root, n)}
	}
	up, merged, charted := mk("uploaded"), mk("merged"), mk("charted")
	// legitimate chart objects
	os.WriteFile(filepath.Join(charted.dir, "2023-01-02.json"), []byte(`{"Programs":[],"NumReports":3}`), 0o644)
	os.WriteFile(filepath.Join(charted.dir, "2023-01-02_2023-01-08.json"), []byte(`{"Programs":[],"NumReports":9}`), 0o644)
	// canaries outside the chart bucket
	os.WriteFile(filepath.Join(root, "secret.json"), chartLike("storage-root"), 0o644)
	os.WriteFile(filepath.Join(outer, "secret.json"), chartLike("one-level-up"), 0o644)
	os.WriteFile(filepath.Join(base, "secret.json"), chartLike("two-levels-up"), 0o644)
	os.MkdirAll(filepath.Join(up.dir, "2023-01-01"), 0o777)
	os.WriteFile(filepath.Join(up.dir, "2023-01-01", "0.5.json"), chartLike("upload-bucket"), 0o644)
	os.WriteFile(filepath.Join(merged.dir, "2023-01-01.json"), chartLike("merge-bucket"), 0o644)
	os.WriteFile(filepath.Join(root, "charted-sibling.json"), chartLike("prefix-sibling"), 0o644)
	os.WriteFile(filepath.Join(root, "secret_2023-01-08.json"), chartLike("storage-root-aggregate"), 0o644)
	os.WriteFile(filepath.Join(outer, "secret_2023-01-08.json"), chartLike("one-level-up-aggregate"), 0o644)

	cfgPath := filepath.Join(base, "config.json")
	cb, _ := json.Marshal(c12Cfg)
	os.WriteFile(cfgPath, cb, 0o644)
	ucfg, err := tconfig.ReadConfig(cfgPath)
	if err != nil {
		t.Fatal(err)
	}
	render := func(w http.ResponseWriter, tmpl string, page any) error {
		w.Header().Set("Content-Type", "application/json")
		return json.NewEncoder(w).Encode(map[string]any{"template": tmpl, "page": page})
	}
	mux := http.NewServeMux()
	mux.Handle("/", handleRoot(render, os.DirFS(base), charted, slog.Default()))
	mux.Handle("/upload/", handleUpload(ucfg, up))
	mux.Handle("/charts/", handleCharts(render, charted))
	mux.Handle("/data/", handleData(render, merged))
	srv := verifrt.NewHTTPServer(mux)
	defer srv.Close()
	client := &http.Client{CheckRedirect: func(*http.Request, []*http.Request) error { return http.ErrUseLastResponse }}

	dotdots := []string{"..", "%2e%2e", "%2E%2E", ".%2e", "%2e.", "%252e%252e", "...", ". .", "..;", "%c0%ae%c0%ae"}
	seps := []string{"/", "%2f", "%2F", "%5c", "\\", "%252f", "//", "/./"}
	tails := []string{"secret", "uploaded/2023-01-01/0.5", "merged/2023-01-01", "charted-sibling", "charted/2023-01-02", "etc/passwd", "2023-01-02",
		// (aggregate chart names are two dates joined by an underscore)
		"secret_2023-01-08", "2023-01-02_secret", "secret_secret", "uploaded/2023-01-01/0.5_2023-01-08"}
	var paths []string
	for _, p := range []string{"2023-01-02", "2023-01-02_2023-01-08", "2023-01-03", "nothing", "a/b", "a%2fb", ".", "..", "%2e", "%2e%2e", "%00", "a%00b", "/etc/passwd", "%2fetc%2fpasswd", "%2f%2fetc%2fpasswd", "2023-01-02/../../secret", "2023-01-02%2f..%2f..%2fsecret", "....//secret", "..%00/secret", "%7e/secret", "~/secret"} {
		paths = append(paths, p)
	}
	n := verifrt.Scale(1500, 60000)
	for i := 0; len(paths) < n; i++ {
		rnd := verifrt.NewRand(verifrt.Seed(), fmt.Sprintf("%s/%d", check, i))
		var sb strings.Builder
		if rnd.Intn(4) == 0 {
			sb.WriteString(verifrt.Pick(rnd, []string{"2023-01-02", "x", "2023-01-02_2023-01-08"}))
			sb.WriteString(verifrt.Pick(rnd, seps))
		}
		for k, levels := 0, 1+rnd.Intn(4); k < levels; k++ {
			sb.WriteString(verifrt.Pick(rnd, dotdots))
			sb.WriteString(verifrt.Pick(rnd, seps))
		}
		sb.WriteString(strings.ReplaceAll(verifrt.Pick(rnd, tails), "/", verifrt.Pick(rnd, seps)))
		paths = append(paths, sb.String())
	}
	judge := func(what, reqPath string, status int, body string, rp map[string]any) {
		for _, b := range []*recBucket{up, merged, charted} {
			for _, name := range b.take() {
				res.Hit("object-name-constructed:" + what)
				if escapes(b.dir, name) {
					res.Violate("object-name-escapes-bucket:"+what, fmt.Sprintf("request %s made the service ask bucket %s for object %q, which resolves to %s, outside the bucket's directory", reqPath, filepath.Base(b.dir), name, filepath.Join(b.dir, filepath.FromSlash(name))), rp)
				}
			}
		}
		if strings.Contains(body, canary) {
			res.Violate("served-file-outside-bucket:"+what, fmt.Sprintf("request %s was answered %d with the content of a file outside the bucket: %.200s", reqPath, status, body), rp)
		}
	}
	for i, p := range paths {
		if !verifrt.WantCase(check, i) {
			continue
		}
		res.Eval()
		if strings.Contains(strings.ToLower(p), "2e") || strings.Contains(p, "..") || strings.ContainsAny(p, "/\\") || strings.Contains(strings.ToLower(p), "%2f") {
			res.Distinct(p)
		}
		rp := verifrt.CaseReplay(i, map[string]any{"path": p})
		// the chart page
		for _, prefix := range []string{"/charts/", "/data/", "/"} {
			req, err := http.NewRequest("GET", srv.URL+prefix+p, nil)
			if err != nil {
				// not expressible as a request URL (e.g. a bad % escape): send it raw
				req, _ = http.NewRequest("GET", srv.URL+prefix, nil)
				req.URL.Opaque = prefix + p
			}
			resp, err := client.Do(req)
			if err != nil {
				res.Hit("request-not-sendable")
				continue
			}
			b, _ := io.ReadAll(io.LimitReader(resp.Body, 1<<16))
			resp.Body.Close()
			res.Hit(fmt.Sprintf("status:%s:%dxx", strings.Trim(prefix, "/"), resp.StatusCode/100))
			judge("charts", prefix+p, resp.StatusCode, string(b), rp)
		}
		// an upload whose week is the path
		if i%4 == 0 {
			wk := p
			rep := map[string]any{"Week": wk, "LastWeek": "", "X": 0.25, "Config": "v1.2.3", "Programs": []any{}}
			body, _ := json.Marshal(rep)
			req, err := http.NewRequest("POST", srv.URL+"/upload/"+p, strings.NewReader(string(body)))
			if err != nil {
				req, _ = http.NewRequest("POST", srv.URL+"/upload/", strings.NewReader(string(body)))
			}
			resp, err := client.Do(req)
			if err == nil {
				b, _ := io.ReadAll(io.LimitReader(resp.Body, 1<<16))
				resp.Body.Close()
				judge("upload", "/upload/"+p, resp.StatusCode, string(b), rp)
			}
		}
	}
	// the legitimate pages work (the monitor observes something)
	for _, p := range []string{"2023-01-02", "2023-01-02_2023-01-08"} {
		resp, err := client.Get(srv.URL + "/charts/" + p)
		if err == nil {
			b, _ := io.ReadAll(resp.Body)
			resp.Body.Close()
			if resp.StatusCode == 200 && strings.Contains(string(b), "NumReports") {
				res.Hit("chart-page-served")
			}
			judge("charts", "/charts/"+p, resp.StatusCode, string(b), nil)
		}
	}
	// nothing was created outside the buckets
	filepath.Walk(base, func(pth string, info os.FileInfo, err error) error {
		if err != nil || info.IsDir() {
			return nil
		}
		rel, _ := filepath.Rel(base, pth)
		switch {
		case strings.HasPrefix(rel, filepath.Join("outer", "storage", "uploaded")+string(filepath.Separator)), strings.HasPrefix(rel, filepath.Join("outer", "storage", "merged")+string(filepath.Separator)), strings.HasPrefix(rel, filepath.Join("outer", "storage", "charted")+string(filepath.Separator)):
		case rel == "secret.json", rel == "config.json", rel == filepath.Join("outer", "secret.json"), rel == filepath.Join("outer", "storage", "secret.json"), rel == filepath.Join("outer", "storage", "charted-sibling.json"), rel == filepath.Join("outer", "storage", "secret_2023-01-08.json"), rel == filepath.Join("outer", "secret_2023-01-08.json"):
		default:
			res.Violate("file-created-outside-buckets", rel, nil)
		}
		return nil
	})
	res.Sample(map[string]any{"paths": paths[:12]})
	res.Require("chart-page-served", "object-name-constructed:charts", "status:charts:4xx")
	if err := res.Write(); err != nil {
		t.Fatal(err)
	}
}
