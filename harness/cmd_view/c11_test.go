//go:build verif

package view

import (
	"bufio"
	"encoding/json"
	"fmt"
	"os"
	"path/filepath"
	"regexp"
	"sort"
	"strings"
	"testing"
	"time"

	"golang.org/x/telemetry/internal/config"
	tcounter "golang.org/x/telemetry/internal/counter"
	"golang.org/x/telemetry/internal/telemetry"
	"golang.org/x/telemetry/internal/verifref"
	"golang.org/x/telemetry/internal/verifrt"
)

// C11 (viewer leg): the local viewer describes a data set or counter as
// excluded from upload exactly when the uploader excluded it.

type c11File struct {
	Build  verifref.Build    `json:"build"`
	Meta   map[string]string `json:"meta"`
	Counts map[string]uint64 `json:"counts"`
}

type c11Kept struct {
	Emitted  bool            `json:"emitted"`
	Counters map[string]bool `json:"counters"`
}

type c11Case struct {
	ID     int                    `json:"id"`
	Config *verifref.UploadConfig `json:"config"`
	Files  []c11File              `json:"files"`
	Posted []string               `json:"posted"`
	Kept   []c11Kept              `json:"kept"`
	Week   string                 `json:"week"`
}

func TestVerifC11Viewer(t *testing.T) {
	const check = "C11.viewer"
	res := verifrt.NewResult(check)
	res.Rule = "for every counter file of every case of the uploader leg the viewer's newCounterFile/summary is computed under the same configuration: 'No data from this set would be uploaded' <=> the uploader emitted no program report for that build; a counter or stack is listed as 'would be excluded' <=> the uploader omitted it (for a name shared by a counter and stack counters: <=> it omitted at least one of them); count.Active / stack.Active <=> the uploader kept that name. Only cases in which the uploader posted a report are judged. distinct = (case, file) pairs; non-trivial = file has >= 2 counters"
	share := os.Getenv("VERIF_SHARE")
	f, err := os.Open(filepath.Join(share, "c11", "cases.jsonl"))
	if err != nil {
		res.Inconc("no cases from the uploader leg: " + err.Error())
		res.Write()
		return
	}
	defer f.Close()
	dir, _ := os.MkdirTemp(os.Getenv("VERIF_TMP"), "c11v-")
	defer os.RemoveAll(dir)
	sc := bufio.NewScanner(f)
	sc.Buffer(nil, 64<<20)
	for sc.Scan() {
		var cs c11Case
		if json.Unmarshal(sc.Bytes(), &cs) != nil || len(cs.Posted) == 0 || len(cs.Kept) != len(cs.Files) {
			continue
		}
		if !verifrt.WantCase(check, cs.ID) {
			continue
		}
		cfgPath := filepath.Join(dir, "config.json")
		b, _ := json.Marshal(cs.Config)
		os.WriteFile(cfgPath, b, 0o644)
		cfg, err := config.ReadConfig(cfgPath)
		if err != nil {
			res.Inconc(err.Error())
			continue
		}
		for fi, file := range cs.Files {
			kept := cs.Kept[fi]
			res.Eval()
			if len(file.Counts) >= 2 {
				res.Distinct(fmt.Sprintf("%d/%d", cs.ID, fi))
			}
			cf := newCounterFile("x.v1.count", &tcounter.File{Meta: file.Meta, Count: file.Counts}, cfg)
			sum := string(cf.Summary)
			rp := verifrt.CaseReplay(cs.ID, map[string]any{"build": file.Build, "summary": sum, "uploader_emitted": kept.Emitted})
			noData := strings.Contains(sum, "No data from this set would be uploaded")
			if noData == kept.Emitted {
				res.Violate("viewer-dataset-verdict", fmt.Sprintf("viewer says noDataUploaded=%v for build %+v, but the uploader emitted a program report=%v (summary: %q)", noData, file.Build, kept.Emitted, sum), rp)
				continue
			}
			// the same data as a local report (what the viewer shows once the week is
			// over): the verdicts must be the ones given for the counter file
			if wk, err := time.Parse("2006-01-02", cs.Week); err == nil {
				pr := &telemetry.ProgramReport{Program: file.Build.Program, Version: file.Build.Version, GoVersion: file.Build.GoVersion, GOOS: file.Build.GOOS, GOARCH: file.Build.GOARCH,
					Counters: map[string]int64{}, Stacks: map[string]int64{}}
				for full, v := range file.Counts {
					if strings.Contains(full, "\n") {
						pr.Stacks[full] = int64(v)
					} else {
						pr.Counters[full] = int64(v)
					}
				}
				tr, err := newTelemetryReport(&telemetry.Report{Week: wk.Format("2006-01-02"), X: 0.5, Programs: []*telemetry.ProgramReport{pr}}, cfg)
				if err == nil && len(tr.Programs) == 1 {
					res.Hit("report-view")
					rsum := string(tr.Programs[0].Summary)
					// the charts built from that report: a chart is marked "not present in the
					// telemetry config" although the uploader uploads an entry shown in it
					if cd, err := charts([]*telemetryReport{tr}, cfg); err == nil && kept.Emitted {
						for _, pg := range cd.Programs {
							for _, ch := range pg.Counters {
								res.Hit("chart-judged")
								for full := range file.Counts {
									if !kept.Counters[full] {
										continue
									}
									first, _, _ := strings.Cut(full, "\n")
									name := first
									if !strings.Contains(full, "\n") {
										name, _, _ = strings.Cut(full, ":")
									}
									if name == ch.Name && !ch.Active {
										res.Violate("viewer-chart-inactive-but-uploaded", fmt.Sprintf("build %+v: chart %q is marked as not present in the configuration, but the uploader uploads its entry %q", file.Build, ch.Name, vfTrunc(full)), rp)
									}
								}
							}
						}
					}
					if a, b := c11Listed(sum), c11Listed(rsum); a != b {
						res.Violate("viewer-report-vs-file", fmt.Sprintf("build %+v: shown as a pending counter file the viewer lists as excluded [%s] (no data uploaded: %v), shown as a local report of the same data it lists [%s] (summaries %q / %q)", file.Build, a, noData, b, sum, rsum), rp)
					}
				}
			}
			if !kept.Emitted {
				res.Hit("dataset-excluded")
				continue
			}
			res.Hit("dataset-included")
			// the summary names entries by their first line: a name shared by a
			// counter and stack counters is listed exactly when the uploader omits
			// at least one of the entries that carry it
			groupOmit, groupKept := map[string]int{}, map[string]int{}
			sums := []string{sum}
			for full := range file.Counts {
				first, _, _ := strings.Cut(full, "\n")
				if kept.Counters[full] {
					groupKept[first]++
				} else {
					groupOmit[first]++
				}
			}
			for first := range groupKept {
				if groupOmit[first] == 0 || countPrefix(file.Counts, first) < 2 {
					continue
				}
				res.Hit("shared-name-mixed-verdict")
				if len(sums) == 1 {
					// the summary is built while ranging over a map: render it several times
					for k := 0; k < 12; k++ {
						sums = append(sums, string(newCounterFile("x.v1.count", &tcounter.File{Meta: file.Meta, Count: file.Counts}, cfg).Summary))
					}
				}
			}
			for _, sum := range sums {
				for first, n := range groupOmit {
					if countPrefix(file.Counts, first) < 2 {
						continue
					}
					if listed := strings.Contains(sum, "<code>"+htmlEsc(first)+"</code>"); !listed {
						res.Violate("viewer-shared-name-excluded-list", fmt.Sprintf("%d of the %d entries named %q are omitted by the uploader but the viewer does not list the name as excluded (summary %q)", n, countPrefix(file.Counts, first), first, sum), rp)
					}
				}
				for first := range groupKept {
					if countPrefix(file.Counts, first) >= 2 && groupOmit[first] == 0 && strings.Contains(sum, "<code>"+htmlEsc(first)+"</code>") {
						res.Violate("viewer-shared-name-excluded-list", fmt.Sprintf("all entries named %q are uploaded but the viewer lists the name as excluded (summary %q)", first, sum), rp)
					}
				}
			}
			for _, c := range cf.Counts {
				if c.Active != kept.Counters[c.Name] {
					res.Violate("viewer-counter-active", fmt.Sprintf("counter %q: viewer Active=%v, uploader kept=%v", c.Name, c.Active, kept.Counters[c.Name]), rp)
				}
				listed := strings.Contains(sum, "<code>"+htmlEsc(c.Name)+"</code>")
				if countPrefix(file.Counts, c.Name) > 1 {
					// a stack counter with the same first line is listed under the same text: ambiguous
					res.Hit("ambiguous-listing-skipped")
				} else if listed == kept.Counters[c.Name] {
					res.Violate("viewer-counter-excluded-list", fmt.Sprintf("counter %q: listed as excluded=%v, uploader kept=%v (summary %q)", c.Name, listed, kept.Counters[c.Name], sum), rp)
				}
				if c.Active {
					res.Hit("counter-active")
				} else {
					res.Hit("counter-inactive")
				}
			}
			for _, s := range cf.Stacks {
				full := s.Name + "\n" + s.Trace
				if s.Active != kept.Counters[full] {
					res.Violate("viewer-stack-active", fmt.Sprintf("stack %q: viewer Active=%v, uploader kept=%v", s.Name, s.Active, kept.Counters[full]), rp)
				}
				listed := strings.Contains(sum, "<code>"+htmlEsc(s.Name)+"</code>")
				if !kept.Counters[full] && !listed && countPrefix(file.Counts, s.Name) == 1 {
					res.Violate("viewer-stack-excluded-list", fmt.Sprintf("stack %q was omitted by the uploader but is not listed as excluded (summary %q)", s.Name, sum), rp)
				}
				if kept.Counters[full] {
					res.Hit("stack-kept")
					// a kept stack may still be listed when a plain counter of the same name is excluded; only judge the clean case
					if _, plain := file.Counts[s.Name]; listed && !plain && countPrefix(file.Counts, s.Name) == 1 {
						res.Violate("viewer-stack-excluded-list", fmt.Sprintf("stack %q was uploaded but is listed as excluded (summary %q)", s.Name, sum), rp)
					}
				} else {
					res.Hit("stack-omitted")
				}
			}
		}
	}
	res.Sample(map[string]any{"source": "cases.jsonl from the uploader leg"})
	res.Require("shared-name-mixed-verdict", "dataset-excluded", "dataset-included", "counter-active", "counter-inactive", "stack-kept", "stack-omitted")
	if err := res.Write(); err != nil {
		t.Fatal(err)
	}
}

func countPrefix(m map[string]uint64, first string) int {
	n := 0
	for k := range m {
		if k == first || strings.HasPrefix(k, first+"\n") {
			n++
		}
	}
	return n
}

func htmlEsc(s string) string {
	r := strings.NewReplacer("&", "&amp;", "<", "&lt;", ">", "&gt;", `"`, "&#34;", "'", "&#39;")
	return r.Replace(s)
}

var c11CodeRE = regexp.MustCompile(`<code>(.*?)</code>`)

// c11Listed is the verdict part of a summary: whether the whole data set is
// excluded, and the sorted set of names listed as excluded.
func c11Listed(sum string) string {
	var names []string
	for _, m := range c11CodeRE.FindAllStringSubmatch(sum, -1) {
		names = append(names, m[1])
	}
	sort.Strings(names)
	out := strings.Join(names, " | ")
	if strings.Contains(sum, "No data from this set would be uploaded") {
		out = "NO DATA; " + out
	}
	return out
}

func vfTrunc(s string) string {
	if len(s) > 80 {
		return s[:80] + "…"
	}
	return s
}
