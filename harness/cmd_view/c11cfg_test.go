//go:build verif

package view

import (
	"encoding/json"
	"fmt"
	"os"
	"os/exec"
	"path/filepath"
	"testing"

	"golang.org/x/telemetry/internal/config"
	"golang.org/x/telemetry/internal/configstore"
	"golang.org/x/telemetry/internal/proxy"
	"golang.org/x/telemetry/internal/telemetry"
	"golang.org/x/telemetry/internal/verifrt"
)

// C11 (configuration in force): the viewer and the uploader both work from
// "the latest published configuration". When a new configuration is published
// while a viewer process keeps running, its next page must describe approval
// under the configuration the uploader would fetch now.

func TestVerifC11ViewerConfig(t *testing.T) {
	const check = "C11.viewercfg"
	res := verifrt.NewResult(check)
	res.Rule = "a file-based module proxy publishes upload configuration v1.0.N approving a random subset of eight counter names; the viewer's Server.configAt(\"latest\") and the uploader's configstore.Download(\"latest\") are compared on every name; then v1.0.N+1 with another subset is published (2-4 releases per case) and both are asked again in the same process. Oracle: after every release the viewer's HasCounter equals the uploader's for every name, and both equal the published subset. distinct = (case, release) pairs"
	base, _ := os.MkdirTemp(os.Getenv("VERIF_TMP"), "c11cfg-")
	defer os.RemoveAll(base)
	names := []string{"alpha", "beta", "gamma", "delta", "editor:{a,b}", "x/y", "z", "w:{one}"}
	const prog = "golang.org/x/tools/gopls"
	n := verifrt.Scale(6, 150)
	saved := map[string]string{}
	for _, k := range []string{"GOPROXY", "GONOSUMDB", "GOMODCACHE", "GOFLAGS", "GONOSUMCHECK", "GONOPROXY", "GOPRIVATE", "GOSUMDB"} {
		saved[k] = os.Getenv(k)
	}
	defer func() {
		for k, v := range saved {
			os.Setenv(k, v)
		}
	}()
	for i := 0; i < n; i++ {
		if !verifrt.WantCase(check, i) {
			continue
		}
		rnd := verifrt.NewRand(verifrt.Seed(), fmt.Sprintf("%s/%d", check, i))
		dir, _ := os.MkdirTemp(base, "p")
		files := map[string][]byte{}
		releases := 2 + rnd.Intn(3)
		for rel := 0; rel < releases; rel++ {
			version := fmt.Sprintf("v1.%d.%d", i, rel)
			approved := map[string]bool{}
			cfg := &telemetry.UploadConfig{GOOS: []string{"linux"}, GOARCH: []string{"amd64"}, GoVersion: []string{"go1.22.1"}, SampleRate: 1,
				Programs: []*telemetry.ProgramConfig{{Name: prog, Versions: []string{"v1.0.0"}}}}
			for _, nm := range names {
				if rnd.Bool() {
					approved[nm] = true
					cfg.Programs[0].Counters = append(cfg.Programs[0].Counters, telemetry.CounterConfig{Name: nm, Rate: 1})
				}
			}
			enc, _ := json.Marshal(cfg)
			dp := fmt.Sprintf("%v@%v/", configstore.ModulePath, version)
			files[dp+"go.mod"] = []byte("module " + configstore.ModulePath + "\n\ngo 1.20\n")
			files[dp+"config.json"] = enc
			// the config server now offers every release so far
			pdir := filepath.Join(dir, fmt.Sprintf("proxy%d", rel))
			uri, err := proxy.WriteProxy(pdir, files)
			if err != nil {
				res.Inconc("cannot write the proxy: " + err.Error())
				continue
			}
			os.Setenv("GOPROXY", uri)
			os.Setenv("GONOSUMDB", "*")
			os.Setenv("GOSUMDB", "off")
			os.Setenv("GOMODCACHE", filepath.Join(dir, "modcache"))
			os.Setenv("GOFLAGS", "")
			res.Eval()
			res.Distinct(fmt.Sprintf("%d/%d", i, rel))
			rp := verifrt.CaseReplay(i, map[string]any{"release": rel, "version": version})
			up, upVersion, err := configstore.Download("latest", nil)
			if err != nil {
				res.Inconc(fmt.Sprintf("the uploader's download failed: %v", err))
				continue
			}
			ucfg := config.NewConfig(up)
			vcfg, err := Server{}.configAt("latest")
			if err != nil {
				res.Violate("viewer-config-download-failed", fmt.Sprintf("release %s: the uploader fetched %s but the viewer's configAt failed: %v", version, upVersion, err), rp)
				continue
			}
			if upVersion != version {
				// who is behind: the go command (not this check's subject) or the
				// uploader's Download? Ask the go command directly.
				if w := c11GoResolves(); w == version {
					res.Violate("uploader-config-stale", fmt.Sprintf("release %s is what the go command resolves latest to, but the uploader's Download(latest) of this process returned %s", version, upVersion), rp)
				} else {
					res.Inconc(fmt.Sprintf("the go command resolved latest to %s (witness %q), published %s", upVersion, w, version))
				}
				continue
			}
			for _, nm := range names {
				for _, e := range expandC11(nm) {
					u, v := ucfg.HasCounter(prog, e), vcfg.HasCounter(prog, e)
					if u != approved[nm] {
						res.Violate("uploader-config-stale", fmt.Sprintf("release %s: uploader's configuration says %q approved=%v, published %v", version, e, u, approved[nm]), rp)
					}
					if v != u {
						res.Violate("viewer-config-stale", fmt.Sprintf("release %s (release %d of this process): viewer says %q approved=%v, the uploader %v", version, rel, e, v, u), rp)
					}
				}
			}
			if rel > 0 {
				res.Hit("config-released-while-viewer-runs")
			}
		}
		// (module cache directories are read-only)
		filepath.Walk(dir, func(p string, info os.FileInfo, err error) error {
			if err == nil && info.IsDir() {
				os.Chmod(p, 0o777)
			}
			return nil
		})
		os.RemoveAll(dir)
	}
	res.Require("config-released-while-viewer-runs")
	if err := res.Write(); err != nil {
		t.Fatal(err)
	}
}

func expandC11(name string) []string {
	for i := 0; i < len(name); i++ {
		if name[i] == '{' {
			var out []string
			cur := ""
			for _, c := range name[i+1 : len(name)-1] {
				if c == ',' {
					out = append(out, name[:i]+cur)
					cur = ""
				} else {
					cur += string(c)
				}
			}
			return append(out, name[:i]+cur)
		}
	}
	return []string{name}
}

// c11GoResolves asks the go command, under the process's current environment,
// which version of the configuration module "latest" is.
func c11GoResolves() string {
	dir, err := os.MkdirTemp("", "c11w")
	if err != nil {
		return ""
	}
	defer os.RemoveAll(dir)
	os.WriteFile(filepath.Join(dir, "go.mod"), []byte("module witness\n\ngo 1.20\n"), 0o644)
	cmd := exec.Command("go", "mod", "download", "-json", configstore.ModulePath+"@latest")
	cmd.Dir = dir
	out, _ := cmd.Output()
	var v struct{ Version string }
	json.Unmarshal(out, &v)
	return v.Version
}
