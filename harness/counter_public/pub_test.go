//go:build verif

package counter

import (
	"bytes"
	"crypto/sha256"
	"encoding/hex"
	"errors"
	"flag"
	"fmt"
	"os"
	"os/exec"
	"path/filepath"
	"sort"
	"strings"
	"syscall"
	"testing"
	"time"

	"golang.org/x/telemetry/internal/verifref"
	"golang.org/x/telemetry/internal/verifrt"
)

// Public counter API as a host program uses it, in a real child process (the
// test binary re-executed through an init hook) with the user configuration
// directory redirected to a hostile state.
//   C05.public  the host is never crashed, hung or blocked
//   C02.public  with mode off the counter API creates, changes or removes nothing

func init() {
	if os.Getenv("VERIF_PUB_APP") == "" {
		return
	}
	// what a host program does
	switch os.Getenv("VERIF_PUB_APP") {
	case "rotate":
		OpenAndRotate()
	case "late-open":
		// many counters are used (package initialisers, flag parsing) before
		// the program gets to open the counter file: the open flushes them
		// all, extending the file several times on the way
		for i := 0; i < 700; i++ {
			Inc(fmt.Sprintf("verif/early/%d/%s", i, strings.Repeat("e", i%90)))
		}
		Open()
	default:
		Open()
	}
	Inc("verif/a")
	New("verif/b").Add(3)
	Add("verif/a", 2)
	NewStack("verif/stack", 4).Inc()
	fs := flag.NewFlagSet("x", flag.ContinueOnError)
	fs.Bool("v", false, "")
	fs.Parse([]string{"-v"})
	CountFlags("verif/flag:", *fs)
	for i := 0; i < 12; i++ {
		Inc(fmt.Sprintf("verif/grow/%d/%s", i, strings.Repeat("g", 3800)))
	}
	Inc("verif/a")
	fmt.Println("HOST-OK")
	os.Exit(0)
}

type pubEnt struct {
	Dir bool
	Sum string
}

func pubSnap(root string) map[string]pubEnt {
	m := map[string]pubEnt{}
	filepath.Walk(root, func(p string, info os.FileInfo, err error) error {
		if err != nil || p == root {
			return nil
		}
		rel, _ := filepath.Rel(root, p)
		e := pubEnt{Dir: info.IsDir()}
		if info.Mode().IsRegular() {
			b, _ := os.ReadFile(p)
			h := sha256.Sum256(b)
			e.Sum = hex.EncodeToString(h[:8])
		}
		m[rel] = e
		return nil
	})
	return m
}

func runHost(home, mode string) (string, string, error) { return runHostTraced(home, mode, "") }

// runHostTraced runs the host program, under strace when trace names a file.
func runHostTraced(home, mode, trace string) (string, string, error) {
	cmd := exec.Command(os.Args[0])
	if trace != "" {
		cmd = verifrt.StraceCommand(trace, os.Args[0])
	}
	env := []string{}
	for _, kv := range os.Environ() {
		k := strings.SplitN(kv, "=", 2)[0]
		switch k {
		case "XDG_CONFIG_HOME", "HOME", "GO_TELEMETRY_CHILD", "VERIF_BATCH":
			continue
		}
		env = append(env, kv)
	}
	cmd.Env = append(env, "XDG_CONFIG_HOME="+home, "HOME="+home, "VERIF_PUB_APP="+mode)
	var out, errb bytes.Buffer
	cmd.Stdout = &out
	cmd.Stderr = &errb
	// The host gets a process group of its own and a generous watchdog: a host
	// that never finishes (it normally takes a few milliseconds) is killed with
	// its descendants instead of being left behind spinning.
	cmd.SysProcAttr = &syscall.SysProcAttr{Setpgid: true}
	if err := cmd.Start(); err != nil {
		return "", "", err
	}
	done := make(chan error, 1)
	go func() { done <- cmd.Wait() }()
	select {
	case err := <-done:
		return out.String(), errb.String(), err
	case <-time.After(3 * time.Minute):
		syscall.Kill(-cmd.Process.Pid, syscall.SIGKILL)
		<-done
		return out.String(), errb.String() + "\nVERIF-WATCHDOG: host killed after 3 minutes", errHostWatchdog
	}
}

var errHostWatchdog = errors.New("host did not finish within the 3-minute watchdog")

func TestVerifPublic(t *testing.T) {
	c05 := verifrt.NewResult("C05.public")
	c02 := verifrt.NewResult("C02.public")
	c05.Rule = "a host program (this binary re-executed) calls counter.Open/OpenAndRotate, Inc, Add, New().Add, NewStack().Inc, CountFlags and twelve 3.8 KB counter names (file growth) with the user configuration directory in hostile states: missing, a regular file, local a file / dangling symlink / symlink loop, weekends a directory / empty / garbage, mode a directory / garbage, and the process's own counter file (created by a first healthy run, then) emptied, truncated, replaced by random bytes, by a directory, by a file with other metadata, or damaged in header length / limit / bucket heads / links (self, ring) / name lengths. Oracle: the host prints HOST-OK and exits 0 within the watchdog. distinct = distinct states"
	c02.Rule = "the same host program with the mode file reading off (plain, dated, with surrounding blanks) over empty, populated and partially populated directories: the directory snapshot (names, types, content hashes) is identical afterwards, and the host's system calls recorded by strace -f (opens with O_CREAT/O_TRUNC, unlink, rename, mkdir, truncate, chmod, utimensat, write/pwrite to fds decoded with -y) contain no successful creating/changing/removing call on a *.count or *.json path under the telemetry directory. distinct = distinct (mode text, directory) pairs"
	base, _ := os.MkdirTemp(os.Getenv("VERIF_TMP"), "pub-")
	defer os.RemoveAll(base)
	n := verifrt.Scale(80, 2000)
	for i := 0; i < n; i++ {
		if !verifrt.WantCase("C05.public", i) && !verifrt.WantCase("C02.public", i) {
			continue
		}
		rnd := verifrt.NewRand(verifrt.Seed(), fmt.Sprintf("public/%d", i))
		home, _ := os.MkdirTemp(base, "h")
		tdir := filepath.Join(home, "go", "telemetry")
		local := filepath.Join(tdir, "local")
		hostMode := verifrt.Pick(rnd, []string{"open", "rotate", "late-open"})
		if i%4 == 3 {
			// ---- mode off
			os.MkdirAll(tdir, 0o777)
			modeText := verifrt.Pick(rnd, []string{"off", "off 2024-01-02", " off ", "off\n"})
			switch rnd.Intn(3) {
			case 0:
			case 1:
				os.MkdirAll(local, 0o777)
				os.WriteFile(filepath.Join(local, "weekends"), []byte("1\n"), 0o666)
			default:
				// a directory populated by an earlier healthy run; it doubles as the
				// witness's self-test: the trace of a run that is allowed to write
				// must show the counter file being created
				ptrace := filepath.Join(base, fmt.Sprintf("ptrace-%d.txt", i))
				runHostTraced(home, "open", ptrace)
				if evs, err := verifrt.ParseStrace(ptrace); err == nil {
					for _, ev := range evs {
						for _, p := range ev.Paths {
							if strings.HasPrefix(p, tdir) && strings.HasSuffix(p, ".count") && ev.Mutation() == "open-create" {
								c02.Hit("witness-sees-counter-file-creation")
							}
						}
					}
				}
				os.Remove(ptrace)
			}
			os.WriteFile(filepath.Join(tdir, "mode"), []byte(modeText), 0o666)
			before := pubSnap(home)
			trace := filepath.Join(base, fmt.Sprintf("trace-%d.txt", i))
			out, errOut, err := runHostTraced(home, hostMode, trace)
			after := pubSnap(home)
			// second witness: the system calls of the host process
			if evs, terr := verifrt.ParseStrace(trace); terr != nil || len(evs) == 0 {
				c02.Inconc(fmt.Sprintf("no strace witness for case %d: %v (%d events)", i, terr, len(evs)))
			} else {
				c02.HitN("syscalls-observed", len(evs))
				under := 0
				for _, ev := range evs {
					for _, p := range ev.Paths {
						if !strings.HasPrefix(p, tdir+string(filepath.Separator)) {
							continue
						}
						under++
						rel, _ := filepath.Rel(home, p)
						mut := ev.Mutation()
						if mut == "open-create" {
							if _, existed := before[rel]; existed {
								mut = ""
							}
						}
						isData := strings.HasSuffix(p, ".count") || strings.HasSuffix(p, ".json")
						if mut != "" && isData {
							c02.Violate("off-counter-api-syscall:"+mut, fmt.Sprintf("mode file %q: the host process made the system call %s(%s) = %d on a counter file/report", modeText, ev.Name, ev.Args, ev.Ret),
								verifrt.CaseReplay(i, map[string]any{"mode": modeText, "syscall": ev.Name + "(" + ev.Args + ")"}))
						} else if mut != "" {
							c02.Hit("syscall-mutation-on-non-data:" + mut)
						}
					}
				}
				c02.HitN("syscalls-under-telemetry-dir", under)
				c02.Hit("strace-witness")
			}
			os.Remove(trace)
			c02.Eval()
			c02.Distinct(fmt.Sprintf("%q/%d", modeText, len(before)))
			rp := verifrt.CaseReplay(i, map[string]any{"mode": modeText, "stderr": fmt.Sprintf("%.300s", errOut)})
			if err != nil || !strings.Contains(out, "HOST-OK") {
				c05.Violate("host-failed:mode-off", fmt.Sprintf("host program failed with mode off: %v\n%.600s", err, errOut), rp)
			}
			var diff []string
			for k, v := range after {
				if w, ok := before[k]; !ok || w != v {
					diff = append(diff, k)
				}
			}
			for k := range before {
				if _, ok := after[k]; !ok {
					diff = append(diff, "-"+k)
				}
			}
			sort.Strings(diff)
			if len(diff) > 0 {
				c02.Violate("off-counter-api-wrote", fmt.Sprintf("mode file %q: the counter API created/changed/removed %v", modeText, diff), rp)
			}
			c02.Hit("mode-off-run")
			if len(before) > 3 {
				c02.Hit("populated-dir")
			}
			if i < 8 {
				c02.Sample(map[string]any{"case": i, "mode": modeText, "entries": len(before)})
			}
			os.RemoveAll(home)
			continue
		}
		// ---- hostile states
		state := ""
		damageOwnFile := func(f func(path string, d []byte, cf *verifref.CounterFile) ([]byte, bool)) bool {
			runHost(home, "open")
			files, _ := filepath.Glob(filepath.Join(local, "*.v1.count"))
			if len(files) == 0 {
				return false
			}
			d, err := os.ReadFile(files[0])
			if err != nil {
				return false
			}
			cf, _ := verifref.ParseCounterFile(d)
			out, keep := f(files[0], d, cf)
			if keep {
				os.WriteFile(files[0], out, 0o666)
			}
			c05.Hit("own-file-damaged")
			return true
		}
		put32 := func(d []byte, off uint32, v uint32) {
			if int(off)+4 <= len(d) {
				d[off], d[off+1], d[off+2], d[off+3] = byte(v), byte(v>>8), byte(v>>16), byte(v>>24)
			}
		}
		k := i % 24
		if i%48 == 24 {
			k = 3 // -> default: healthy re-run
		}
		switch k {
		case 0:
			state = "dir-missing"
		case 1:
			state = "telemetry-dir-is-file"
			os.MkdirAll(filepath.Dir(tdir), 0o777)
			os.WriteFile(tdir, []byte("x"), 0o666)
		case 2:
			state = "local-is-file"
			os.MkdirAll(tdir, 0o777)
			os.WriteFile(local, []byte("x"), 0o666)
		case 4:
			state = "local-dangling-symlink"
			os.MkdirAll(tdir, 0o777)
			os.Symlink(filepath.Join(home, "nowhere"), local)
		case 5:
			state = "local-symlink-loop"
			os.MkdirAll(tdir, 0o777)
			os.Symlink(local, local)
		case 6:
			state = "weekends-is-dir"
			os.MkdirAll(filepath.Join(local, "weekends"), 0o777)
		case 8:
			state = "weekends-empty"
			os.MkdirAll(local, 0o777)
			os.WriteFile(filepath.Join(local, "weekends"), nil, 0o666)
		case 9:
			state = "weekends-garbage"
			os.MkdirAll(local, 0o777)
			os.WriteFile(filepath.Join(local, "weekends"), verifrt.Pick(rnd, [][]byte{rnd.Bytes(1 + rnd.Intn(20)), []byte("\n"), []byte("  \t\n"), {0}, []byte("7"), []byte("-")}), 0o666)
		case 10:
			state = "mode-is-dir"
			os.MkdirAll(filepath.Join(tdir, "mode"), 0o777)
		case 12:
			state = "mode-garbage"
			os.MkdirAll(tdir, 0o777)
			os.WriteFile(filepath.Join(tdir, "mode"), rnd.Bytes(1+rnd.Intn(40)), 0o666)
		case 13:
			state = "own-file-empty"
			damageOwnFile(func(p string, d []byte, cf *verifref.CounterFile) ([]byte, bool) { return nil, true })
		case 14:
			state = "own-file-truncated"
			damageOwnFile(func(p string, d []byte, cf *verifref.CounterFile) ([]byte, bool) {
				return d[:verifrt.Pick(rnd, []int{1, 28, 100, 16383, len(d) - 16384})%len(d)], true
			})
		case 16:
			state = "own-file-random"
			damageOwnFile(func(p string, d []byte, cf *verifref.CounterFile) ([]byte, bool) { return rnd.Bytes(len(d)), true })
		case 17:
			state = "own-file-is-dir"
			damageOwnFile(func(p string, d []byte, cf *verifref.CounterFile) ([]byte, bool) {
				os.Remove(p)
				os.MkdirAll(p, 0o777)
				return nil, false
			})
		case 18:
			state = "own-file-other-metadata"
			damageOwnFile(func(p string, d []byte, cf *verifref.CounterFile) ([]byte, bool) {
				o, _ := verifref.BuildCounterFile("Program: somebody else\n\n", []verifref.Entry{{Name: "x", Value: 1}})
				return o, true
			})
		case 20:
			state = "own-file-links"
			damageOwnFile(func(p string, d []byte, cf *verifref.CounterFile) ([]byte, bool) {
				if cf == nil || len(cf.Records) == 0 {
					return d, true
				}
				for j, rec := range cf.Records {
					tgt := rec.Off
					if rnd.Bool() {
						tgt = cf.Records[(j+1)%len(cf.Records)].Off
					}
					put32(d, rec.Off+12, tgt)
				}
				return d, true
			})
		case 21:
			state = "own-file-limit"
			damageOwnFile(func(p string, d []byte, cf *verifref.CounterFile) ([]byte, bool) {
				if cf != nil {
					put32(d, cf.HdrLen, uint32(verifrt.Pick(rnd, []int{0, 1, 0xffffc001, -1, len(d) + 1, 0x7fffffff})))
				}
				return d, true
			})
		case 22:
			state = "own-file-heads-and-lengths"
			damageOwnFile(func(p string, d []byte, cf *verifref.CounterFile) ([]byte, bool) {
				if cf == nil {
					return d, true
				}
				for k := 0; k < 4; k++ {
					put32(d, cf.HdrLen+4+4*uint32(rnd.Intn(512)), uint32(verifrt.Pick(rnd, []int{1, 31, len(d) - 8, len(d), -1, int(cf.HdrLen)})))
				}
				if len(cf.Records) > 0 {
					put32(d, cf.Records[rnd.Intn(len(cf.Records))].Off+8, uint32(verifrt.Pick(rnd, []int{0, 0x00ffffff, len(d)})))
				}
				return d, true
			})
		case 23:
			state = "own-file-hdrlen"
			damageOwnFile(func(p string, d []byte, cf *verifref.CounterFile) ([]byte, bool) {
				put32(d, 28, uint32(verifrt.Pick(rnd, []int{0, 1, 31, 33, 16385, -1})))
				return d, true
			})
		default:
			state = "healthy-rerun"
			runHost(home, "open")
		}
		out, errOut, err := runHost(home, hostMode)
		c05.Eval()
		c05.Distinct(state)
		c05.Hit("state:" + state)
		c05.Hit("host:" + hostMode)
		rp := verifrt.CaseReplay(i, map[string]any{"state": state, "host": hostMode})
		if err == errHostWatchdog {
			// (a wall-clock watchdog is no verdict)
			c05.Inconc(fmt.Sprintf("host program in state %s did not finish within the watchdog and was killed", state))
		} else if err != nil || !strings.Contains(out, "HOST-OK") {
			sig := "host-crashed:" + state
			if strings.Contains(errOut, "fatal error") || strings.Contains(errOut, "panic:") || strings.Contains(errOut, "SIGSEGV") || strings.Contains(errOut, "SIGBUS") {
				sig = "host-crashed-by-telemetry:" + state
			}
			c05.Violate(sig, fmt.Sprintf("host program in state %s did not finish normally: %v\n%.1500s", state, err, errOut), rp)
		}
		if i < 3 {
			c05.Sample(map[string]any{"case": i, "state": state, "host": hostMode})
		}
		os.RemoveAll(home)
	}
	c05.Require("host:late-open", "state:dir-missing", "state:local-is-file", "state:own-file-links", "state:own-file-limit", "state:own-file-random", "state:healthy-rerun", "own-file-damaged")
	c02.Require("mode-off-run", "populated-dir", "strace-witness", "witness-sees-counter-file-creation", "syscalls-under-telemetry-dir")
	for _, r := range []*verifrt.Result{c05, c02} {
		if err := r.Write(); err != nil {
			t.Fatal(err)
		}
	}
}
