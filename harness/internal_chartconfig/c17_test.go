//go:build verif

package chartconfig

import (
	"fmt"
	"reflect"
	"runtime/debug"
	"strconv"
	"strings"
	"testing"

	"golang.org/x/telemetry/internal/verifrt"
)

// C17 (parser): Parse is total, and render -> Parse is the identity on valid record sets.

func guarded(fn func()) (pv any, stack string) {
	defer func() {
		if r := recover(); r != nil {
			pv = r
			stack = string(debug.Stack())
		}
	}()
	fn()
	return nil, ""
}

var c17Words = []string{"gopls", "editor", "go/cmd", "x.y/z", "Editor Distribution", "measure a, b; and c", "https://go.dev/issue/12345", "partition", "stack", "golang.org/x/tools/gopls", "cmd/go", "v1.2.3", "v0.14.0-pre.1", "go1.21", "ünïcode", "with : colon", "title: not a key", "a=b", "---x", "- - -", "'quoted'", "tab\tinside"}

func c17Value(r *verifrt.Rand) string {
	n := 1 + r.Intn(3)
	parts := make([]string, n)
	for i := range parts {
		parts[i] = c17Words[r.Intn(len(c17Words))]
	}
	return strings.TrimSpace(strings.Join(parts, " "))
}

func c17Bucket(r *verifrt.Rand) string {
	return verifrt.Pick(r, []string{"a", "b", "vim", "emacs", "vscode", "other", "1", "go1.21", "x-y", "with space", "ü", "<1s", "1m-10m", "v1.2.3"})
}

func c17Record(r *verifrt.Rand) (ChartConfig, []string) {
	var c ChartConfig
	var buckets []string
	if r.Intn(12) == 0 {
		// a record made of issue lines only (every field is optional, and issue
		// is the one that repeats)
		for k, n := 0, 1+r.Intn(3); k < n; k++ {
			c.Issue = append(c.Issue, c17Value(r))
		}
		return c, nil
	}
	if r.Intn(8) != 0 {
		c.Title = c17Value(r)
	}
	if r.Intn(2) == 0 {
		c.Description = c17Value(r)
	}
	if r.Intn(150) == 0 {
		// a very long line (a description pasted from elsewhere): lines have no length limit
		c.Description = "long " + strings.Repeat("lorem ipsum ", verifrt.Pick(r, []int{5460, 5470, 6000, 12000})) + "end"
	}
	for k, n := 0, r.Intn(4); k < n; k++ {
		c.Issue = append(c.Issue, c17Value(r))
	}
	if r.Intn(8) != 0 {
		c.Type = verifrt.Pick(r, []string{"partition", "stack", "histogram"})
	}
	if r.Intn(8) != 0 {
		c.Program = verifrt.Pick(r, []string{"golang.org/x/tools/gopls", "cmd/go", "cmd/compile", "example.com/tool"})
	}
	if r.Intn(3) != 0 {
		c.Module = verifrt.Pick(r, []string{"golang.org/x/tools/gopls", "cmd", "example.com/tool"})
	}
	if r.Intn(8) != 0 {
		name := verifrt.Pick(r, []string{"gopls/editor", "go/cmd", "crash/crash", "gopls/bug", "flag", "x"})
		nb := r.Intn(13)
		if nb == 0 {
			c.Counter = name
		} else {
			seen := map[string]bool{}
			for k := 0; k < nb; k++ {
				b := c17Bucket(r)
				if !seen[b] {
					seen[b] = true
					buckets = append(buckets, b)
				}
			}
			c.Counter = name + ":{" + strings.Join(buckets, ",") + "}"
		}
	}
	if r.Intn(3) == 0 {
		c.Depth = verifrt.Pick(r, []int{0, 1, 8, 16, -1, 1 << 40})
	}
	if r.Intn(4) == 0 {
		c.Error = verifrt.Pick(r, []float64{0, 0.1, 0.01, 1e-9, 1, 2.5e10})
	}
	if r.Intn(2) == 0 {
		c.Version = verifrt.Pick(r, []string{"v1.0.0", "v0.14.0", "go1.21", "go1.22.1", "not-a-version"})
	}
	return c, buckets
}

func isZero(c ChartConfig) bool { return reflect.DeepEqual(c, ChartConfig{}) }

// c17Render writes the records in the documented syntax, in a random field
// order, with comments, blank lines and multi-line bucket lists.
func c17Render(r *verifrt.Rand, recs []ChartConfig, buckets [][]string) string {
	var b strings.Builder
	comment := func() {
		if r.Intn(4) == 0 {
			b.WriteString(verifrt.Pick(r, []string{"# a comment\n", "\n", "   \n", "\t# indented comment\n", "#\n", "# counter: fake:{a,b}\n"}))
		}
	}
	for ri, c := range recs {
		if ri > 0 {
			b.WriteString("---\n")
		}
		type fld struct{ key, val string }
		var fs []fld
		if c.Title != "" {
			fs = append(fs, fld{"title", c.Title})
		}
		if c.Description != "" {
			fs = append(fs, fld{"description", c.Description})
		}
		if c.Type != "" {
			fs = append(fs, fld{"type", c.Type})
		}
		if c.Program != "" {
			fs = append(fs, fld{"program", c.Program})
		}
		if c.Module != "" {
			fs = append(fs, fld{"module", c.Module})
		}
		if c.Version != "" {
			fs = append(fs, fld{"version", c.Version})
		}
		if c.Depth != 0 || r.Intn(6) == 0 {
			fs = append(fs, fld{"depth", strconv.Itoa(c.Depth)})
		}
		if c.Error != 0 || r.Intn(6) == 0 {
			fs = append(fs, fld{"error", strconv.FormatFloat(c.Error, 'g', -1, 64)})
		}
		if c.Counter != "" {
			fs = append(fs, fld{"counter", c.Counter})
		}
		perm := r.Perm(len(fs))
		// issues keep their relative order but are interleaved anywhere
		issueAt := make([]int, len(c.Issue))
		for k := range issueAt {
			issueAt[k] = r.Intn(len(fs) + 1)
		}
		emitIssues := func(pos int) {
			for k, at := range issueAt {
				if at == pos {
					_ = k
				}
			}
		}
		_ = emitIssues
		// simple approach: build the line list, then insert issues at sorted random positions
		var lines []string
		for _, pi := range perm {
			f := fs[pi]
			if f.key == "counter" && len(buckets[ri]) > 0 && r.Intn(2) == 0 {
				// multi-line bucket list
				name := c.Counter[:strings.Index(c.Counter, "{")]
				bs := buckets[ri]
				chunks := 1 + r.Intn(6)
				line := "counter:" + verifrt.Pick(r, []string{"", " ", "  "}) + name + "{"
				var out []string
				per := (len(bs) + chunks - 1) / chunks
				for s := 0; s < len(bs); s += per {
					e := s + per
					if e > len(bs) {
						e = len(bs)
					}
					seg := strings.Join(bs[s:e], ",")
					if e < len(bs) {
						seg += ","
					}
					out = append(out, seg)
				}
				first := line
				if r.Bool() && len(out) > 0 {
					first += out[0]
					out = out[1:]
				}
				lines = append(lines, first+verifrt.Pick(r, []string{"", " # open", "   "}))
				for k, seg := range out {
					pad := verifrt.Pick(r, []string{"", "  ", "\t"})
					if k == len(out)-1 && r.Bool() {
						lines = append(lines, pad+seg+"}")
						seg = ""
						out = nil
						break
					}
					lines = append(lines, pad+seg+verifrt.Pick(r, []string{"", " # c"}))
				}
				if out != nil {
					lines = append(lines, verifrt.Pick(r, []string{"}", "  }", "} # done"}))
				}
				continue
			}
			sep := verifrt.Pick(r, []string{" ", "", "   ", "\t"})
			trail := verifrt.Pick(r, []string{"", "  ", " # trailing comment", "\t"})
			lines = append(lines, f.key+":"+sep+f.val+trail)
		}
		for _, is := range c.Issue {
			// insert only where no multi-line counter field is open
			safe := []int{0}
			depth := 0
			for li, l := range lines {
				depth += strings.Count(l, "{") - strings.Count(l, "}")
				if depth == 0 {
					safe = append(safe, li+1)
				}
			}
			pos := safe[r.Intn(len(safe))]
			lines = append(lines[:pos], append([]string{"issue: " + is}, lines[pos:]...)...)
		}
		// issue order must be preserved: re-emit in order
		k := 0
		for li, l := range lines {
			if strings.HasPrefix(l, "issue: ") {
				lines[li] = "issue: " + c.Issue[k]
				k++
			}
		}
		for _, l := range lines {
			comment()
			b.WriteString(l + "\n")
		}
		comment()
	}
	if r.Bool() {
		return strings.TrimSuffix(b.String(), "\n")
	}
	return b.String()
}

func TestVerifC17Parse(t *testing.T) {
	if verifrt.WantCheck("C17.total") {
		c17Total(t)
	}
	if verifrt.WantCheck("C17.roundtrip") {
		c17Roundtrip(t)
	}
}

func c17Total(t *testing.T) {
	const check = "C17.total"
	res := verifrt.NewResult(check)
	res.Rule = "Parse on random bytes, byte/line mutations of the shipped config.txt and grammar soup (keys, braces, separators, comments, CRLF): returns records or an error within the loop-tick budget, never panics. distinct = distinct inputs; non-trivial = input contains a known key"
	n := verifrt.Scale(20000, 2000000)
	soup := []string{"counter:", "title:", "issue:", "depth:", "error:", "version:", "type:", "program:", "module:", "description:", "{", "}", ",", "---", "\n", "\r\n", "#", " ", "a", "1", "x:{", "b,c", "-1", "1e400", "nope:", "\t", "\x00", "é"}
	raw := string(Raw())
	for i := 0; i < n; i++ {
		if !verifrt.WantCase(check, i) {
			continue
		}
		rnd := verifrt.NewRand(verifrt.Seed(), fmt.Sprintf("%s/%d", check, i))
		var in string
		switch i % 4 {
		case 0:
			in = string(rnd.Bytes(rnd.Intn(300)))
		case 1:
			b := []byte(raw)
			for k, m := 0, 1+rnd.Intn(5); k < m && len(b) > 0; k++ {
				p := rnd.Intn(len(b))
				switch rnd.Intn(4) {
				case 0:
					b[p] = byte(rnd.Intn(256))
				case 1:
					b = append(b[:p], b[p+1:]...)
				case 2:
					b = append(b[:p], append([]byte(soup[rnd.Intn(len(soup))]), b[p:]...)...)
				default:
					b = b[:p]
				}
			}
			in = string(b)
		default:
			var sb strings.Builder
			for k, m := 0, rnd.Intn(80); k < m; k++ {
				sb.WriteString(soup[rnd.Intn(len(soup))])
			}
			in = sb.String()
		}
		res.Eval()
		if strings.Contains(in, "counter:") || strings.Contains(in, "title:") {
			res.Distinct(in)
		}
		verifrt.SetTickBudget(int64(len(in))*64 + 100000)
		var err error
		var recs []ChartConfig
		pv, stack := guarded(func() { recs, err = Parse([]byte(in)) })
		over := verifrt.TickExceeded()
		verifrt.SetTickBudget(0)
		rp := verifrt.CaseReplay(i, map[string]any{"input": fmt.Sprintf("%.300q", in)})
		if over {
			res.Violate("parse-loop", "Parse exceeded the loop-tick budget", rp)
		} else if pv != nil {
			res.Violate("parse-panic", fmt.Sprintf("Parse panicked: %v\n%.800s", pv, stack), rp)
		} else if err == nil {
			res.Hit("accepted")
			_ = recs
		} else {
			res.Hit("rejected")
		}
	}
	res.Sample(map[string]any{"soup": soup})
	res.Require("accepted", "rejected")
	if err := res.Write(); err != nil {
		t.Fatal(err)
	}
}

func c17Roundtrip(t *testing.T) {
	const check = "C17.roundtrip"
	res := verifrt.NewResult(check)
	res.Rule = "random record sets (1-6 records; every field independently present/absent; 0-3 issue lines anywhere in the record; counters with 0-12 buckets split over 1-6 lines; depth/error incl. 0 and negatives; now and then a description line of 65-144 KB) rendered by an independent renderer following the package documentation (random field order, key/value spacing, trailing comments, blank and comment lines, optional final newline) must parse back to exactly the same records (reflect.DeepEqual). distinct = distinct rendered texts; non-trivial = >= 2 records or a multi-line counter"
	n := verifrt.Scale(3000, 300000)
	for i := 0; i < n; i++ {
		if !verifrt.WantCase(check, i) {
			continue
		}
		rnd := verifrt.NewRand(verifrt.Seed(), fmt.Sprintf("%s/%d", check, i))
		var recs []ChartConfig
		var bks [][]string
		for k, m := 0, 1+rnd.Intn(6); k < m; k++ {
			c, b := c17Record(rnd)
			if isZero(c) {
				c.Title = "t"
			}
			recs = append(recs, c)
			bks = append(bks, b)
		}
		text := c17Render(rnd, recs, bks)
		res.Eval()
		if len(recs) >= 2 || strings.Count(text, "{") > 0 {
			res.Distinct(text)
		}
		got, err := Parse([]byte(text))
		rp := verifrt.CaseReplay(i, map[string]any{"text": fmt.Sprintf("%.4000s", text), "text_len": len(text)})
		if err != nil {
			res.Violate("valid-text-rejected", fmt.Sprintf("Parse rejected a rendering of valid records: %v\n%s", err, text), rp)
			continue
		}
		if !reflect.DeepEqual(got, recs) {
			d := ""
			for k := 0; k < len(got) && k < len(recs); k++ {
				if !reflect.DeepEqual(got[k], recs[k]) {
					d = fmt.Sprintf("record %d: got %#v want %#v", k, got[k], recs[k])
					break
				}
			}
			if d == "" {
				d = fmt.Sprintf("%d records parsed, %d rendered", len(got), len(recs))
			}
			res.Violate("roundtrip-mismatch", fmt.Sprintf("%.1500s\n--- text (%d bytes):\n%.3000s", d, len(text), text), rp)
			continue
		}
		if len(recs) > 1 {
			res.Hit("multi-record")
		}
		for _, c := range recs {
			if len(c.Issue) > 1 {
				res.Hit("repeated-issue")
			}
		}
		if strings.Contains(text, "{\n") || strings.Contains(text, ",\n") {
			res.Hit("multi-line-counter")
		}
		if len(text) > 70000 {
			res.Hit("line-longer-than-64KiB")
		}
		if i < 2 {
			res.Sample(map[string]any{"case": i, "text": text})
		}
	}
	res.Require("multi-record", "repeated-issue", "multi-line-counter", "line-longer-than-64KiB")
	if err := res.Write(); err != nil {
		t.Fatal(err)
	}
}
