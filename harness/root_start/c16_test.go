//go:build verif

package telemetry

import (
	"bufio"
	"encoding/json"
	"fmt"
	"os"
	"os/exec"
	"path/filepath"
	"reflect"
	"strconv"
	"strings"
	"sync/atomic"
	"syscall"
	"testing"
	"time"

	itelemetry "golang.org/x/telemetry/internal/telemetry"
	"golang.org/x/telemetry/internal/verifrt"
)

// C16: the telemetry sidecar starts only when permitted and never recursively.
//
// The test binary doubles as the application: when VERIF_START_APP is set, an
// init hook logs the process (pid, ppid, child markers, argv) and calls
// telemetry.Start with a configuration taken from the environment. A copy of
// the binary named "go" is first on PATH, so the `go` command the uploader
// child executes is itself a telemetry-using program started by a descendant
// of the sidecar.

type procRec struct {
	Pid    int      `json:"pid"`
	Ppid   int      `json:"ppid"`
	Marker string   `json:"marker"`
	Set    bool     `json:"marker_set"`
	Upload string   `json:"upload"`
	Argv   []string `json:"argv"`
	Role   string   `json:"role"`
}

func init() {
	if os.Getenv("VERIF_START_APP") == "" {
		return
	}
	m, set := os.LookupEnv("GO_TELEMETRY_CHILD")
	rec := procRec{Pid: os.Getpid(), Ppid: os.Getppid(), Marker: m, Set: set, Upload: os.Getenv("GO_TELEMETRY_CHILD_UPLOAD"), Argv: os.Args, Role: filepath.Base(os.Args[0])}
	b, _ := json.Marshal(rec)
	if f, err := os.OpenFile(os.Getenv("VERIF_START_LOG"), os.O_APPEND|os.O_WRONLY|os.O_CREATE, 0o644); err == nil {
		f.Write(append(b, '\n'))
		f.Close()
	}
	cfg := Config{UploadURL: os.Getenv("VERIF_START_URL")}
	flags := os.Getenv("VERIF_START_CFG")
	cfg.ReportCrashes = strings.Contains(flags, "crash")
	cfg.Upload = strings.Contains(flags, "upload")
	if d := os.Getenv("VERIF_START_TDIR"); d != "" {
		cfg.TelemetryDir = d
	}
	cfg.UploadStartTime = time.Date(2024, 5, 5, 12, 0, 0, 0, time.UTC)
	switch os.Getenv("VERIF_START_UPLOADTIME") {
	case "future":
		// (the documented way of simulating a later upload; the token's age is a
		// matter of the real clock all the same)
		cfg.UploadStartTime = time.Now().Add(72 * time.Hour)
	case "now":
		cfg.UploadStartTime = time.Now()
	case "zero":
		cfg.UploadStartTime = time.Time{}
	}
	res := Start(cfg)
	_ = res
	if os.Getenv("VERIF_START_TWICE") != "" {
		// a program that calls Start a second time (a library and its host both do)
		Start(cfg)
	}
	os.Exit(0)
}

type c16row struct {
	Marker   string // "unset" or the value
	Crash    bool
	Upload   bool
	Mode     string // on | local | off | garbage | missing
	Token    string // absent | fresh:<dur> | stale:<dur>
	UseTDir  bool   // pass Config.TelemetryDir (the default location then holds mode on)
	LocalDir bool   // local/ exists beforehand
}

func (r c16row) String() string {
	return fmt.Sprintf("marker=%s crash=%v upload=%v mode=%s token=%s tdir=%v local=%v", r.Marker, r.Crash, r.Upload, r.Mode, r.Token, r.UseTDir, r.LocalDir)
}

func c16Rows() []c16row {
	var rows []c16row
	for _, m := range []string{"unset", "", "1", "2", "3", "x"} {
		for _, crash := range []bool{false, true} {
			for _, up := range []bool{false, true} {
				for _, mode := range []string{"on", "local", "off", "garbage", "missing"} {
					for _, tok := range []string{"absent", "fresh:1s", "fresh:1h", "fresh:23h59m", "stale:24h1m", "stale:25h", "stale:87600h", "fresh:-2h"} /* (-2h: taken before the clock was set back, or stamped by a file server running ahead) */ {
						rows = append(rows, c16row{Marker: m, Crash: crash, Upload: up, Mode: mode, Token: tok, UseTDir: (len(rows)/3)%2 == 1, LocalDir: len(rows)%3 != 0})
					}
				}
			}
		}
	}
	return rows
}

func snapshotDir(root string) map[string]string {
	m := map[string]string{}
	filepath.Walk(root, func(p string, info os.FileInfo, err error) error {
		if err != nil || p == root {
			return nil
		}
		rel, _ := filepath.Rel(root, p)
		if info.IsDir() {
			m[rel] = "dir"
		} else {
			b, _ := os.ReadFile(p)
			m[rel] = fmt.Sprintf("%d:%s", len(b), verifrt.Hash(b))
		}
		return nil
	})
	return m
}

// waitGone waits until no process carries VERIF_RUN_ID=id in its environment.
func waitGone(id string, limit time.Duration) bool {
	deadline := time.Now().Add(limit)
	needle := []byte("VERIF_RUN_ID=" + id + "\x00")
	for {
		found := false
		ents, _ := os.ReadDir("/proc")
		for _, e := range ents {
			if _, err := strconv.Atoi(e.Name()); err != nil {
				continue
			}
			b, err := os.ReadFile("/proc/" + e.Name() + "/environ")
			if err != nil {
				continue
			}
			if strings.Contains(string(b)+"\x00", string(needle)) {
				// zombies keep no environ; a live descendant is still running
				found = true
				break
			}
		}
		if !found {
			return true
		}
		if time.Now().After(deadline) {
			return false
		}
		time.Sleep(3 * time.Millisecond)
	}
}

func readLog(path string) []procRec {
	var out []procRec
	f, err := os.Open(path)
	if err != nil {
		return nil
	}
	defer f.Close()
	sc := bufio.NewScanner(f)
	for sc.Scan() {
		var r procRec
		if json.Unmarshal(sc.Bytes(), &r) == nil {
			out = append(out, r)
		}
	}
	return out
}

type c16env struct {
	base   string
	bindir string
}

func newC16env() *c16env {
	base, _ := os.MkdirTemp(os.Getenv("VERIF_TMP"), "c16-")
	e := &c16env{base: base, bindir: filepath.Join(base, "bin")}
	os.MkdirAll(e.bindir, 0o755)
	// "go" on PATH is this very binary
	exe, _ := os.Executable()
	if err := os.Link(exe, filepath.Join(e.bindir, "go")); err != nil {
		b, _ := os.ReadFile(exe)
		os.WriteFile(filepath.Join(e.bindir, "go"), b, 0o755)
	}
	return e
}

func (e *c16env) runRow(res *verifrt.Result, idx int, row c16row) {
	work, _ := os.MkdirTemp(e.base, "r")
	defer os.RemoveAll(work)
	xdg := filepath.Join(work, "xdg")
	defDir := filepath.Join(xdg, "go", "telemetry")
	tdir := defDir
	if row.UseTDir {
		tdir = filepath.Join(work, "custom-telemetry")
		// the default location says "on" and has been used before
		os.MkdirAll(filepath.Join(defDir, "local"), 0o777)
		os.WriteFile(filepath.Join(defDir, "mode"), []byte("on 2020-01-01"), 0o666)
	}
	os.MkdirAll(tdir, 0o777)
	if idx%4 == 1 {
		// the user has asked for debug logs (a debug/ directory exists): with
		// mode off those are not written either
		os.MkdirAll(filepath.Join(tdir, "debug"), 0o777)
	}
	if row.LocalDir {
		os.MkdirAll(filepath.Join(tdir, "local"), 0o777)
		os.WriteFile(filepath.Join(tdir, "local", "weekends"), []byte("2\n"), 0o666)
	}
	switch row.Mode {
	case "on":
		os.WriteFile(filepath.Join(tdir, "mode"), []byte("on 2020-01-01"), 0o666)
	case "local":
		os.WriteFile(filepath.Join(tdir, "mode"), []byte("local"), 0o666)
	case "off":
		// (whatever follows the word: an unparseable date does not turn telemetry on)
		offTexts := []string{"off 2023-03-03", "off", "off 2024-9-3", "off  2024-01-05", "off 2024-02-30", "off 2024-01-05T10:11:12Z", "off since yesterday", " off\n", "off 2023-03-03 extra", "off\n", "off\r\n", "\toff"}
		os.WriteFile(filepath.Join(tdir, "mode"), []byte(offTexts[idx%len(offTexts)]), 0o666)
	case "garbage":
		os.WriteFile(filepath.Join(tdir, "mode"), []byte("\x00\xffwhatever"), 0o666)
	}
	tokenPath := filepath.Join(tdir, "local", "upload.token")
	if row.Token != "absent" {
		os.MkdirAll(filepath.Join(tdir, "local"), 0o777)
		os.WriteFile(tokenPath, nil, 0o666)
		d, _ := time.ParseDuration(strings.SplitN(row.Token, ":", 2)[1])
		at := time.Now().Add(-d)
		os.Chtimes(tokenPath, at, at)
	}
	before := snapshotDir(tdir)
	logPath := filepath.Join(work, "procs.log")
	runID := fmt.Sprintf("%d-%d-%d", os.Getpid(), idx, time.Now().UnixNano())
	cmd := exec.Command(os.Args[0])
	trace := ""
	if row.Mode == "off" && (row.Marker == "unset" || row.Marker == "") {
		// second witness for "nothing is launched and nothing is written": the
		// system calls of the application and everything it starts
		trace = filepath.Join(work, "strace.txt")
		cmd = verifrt.StraceCommand(trace, os.Args[0])
	}
	env := []string{}
	for _, kv := range os.Environ() {
		k := strings.SplitN(kv, "=", 2)[0]
		switch k {
		case "GO_TELEMETRY_CHILD", "GO_TELEMETRY_CHILD_UPLOAD", "XDG_CONFIG_HOME", "HOME", "PATH", "VERIF_BATCH":
			continue
		}
		env = append(env, kv)
	}
	var flags []string
	if row.Crash {
		flags = append(flags, "crash")
	}
	if row.Upload {
		flags = append(flags, "upload")
	}
	env = append(env, "XDG_CONFIG_HOME="+xdg, "HOME="+work, "PATH="+e.bindir+":"+os.Getenv("PATH"), "VERIF_START_APP=1", "VERIF_START_LOG="+logPath,
		"VERIF_START_CFG="+strings.Join(flags, ","), "VERIF_START_URL=http://127.0.0.1:1/upload", "VERIF_RUN_ID="+runID, "GOPROXY=off", "GOFLAGS=", "VERIF_START_UPLOADTIME="+[]string{"fixed-past", "future", "now", "zero"}[idx%4])
	if row.UseTDir {
		env = append(env, "VERIF_START_TDIR="+tdir)
	}
	if row.Marker != "unset" {
		env = append(env, "GO_TELEMETRY_CHILD="+row.Marker)
		if row.Marker == "1" && row.Upload {
			env = append(env, "GO_TELEMETRY_CHILD_UPLOAD=1")
		}
	}
	cmd.Env = env
	cmd.Stdin = nil
	cmd.SysProcAttr = &syscall.SysProcAttr{Setsid: true}
	cmd.Run()
	gone := waitGone(runID, 20*time.Second)
	rp := verifrt.CaseReplay(idx, map[string]any{"row": row.String()})
	if !gone {
		res.Inconc("descendants of row [" + row.String() + "] still alive after 20s")
		return
	}
	recs := readLog(logPath)
	after := snapshotDir(tdir)
	res.Eval()
	res.Distinct(row.String())
	if len(recs) == 0 {
		res.Inconc("application did not log itself: " + row.String())
		return
	}
	app := recs[0]
	byPid := map[int]procRec{}
	for _, r := range recs {
		byPid[r.Pid] = r
	}
	var sidecars []procRec
	for _, r := range recs[1:] {
		// (the application usually exits before the sidecar logs itself, so the
		// sidecar's parent pid is 1 by then: identify it by its argument)
		if len(r.Argv) > 1 && r.Argv[1] == "** telemetry **" {
			sidecars = append(sidecars, r)
		}
	}
	// expected
	modeOff := row.Mode == "off"
	markerFree := row.Marker == "unset" || row.Marker == ""
	tokenFree := row.Token == "absent" || strings.HasPrefix(row.Token, "stale")
	acquire := row.Upload && tokenFree
	wantSidecar := markerFree && !modeOff && (row.Crash || acquire)
	if wantSidecar != (len(sidecars) > 0) {
		res.Violate("sidecar-launch", fmt.Sprintf("row [%s]: sidecar launched=%v, permitted/required=%v (processes: %+v)", row.String(), len(sidecars) > 0, wantSidecar, recs), rp)
	}
	if len(sidecars) > 1 {
		res.Violate("several-sidecars", fmt.Sprintf("row [%s]: %d sidecars", row.String(), len(sidecars)), rp)
	}
	for _, s := range sidecars {
		res.Hit("sidecar-launched")
		if s.Marker != "1" {
			res.Violate("sidecar-marker", "sidecar started with marker "+s.Marker, rp)
		}
		if (s.Upload == "1") != acquire {
			res.Violate("upload-flag", fmt.Sprintf("row [%s]: sidecar upload flag %q, token acquired should be %v", row.String(), s.Upload, acquire), rp)
		}
	}
	// no recursion: nobody whose marker is 1 or 2 (or with such an ancestor) starts a marker-1 child
	for _, r := range recs {
		if r.Marker != "1" || r.Pid == app.Pid {
			continue
		}
		p, ok := byPid[r.Ppid]
		for ok {
			if p.Marker == "1" || p.Marker == "2" {
				res.Violate("recursive-sidecar", fmt.Sprintf("row [%s]: process %d (marker %s) has a marker-1 descendant %d", row.String(), p.Pid, p.Marker, r.Pid), rp)
				break
			}
			p, ok = byPid[p.Ppid]
		}
	}
	for _, r := range recs[1:] {
		if r.Marker == "2" {
			res.Hit("descendant-with-marker-2")
		}
	}
	if modeOff && !markerFree {
		// a process that carries a child marker (it is, or descends from, a sidecar):
		// with mode off it too starts nothing and writes nothing
		res.Hit("mode-off-with-marker")
		if len(recs) > 1 {
			res.Violate("off-launched:marked", fmt.Sprintf("row [%s]: mode off but %d further processes were started", row.String(), len(recs)-1), rp)
		}
		if d := diffSnap(before, after); d != "" {
			res.Violate("off-wrote:marked", fmt.Sprintf("row [%s]: mode off but the telemetry directory changed: %s", row.String(), d), rp)
		}
	}
	if modeOff && markerFree {
		res.Hit("mode-off")
		if len(recs) > 1 {
			res.Violate("off-launched", fmt.Sprintf("row [%s]: mode off but %d further processes were started", row.String(), len(recs)-1), rp)
		}
		if d := diffSnap(before, after); d != "" {
			res.Violate("off-wrote", fmt.Sprintf("row [%s]: mode off but the telemetry directory changed: %s", row.String(), d), rp)
		}
		if evs, err := verifrt.ParseStrace(trace); err != nil || len(evs) == 0 {
			res.Inconc(fmt.Sprintf("row [%s]: no strace witness (%v, %d events)", row.String(), err, len(evs)))
		} else {
			res.Hit("mode-off-strace-witness")
			execs := 0
			for _, ev := range evs {
				if ev.Name == "execve" && ev.Err == "" && ev.Ret == 0 {
					execs++
					if execs > 1 {
						res.Violate("off-launched:execve", fmt.Sprintf("row [%s]: mode off but the application executed %s(%.200s)", row.String(), ev.Name, ev.Args), rp)
					}
					continue
				}
				for _, p := range ev.Paths {
					if (p == tdir || strings.HasPrefix(p, tdir+string(filepath.Separator))) && ev.Mutation() != "" {
						if ev.Mutation() == "open-create" {
							if rel, _ := filepath.Rel(tdir, p); before[rel] != "" {
								continue
							}
						}
						res.Violate("off-wrote:syscall:"+ev.Mutation(), fmt.Sprintf("row [%s]: mode off but the application made the system call %s(%.300s) = %d", row.String(), ev.Name, ev.Args, ev.Ret), rp)
					}
				}
			}
		}
	}
	if row.Marker == "2" || row.Marker == "3" || row.Marker == "x" {
		if len(recs) > 1 {
			res.Violate("marked-process-launched", fmt.Sprintf("row [%s]: a process with marker %q started %d processes", row.String(), row.Marker, len(recs)-1), rp)
		}
	}
	if markerFree && !modeOff && row.Upload {
		// token file state
		_, err := os.Stat(tokenPath)
		if acquire && err != nil {
			res.Violate("token-missing-after-acquire", "token acquired but no token file", rp)
		}
		if acquire {
			res.Hit("token-acquired")
		} else {
			res.Hit("token-refused")
		}
	}
	if idx < 2 {
		res.Sample(map[string]any{"row": row.String(), "processes": recs})
	}
}

func diffSnap(a, b map[string]string) string {
	var ds []string
	for k, v := range b {
		if w, ok := a[k]; !ok {
			ds = append(ds, "+"+k)
		} else if w != v {
			ds = append(ds, "~"+k)
		}
	}
	for k := range a {
		if _, ok := b[k]; !ok {
			ds = append(ds, "-"+k)
		}
	}
	return strings.Join(ds, " ")
}

func TestVerifC16Table(t *testing.T) {
	const check = "C16.table"
	res := verifrt.NewResult(check)
	res.Rule = "the full decision table {child marker unset, '', 1, 2, 3, x} x {ReportCrashes} x {Upload} x {mode on, local, off, garbage, missing} x {token absent, fresh 1s/1h/23h59m and dated 2h ahead of the clock, stale 24h1m/25h/10y} (960 rows; Config.TelemetryDir vs default location and pre-existing local/ alternate over the rows) run as real processes: the application (this binary re-executed), its sidecar, and the `go` command the uploader child runs (this binary again, first on PATH). Every process appends {pid, ppid, markers, argv} to a log before calling telemetry.Start. Oracle from the log and directory snapshots: sidecar iff permitted; upload flag iff token acquired; no marker-1 process below a marker-1/2 process; mode off: nothing started, nothing written — also judged on the system calls of the whole process tree recorded by strace -f (no execve beyond the application's own, no successful create/truncate/unlink/rename/mkdir/chmod/touch/write on a path under the telemetry directory). distinct = table rows (each run once; quick tier: every third row rotating with the seed, thorough: all)"
	rows := c16Rows()
	nb := 16
	per := (len(rows) + nb - 1) / nb
	verifrt.RunBatches("TestVerifC16Table", res, nb, 0, 30*time.Minute, "c16.death", func(b int, r *verifrt.Result, cur *verifrt.Current) {
		e := newC16env()
		defer os.RemoveAll(e.base)
		lo, hi := verifrt.CaseRange(check, b, per)
		for i := lo; i < hi && i < len(rows); i++ {
			if _, rp := verifrt.Replaying(); !rp && !verifrt.Thorough() && (i+int(verifrt.Seed()))%3 != 0 {
				continue
			}
			if cur != nil {
				cur.Set(rows[i].String())
			}
			e.runRow(r, i, rows[i])
		}
	})
	res.Extra["table_rows"] = len(rows)
	res.Require("sidecar-launched", "mode-off", "mode-off-strace-witness", "token-acquired", "token-refused", "descendant-with-marker-2")
	if err := res.Write(); err != nil {
		t.Fatal(err)
	}
}

// TestVerifC16Token: concurrent starters racing for the upload token.
// c16Zone builds a time zone (TZif version 1 data) whose UTC offset changes
// from `before` to `after` seconds at the instant at.
func c16Zone(at time.Time, before, after int32) *time.Location {
	return verifrt.ShiftZone(at, before, after)
}

// c16UploadTime rotates the Config.UploadStartTime the real starters use.
var c16UploadTimeN atomic.Int64

func c16UploadTime() string {
	return []string{"fixed-past", "future", "now", "zero", "future"}[c16UploadTimeN.Add(1)%5]
}

// c16Acquire calls acquireUploadToken through reflection, passing zero values
// for whatever parameters it has (a refactored signature must not stop the
// check from compiling).
func c16Acquire() bool {
	f := reflect.ValueOf(acquireUploadToken)
	var args []reflect.Value
	for i := 0; i < f.Type().NumIn(); i++ {
		args = append(args, reflect.Zero(f.Type().In(i)))
	}
	out := f.Call(args)
	return len(out) > 0 && out[0].Kind() == reflect.Bool && out[0].Bool()
}

func TestVerifC16Token(t *testing.T) {
	const check = "C16.token"
	res := verifrt.NewResult(check)
	res.Rule = "2-6 virtual threads call acquireUploadToken on one directory under the token-passing scheduler (scheduling point at its Stat/Remove/OpenFile), token initially absent or fresh (written 0s..23h45m ago; stale-token races are excluded by the property), the process's local time zone set to UTC, fixed +14h/-11h offsets or a synthetic zone whose offset changed by an hour within the last day, in every other case with an injected failure (ENOSPC, EACCES, EMFILE, EROFS, EIO, ENOENT, EDQUOT) of one or all of the token file's Stat/Remove/OpenFile calls, strategies park-at-k / PCT / random; then 2-24 real processes started together with Upload set; and two-starter histories in which the first takes the token but cannot launch its sidecar (unopenable log file in the debug directory). Oracle: at most one caller acquires (true returns / sidecars with the upload flag) and only a caller whose exclusive create succeeded (from the system-call event log). distinct = distinct traces"
	base, _ := os.MkdirTemp(os.Getenv("VERIF_TMP"), "c16t-")
	defer os.RemoveAll(base)
	n := verifrt.Scale(600, 30000)
	saved := itelemetry.Default
	defer func() { itelemetry.Default = saved }()
	for i := 0; i < n; i++ {
		if !verifrt.WantCase(check, i) {
			continue
		}
		rnd := verifrt.NewRand(verifrt.Seed(), fmt.Sprintf("%s/%d", check, i))
		dir, _ := os.MkdirTemp(base, "t")
		itelemetry.Default = itelemetry.NewDir(dir)
		os.MkdirAll(itelemetry.Default.LocalDir(), 0o777)
		fresh := i%4 == 3
		if fresh {
			// a token acquired up to 23h59m ago is still fresh, whatever the local
			// time zone did meanwhile (a day with a daylight-saving change is 23
			// or 25 hours long on the wall clock)
			tp := filepath.Join(itelemetry.Default.LocalDir(), "upload.token")
			os.WriteFile(tp, nil, 0o666)
			age := verifrt.Pick(rnd, []time.Duration{0, time.Hour, 12 * time.Hour, 23 * time.Hour, 23*time.Hour + 30*time.Minute, 23*time.Hour + 45*time.Minute, -time.Minute, -3 * time.Hour}) // (a quarter of an hour of slack for a stalled machine)
			at := time.Now().Add(-age)
			os.Chtimes(tp, at, at)
			res.Hit(fmt.Sprintf("fresh-token-age:%v", age))
		}
		zone := verifrt.Pick(rnd, []string{"", "", "spring-forward", "fall-back", "east", "west"})
		oldLocal := time.Local
		switch zone {
		case "spring-forward":
			time.Local = c16Zone(time.Now().Add(-time.Duration(1+rnd.Intn(23))*time.Hour), 0, 3600)
		case "fall-back":
			time.Local = c16Zone(time.Now().Add(-time.Duration(1+rnd.Intn(23))*time.Hour), 3600, 0)
		case "east":
			time.Local = time.FixedZone("E", 14*3600)
		case "west":
			time.Local = time.FixedZone("W", -11*3600)
		}
		if zone != "" {
			res.Hit("local-zone:" + zone)
		}
		nt := 2 + rnd.Intn(5)
		got := make([]bool, nt)
		// every other case one or all token-file system calls fail: a starter
		// that could not create the token file holds no token
		plan := &verifrt.Plan{}
		faulty := i%2 == 1
		if faulty {
			op := verifrt.Pick(rnd, []string{"OpenFile", "OpenFile", "OpenFile", "Stat", "Remove"})
			nth := rnd.Intn(nt)
			if rnd.Intn(3) == 0 {
				nth = -1
			}
			plan.Faults = []*verifrt.Fault{{Op: op, PathSub: "upload.token", Nth: nth,
				Errno: verifrt.Pick(rnd, []syscall.Errno{syscall.ENOSPC, syscall.EACCES, syscall.EMFILE, syscall.EROFS, syscall.EIO, syscall.ENOENT, syscall.EDQUOT})}}
			res.Hit("fault:" + op)
			if nt == 1+nth || nth < 0 {
				res.Hit("fault-on-every-or-last-starter")
			}
		}
		verifrt.SetPlan(plan)
		sc := verifrt.NewSched(rnd)
		for k := 0; k < nt; k++ {
			k := k
			sc.Go(fmt.Sprintf("S%d", k), func() { got[k] = c16Acquire() })
		}
		switch i % 3 {
		case 0:
			v := rnd.Intn(nt)
			ph := []verifrt.Phase{{Thread: v, Until: 1 + (i/3)%6}}
			for _, o := range rnd.Perm(nt) {
				if o != v {
					ph = append(ph, verifrt.Phase{Thread: o, Until: 1 + rnd.Intn(5)})
				}
			}
			sc.Choose = verifrt.ChoosePhases(ph, verifrt.ChooseRandom)
			res.Hit("strategy:park")
		case 1:
			sc.Choose = verifrt.ChoosePCT(rnd, 1+rnd.Intn(3), 30)
			res.Hit("strategy:pct")
		default:
			sc.Choose = verifrt.ChooseRandom
		}
		sc.Run(20 * time.Second)
		time.Local = oldLocal
		verifrt.SetPlan(nil)
		res.Eval()
		res.Distinct(string(sc.Trace))
		if sc.Stuck != "" || sc.Overrun {
			res.Inconc("scheduler: " + sc.Stuck)
			os.RemoveAll(dir)
			continue
		}
		wins := 0
		for _, g := range got {
			if g {
				wins++
			}
		}
		if sc.Steps <= nt {
			res.Inconc("acquireUploadToken has no scheduling points (instrumentation missing)")
		}
		max := 1
		if fresh {
			max = 0
		}
		// a token is held only through a token file this caller created
		created := map[string]bool{}
		for _, ev := range plan.Snapshot() {
			if ev.Op == "OpenFile" && ev.Err == "" && strings.Contains(ev.Path, "upload.token") {
				created[ev.Actor] = true
			}
		}
		for k, g := range got {
			if g && !created[fmt.Sprintf("S%d", k)] {
				res.Violate("token-without-token-file", fmt.Sprintf("starter S%d reports the upload token as acquired although it did not create the token file (faults: %+v)", k, plan.Faults), verifrt.CaseReplay(i, map[string]any{"trace": fmt.Sprint(sc.Trace), "events": plan.Snapshot()}))
				break
			}
		}
		if wins > max {
			res.Violate("token-acquired-twice", fmt.Sprintf("%d of %d concurrent starters acquired the upload token (token initially fresh=%v)", wins, nt, fresh), verifrt.CaseReplay(i, map[string]any{"trace": fmt.Sprint(sc.Trace)}))
		}
		if wins == 1 {
			res.Hit("one-winner")
		}
		if i < 2 {
			res.Sample(map[string]any{"case": i, "threads": nt, "winners": wins, "steps": sc.Steps})
		}
		os.RemoveAll(dir)
	}
	itelemetry.Default = saved
	// real processes
	e := newC16env()
	defer os.RemoveAll(e.base)
	rounds := verifrt.Scale(6, 200)
	for rd := 0; rd < rounds; rd++ {
		work, _ := os.MkdirTemp(e.base, "race")
		tdir := filepath.Join(work, "xdg", "go", "telemetry")
		os.MkdirAll(filepath.Join(tdir, "local"), 0o777)
		os.WriteFile(filepath.Join(tdir, "mode"), []byte("local"), 0o666)
		logPath := filepath.Join(work, "procs.log")
		runID := fmt.Sprintf("race-%d-%d-%d", os.Getpid(), rd, time.Now().UnixNano())
		np := 2 + (rd*5)%23
		var cmds []*exec.Cmd
		for k := 0; k < np; k++ {
			cmd := exec.Command(os.Args[0])
			env := []string{}
			for _, kv := range os.Environ() {
				k := strings.SplitN(kv, "=", 2)[0]
				switch k {
				case "GO_TELEMETRY_CHILD", "GO_TELEMETRY_CHILD_UPLOAD", "XDG_CONFIG_HOME", "HOME", "PATH", "VERIF_BATCH":
					continue
				}
				env = append(env, kv)
			}
			cmd.Env = append(env, "XDG_CONFIG_HOME="+filepath.Join(work, "xdg"), "HOME="+work, "PATH="+e.bindir+":"+os.Getenv("PATH"), "VERIF_START_APP=1", "VERIF_START_LOG="+logPath,
				"VERIF_START_CFG=upload", "VERIF_START_URL=http://127.0.0.1:1/upload", "VERIF_RUN_ID="+runID, "GOPROXY=off", "GOFLAGS=", "VERIF_START_UPLOADTIME="+c16UploadTime())
			cmd.SysProcAttr = &syscall.SysProcAttr{Setsid: true}
			cmds = append(cmds, cmd)
		}
		for _, c := range cmds {
			c.Start()
		}
		for _, c := range cmds {
			c.Wait()
		}
		if !waitGone(runID, 20*time.Second) {
			res.Inconc("race round: descendants still alive")
			os.RemoveAll(work)
			continue
		}
		ups := 0
		for _, r := range readLog(logPath) {
			if r.Marker == "1" && r.Upload == "1" {
				ups++
			}
		}
		res.Eval()
		res.Distinct(fmt.Sprintf("real/%d/%d", rd, np))
		res.Hit("real-race-round")
		if ups > 1 {
			res.Violate("token-acquired-twice", fmt.Sprintf("%d of %d processes started together acquired the upload token", ups, np), map[string]any{"round": rd})
		}
		os.RemoveAll(work)
	}
	// one process calling Start twice with the upload flag: the second call finds
	// the token the first one took
	tw := verifrt.Scale(4, 60)
	for k := 0; k < tw; k++ {
		work, _ := os.MkdirTemp(e.base, "twice")
		tdir := filepath.Join(work, "xdg", "go", "telemetry")
		os.MkdirAll(filepath.Join(tdir, "local"), 0o777)
		os.WriteFile(filepath.Join(tdir, "mode"), []byte([]string{"local", "on 2020-01-01"}[k%2]), 0o666)
		logPath := filepath.Join(work, "procs.log")
		runID := fmt.Sprintf("tw-%d-%d-%d", os.Getpid(), k, time.Now().UnixNano())
		cmd := exec.Command(os.Args[0])
		env := []string{}
		for _, kv := range os.Environ() {
			kk := strings.SplitN(kv, "=", 2)[0]
			switch kk {
			case "GO_TELEMETRY_CHILD", "GO_TELEMETRY_CHILD_UPLOAD", "XDG_CONFIG_HOME", "HOME", "PATH", "VERIF_BATCH":
				continue
			}
			env = append(env, kv)
		}
		cmd.Env = append(env, "XDG_CONFIG_HOME="+filepath.Join(work, "xdg"), "HOME="+work, "PATH="+e.bindir+":"+os.Getenv("PATH"), "VERIF_START_APP=1", "VERIF_START_LOG="+logPath, "VERIF_START_TWICE=1",
			"VERIF_START_CFG="+[]string{"upload", "upload,crash"}[(k/2)%2], "VERIF_START_URL=http://127.0.0.1:1/upload", "VERIF_RUN_ID="+runID, "GOPROXY=off", "GOFLAGS=", "VERIF_START_UPLOADTIME="+c16UploadTime())
		cmd.SysProcAttr = &syscall.SysProcAttr{Setsid: true}
		cmd.Run()
		res.Eval()
		res.Distinct(fmt.Sprintf("twice/%d", k))
		if !waitGone(runID, 20*time.Second) {
			res.Inconc("start-twice history: descendants still alive")
			os.RemoveAll(work)
			continue
		}
		ups := 0
		for _, r := range readLog(logPath) {
			if r.Marker == "1" && r.Upload == "1" {
				ups++
			}
		}
		res.Hit("start-twice-history")
		if ups > 1 {
			res.Violate("token-acquired-twice", fmt.Sprintf("one process called Start twice with the upload flag: %d uploading sidecars were launched within the token's period", ups), map[string]any{"history": "start-twice", "k": k})
		} else if ups == 1 {
			res.Hit("start-twice:one-uploading-sidecar")
		}
		os.RemoveAll(work)
	}
	// a token in the last second of its period: still fresh
	ls := verifrt.Scale(5, 40)
	for k := 0; k < ls; k++ {
		dir, _ := os.MkdirTemp(e.base, "lastsec")
		itelemetry.Default = itelemetry.NewDir(dir)
		os.MkdirAll(itelemetry.Default.LocalDir(), 0o777)
		tp := filepath.Join(itelemetry.Default.LocalDir(), "upload.token")
		os.WriteFile(tp, nil, 0o666)
		// (start early in a wall-clock second, so that the token's sub-second part
		// can lie beyond the current one)
		t0 := time.Now()
		for w := 0; t0.Nanosecond() > 100e6 && w < 2000; w++ {
			time.Sleep(time.Millisecond)
			t0 = time.Now()
		}
		at := t0.Add(-24*time.Hour + time.Duration([]int{300, 500, 700}[k%3])*time.Millisecond)
		os.Chtimes(tp, at, at)
		got := c16Acquire()
		fi, err := os.Stat(tp)
		res.Eval()
		if err == nil && fi.ModTime().Equal(at) && time.Since(at) < 24*time.Hour {
			// (measured after the call: the token was younger than a day throughout)
			res.Hit("fresh-token-age:last-second")
			res.Distinct(fmt.Sprintf("lastsec/%d", k))
			if got {
				res.Violate("token-acquired-twice", fmt.Sprintf("a token taken %v ago (less than 24 hours) was taken again", time.Since(at)), map[string]any{"history": "last-second", "k": k})
			}
		} else if err == nil && !fi.ModTime().Equal(at) && time.Since(at) < 24*time.Hour {
			res.Violate("token-acquired-twice", fmt.Sprintf("a token taken %v ago (less than 24 hours) was replaced", time.Since(at)), map[string]any{"history": "last-second", "k": k})
		}
		itelemetry.Default = saved
		os.RemoveAll(dir)
	}
	// a starter that takes the token but cannot launch its sidecar (the debug
	// directory holds something unopenable where the sidecar's log goes): the
	// token stays taken, so a second starter within the period gets none
	lf := verifrt.Scale(4, 60)
	for k := 0; k < lf; k++ {
		work, _ := os.MkdirTemp(e.base, "launchfail")
		tdir := filepath.Join(work, "xdg", "go", "telemetry")
		os.MkdirAll(filepath.Join(tdir, "local"), 0o777)
		os.WriteFile(filepath.Join(tdir, "mode"), []byte(verifrt.Pick(verifrt.NewRand(verifrt.Seed(), fmt.Sprint("lf", k)), []string{"local", "on 2020-01-01"})), 0o666)
		obstacle := filepath.Join(tdir, "debug", "sidecar.log")
		os.MkdirAll(obstacle, 0o777) // a directory where the log file should be opened
		logPath := filepath.Join(work, "procs.log")
		runApp := func(tag string) bool {
			runID := fmt.Sprintf("lf-%d-%d-%s-%d", os.Getpid(), k, tag, time.Now().UnixNano())
			cmd := exec.Command(os.Args[0])
			env := []string{}
			for _, kv := range os.Environ() {
				kk := strings.SplitN(kv, "=", 2)[0]
				switch kk {
				case "GO_TELEMETRY_CHILD", "GO_TELEMETRY_CHILD_UPLOAD", "XDG_CONFIG_HOME", "HOME", "PATH", "VERIF_BATCH":
					continue
				}
				env = append(env, kv)
			}
			cmd.Env = append(env, "XDG_CONFIG_HOME="+filepath.Join(work, "xdg"), "HOME="+work, "PATH="+e.bindir+":"+os.Getenv("PATH"), "VERIF_START_APP=1", "VERIF_START_LOG="+logPath,
				"VERIF_START_CFG=upload", "VERIF_START_URL=http://127.0.0.1:1/upload", "VERIF_RUN_ID="+runID, "GOPROXY=off", "GOFLAGS=", "VERIF_START_UPLOADTIME="+c16UploadTime())
			cmd.SysProcAttr = &syscall.SysProcAttr{Setsid: true}
			cmd.Run()
			return waitGone(runID, 20*time.Second)
		}
		ok1 := runApp("a")
		_, terr := os.Stat(filepath.Join(tdir, "local", "upload.token"))
		n1 := len(readLog(logPath))
		os.RemoveAll(filepath.Join(tdir, "debug"))
		ok2 := runApp("b")
		res.Eval()
		res.Distinct(fmt.Sprintf("launchfail/%d", k))
		if !ok1 || !ok2 {
			res.Inconc("launch-failure history: descendants still alive")
			os.RemoveAll(work)
			continue
		}
		res.Hit("launch-failure-history")
		ups := 0
		for _, r := range readLog(logPath) {
			if r.Marker == "1" && r.Upload == "1" {
				ups++
			}
		}
		rp := map[string]any{"history": "launch-failure", "k": k}
		if n1 != 1 {
			res.Inconc(fmt.Sprintf("launch-failure history: the first starter was expected to fail launching its sidecar, but %d processes logged themselves", n1))
		} else if terr != nil {
			res.Violate("token-given-back", "a starter that took the upload token but could not launch its sidecar left no token file: the next starter of the period takes it again", rp)
		} else if ups > 0 {
			res.Violate("token-acquired-twice", fmt.Sprintf("after a starter had taken the token (and failed to launch), a second starter within the period launched %d uploading sidecar(s)", ups), rp)
		}
		os.RemoveAll(work)
	}
	res.Require("launch-failure-history", "start-twice-history", "start-twice:one-uploading-sidecar", "fresh-token-age:last-second", "strategy:park", "strategy:pct", "one-winner", "real-race-round", "fault:OpenFile", "fault:Stat", "fault-on-every-or-last-starter", "local-zone:spring-forward", "local-zone:fall-back", "fresh-token-age:23h30m0s", "fresh-token-age:-3h0m0s")
	if err := res.Write(); err != nil {
		t.Fatal(err)
	}
}
