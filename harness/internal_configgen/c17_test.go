//go:build verif

package main

import (
	"fmt"
	"os"
	"path/filepath"
	"reflect"
	"runtime/debug"
	"sort"
	"strconv"
	"strings"
	"testing"

	"golang.org/x/telemetry/internal/chartconfig"
	"golang.org/x/telemetry/internal/verifref"
	"golang.org/x/telemetry/internal/verifrt"
)

// C17 (generation): the generated upload configuration is faithful to the
// chart records; padded version lists are supersets, sorted and duplicate-free.

func guarded(fn func()) (pv any, stack string) {
	defer func() {
		if r := recover(); r != nil {
			pv = r
			stack = string(debug.Stack())
		}
	}()
	fn()
	return nil, ""
}

var goVers = []string{"go1.20", "go1.20.1", "go1.20.14", "go1.21rc2", "go1.21.0", "go1.21.1", "go1.21.13", "go1.22rc1", "go1.22.0", "go1.22.1", "go1.22.10", "go1.23rc1", "go1.23.0"}

func toolchainProxyVersions(r *verifrt.Rand) []string {
	var out []string
	for _, v := range goVers {
		for _, plat := range []string{"linux-amd64", "darwin-arm64"} {
			out = append(out, "v0.0.1-"+v+"."+plat)
		}
	}
	for i := len(out) - 1; i > 0; i-- {
		j := r.Intn(i + 1)
		out[i], out[j] = out[j], out[i]
	}
	return out
}

var modVers = map[string][]string{
	"golang.org/x/tools/gopls": {"v0.11.0", "v0.12.0", "v0.12.4", "v0.13.0-pre.1", "v0.13.0", "v0.13.2", "v0.14.0-pre.1", "v0.14.0-pre.2", "v0.14.0", "v0.14.2", "v0.15.0-pre.3"},
	"example.com/tool":         {"v1.0.0", "v1.0.1", "v1.1.0", "v2.0.0-rc.1", "v1.10.0", "v1.2.0"},
}

func TestVerifC17Gen(t *testing.T) {
	if verifrt.WantCheck("C17.generate") {
		c17Generate(t)
	}
	if verifrt.WantCheck("C17.pad") {
		c17Pad(t)
	}
}

// c17FakeGo puts a `go` script first on PATH that answers
// `go list -m --versions <module>` from lists; the returned func undoes it.
func c17FakeGo(lists map[string][]string) func() {
	dir, _ := os.MkdirTemp(os.Getenv("VERIF_TMP"), "c17go-")
	for m, vs := range lists {
		os.WriteFile(filepath.Join(dir, strings.ReplaceAll(m, "/", "_")+".versions"), []byte(strings.Join(vs, " ")), 0o644)
	}
	script := "#!/bin/sh\nif [ \"$1\" = list ] && [ \"$2\" = -m ]; then\n f=\"" + dir + "/$(printf %s \"$4\" | tr / _).versions\"\n if [ -f \"$f\" ]; then printf '%s ' \"$4\"; cat \"$f\"; echo; exit 0; fi\nfi\necho \"fake go: unsupported: $*\" >&2\nexit 1\n"
	os.WriteFile(filepath.Join(dir, "go"), []byte(script), 0o755)
	old := os.Getenv("PATH")
	os.Setenv("PATH", dir+":"+old)
	return func() {
		os.Setenv("PATH", old)
		os.RemoveAll(dir)
	}
}

func c17Generate(t *testing.T) {
	const check = "C17.generate"
	res := verifrt.NewResult(check)
	res.Rule = "valid chart record sets (1-8 records over toolchain and module programs; several records per program with different minimum versions in every order, some without; depth 0 or positive; type stack with and without depth) are passed to generate() with proxy answers replaced through versionsForTesting. Oracle: each record's counter expression is listed under its program as a stack iff depth > 0, otherwise as a counter, exactly once and nowhere else; the program's version list contains every known version not older than the smallest minimum among its records (no minimum = all), in Go-version order for cmd/... and semver order otherwise. distinct = distinct record sets; non-trivial = a program with >= 2 records"
	n := verifrt.Scale(3000, 300000)
	progs := []struct{ name, module string }{{"cmd/go", "cmd"}, {"cmd/compile", "cmd"}, {"golang.org/x/tools/gopls", "golang.org/x/tools/gopls"}, {"example.com/tool", "example.com/tool"}}
	for i := 0; i < n; i++ {
		if !verifrt.WantCase(check, i) {
			continue
		}
		rnd := verifrt.NewRand(verifrt.Seed(), fmt.Sprintf("%s/%d", check, i))
		versionsForTesting = map[string][]string{"golang.org/toolchain": toolchainProxyVersions(rnd)}
		for m, vs := range modVers {
			c := append([]string(nil), vs...)
			for a := len(c) - 1; a > 0; a-- {
				b := rnd.Intn(a + 1)
				c[a], c[b] = c[b], c[a]
			}
			versionsForTesting[m] = c
		}
		var recs []chartconfig.ChartConfig
		nrec := 1 + rnd.Intn(8)
		perProg := map[string]int{}
		for k := 0; k < nrec; k++ {
			p := progs[rnd.Intn(len(progs))]
			c := chartconfig.ChartConfig{Title: fmt.Sprintf("chart %d", k), Issue: []string{"https://go.dev/issue/1"}, Program: p.name, Module: p.module,
				Counter: fmt.Sprintf("c%d/%s", k, verifrt.Pick(rnd, []string{"plain", "x:{a,b}", "y:{one}"})), Type: "partition"}
			switch rnd.Intn(4) {
			case 0:
				c.Type = "stack"
				c.Depth = 1 + rnd.Intn(16)
			case 1:
				c.Type = "stack" // a stack chart without a depth is a valid record
			}
			if len(recs) > 0 && rnd.Intn(3) == 0 {
				// the same counter expression as an earlier record, for the same
				// program, in the other role (a stack where that one is a counter, or
				// the reverse): both are listed
				o := recs[rnd.Intn(len(recs))]
				for _, q := range progs {
					if q.name == o.Program {
						p = q
					}
				}
				c.Program, c.Module, c.Counter = o.Program, o.Module, o.Counter
				if o.Depth > 0 {
					c.Type, c.Depth = "partition", 0
				} else {
					c.Type, c.Depth = "stack", 1+rnd.Intn(16)
				}
				res.Hit("same-expression-counter-and-stack")
			}
			if rnd.Intn(3) != 0 {
				if strings.HasPrefix(p.name, "cmd/") {
					c.Version = verifrt.Pick(rnd, []string{"go1.20", "go1.21", "go1.21.1", "go1.22", "go1.22.1", "go1.23rc1", "go1.19"})
				} else {
					c.Version = verifrt.Pick(rnd, modVers[p.module])
				}
			}
			recs = append(recs, c)
			perProg[c.Program]++
		}
		res.Eval()
		multi := false
		for _, k := range perProg {
			if k >= 2 {
				multi = true
			}
		}
		if multi {
			res.Distinct(fmt.Sprint(recs))
		}
		pads := map[string]padding{"golang.org/x/tools/gopls": {releases: rnd.Intn(4), maj: rnd.Intn(2), majmin: rnd.Intn(3), patch: rnd.Intn(3), pre: rnd.Intn(3)}, "example.com/tool": {}}
		rp := verifrt.CaseReplay(i, map[string]any{"records": fmt.Sprintf("%+v", recs)})
		var ucfg interface{}
		_ = ucfg
		// (generate filters the lists it is handed in place: keep a pristine copy)
		pristine := map[string][]string{}
		for m, vs := range versionsForTesting {
			pristine[m] = append([]string(nil), vs...)
		}
		cfg, err := generate(recs, pads)
		if err != nil {
			res.Violate("generate-failed", "generate failed on valid records: "+err.Error(), rp)
			continue
		}
		if i%10 == 0 {
			// the production path: the version lists come from the `go` command
			// (a script first on PATH answering `go list -m --versions <module>`
			// from the same lists), and the tool calls generate more than once
			// per run: every call must give the same, correct answer
			restore := c17FakeGo(pristine)
			saved := versionsForTesting
			versionsForTesting = nil
			cfgA, errA := generate(recs, pads)
			cfgB, errB := generate(recs, pads)
			versionsForTesting = saved
			restore()
			res.Hit("production-path-twice")
			if errA != nil || errB != nil {
				res.Violate("generate-failed", fmt.Sprintf("generate through the go command failed on valid records: %v / %v", errA, errB), rp)
				continue
			}
			if !reflect.DeepEqual(cfgA, cfg) {
				res.Violate("generate-differs-via-go-command", "generate gives another configuration when the version lists come from the go command than when they are injected", rp)
				continue
			}
			if !reflect.DeepEqual(cfgA, cfgB) {
				res.Violate("generate-not-repeatable", "a second generate call in the same process gives another configuration than the first", rp)
			}
			cfg = cfgB // judged below like any other result
		}
		byName := map[string]int{}
		for pi, p := range cfg.Programs {
			byName[p.Name] = pi
		}
		for _, c := range recs {
			pi, ok := byName[c.Program]
			if !ok {
				res.Violate("program-missing", "program "+c.Program+" missing from the generated config", rp)
				continue
			}
			p := cfg.Programs[pi]
			inC, inS := 0, 0
			for _, cc := range p.Counters {
				if cc.Name == c.Counter {
					inC++
				}
			}
			var gotDepths, wantDepths []int
			for _, sc := range p.Stacks {
				if sc.Name == c.Counter {
					inS++
					gotDepths = append(gotDepths, sc.Depth)
				}
			}
			for _, q := range cfg.Programs {
				if q.Name == c.Program {
					continue
				}
				for _, cc := range append(append([]struct{ Name string }{}, toNames(q.Counters)...), toNames(q.Stacks)...) {
					if cc.Name == c.Counter {
						res.Violate("counter-under-wrong-program", c.Counter+" listed under "+q.Name, rp)
					}
				}
			}
			// every record of this program with this expression is listed, in its own role
			wantS, wantC := 0, 0
			for _, o := range recs {
				if o.Program == c.Program && o.Counter == c.Counter {
					if o.Depth > 0 {
						wantS++
						wantDepths = append(wantDepths, o.Depth)
					} else {
						wantC++
					}
				}
			}
			sort.Ints(gotDepths)
			sort.Ints(wantDepths)
			if inS == wantS && !reflect.DeepEqual(gotDepths, wantDepths) {
				res.Violate("stack-depth", fmt.Sprintf("stack %s listed with depths %v, the records say %v", c.Counter, gotDepths, wantDepths), rp)
			}
			if c.Depth > 0 {
				res.Hit("stack-with-depth")
			} else if c.Type == "stack" {
				res.Hit("stack-type-without-depth")
			}
			if inC != wantC || inS != wantS {
				res.Violate("counter-placement", fmt.Sprintf("record %q (depth %d, type %s) appears %d times under Counters and %d times under Stacks; want %d and %d", c.Counter, c.Depth, c.Type, inC, inS, wantC, wantS), rp)
			}
		}
		// versions
		for name, k := range perProg {
			_ = k
			p := cfg.Programs[byName[name]]
			min, none := "", false
			var mins []string
			for _, c := range recs {
				if c.Program != name {
					continue
				}
				mins = append(mins, c.Version)
				if c.Version == "" {
					none = true
				}
			}
			toolchain := strings.HasPrefix(name, "cmd/")
			less := semverLess
			if toolchain {
				less = goVersionLess
			}
			if !none {
				min = mins[0]
				for _, m := range mins[1:] {
					if less(m, min) {
						min = m
					}
				}
			}
			var known []string
			if toolchain {
				known = goVers
			} else {
				for _, c := range recs {
					if c.Program == name {
						known = modVers[c.Module]
					}
				}
			}
			have := map[string]bool{}
			for _, v := range p.Versions {
				have[v] = true
			}
			for _, v := range known {
				if min == "" || !less(v, min) {
					if !have[v] {
						if len(mins) > 1 {
							res.Hit("multi-min")
						}
						res.Violate("version-missing", fmt.Sprintf("program %s: known version %s is not older than the smallest minimum %q among its records (minimums in record order: %q) but is missing from Versions %v", name, v, min, mins, p.Versions), rp)
						break
					}
				}
			}
			if len(mins) > 1 && !none {
				res.Hit("multi-min")
				if mins[0] != min {
					res.Hit("smallest-min-not-first")
				}
			}
		}
		if i < 2 {
			res.Sample(map[string]any{"case": i, "records": fmt.Sprintf("%+v", recs)})
		}
	}
	res.Require("same-expression-counter-and-stack", "production-path-twice", "stack-with-depth", "stack-type-without-depth", "multi-min", "smallest-min-not-first")
	if err := res.Write(); err != nil {
		t.Fatal(err)
	}
}

func toNames[T any](xs []T) []struct{ Name string } {
	var out []struct{ Name string }
	for _, x := range xs {
		out = append(out, struct{ Name string }{fmt.Sprintf("%v", any(x))})
	}
	// the CounterConfig prints as {Name Rate Depth}: extract the name
	for i := range out {
		s := strings.TrimPrefix(out[i].Name, "{")
		if j := strings.LastIndex(s, " "); j > 0 {
			s = s[:j]
			if k := strings.LastIndex(s, " "); k > 0 {
				s = s[:k]
			}
		}
		out[i].Name = s
	}
	return out
}

// ---- reference version orders (written from the semver spec and the go
// version syntax; no shared code with the packages under test)

func splitNums(s string) []int {
	var out []int
	for _, p := range strings.Split(s, ".") {
		n, _ := strconv.Atoi(p)
		out = append(out, n)
	}
	for len(out) < 3 {
		out = append(out, 0)
	}
	return out
}

func semverLess(a, b string) bool { return semverCmp(a, b) < 0 }

func semverCmp(a, b string) int {
	pa, pb := "", ""
	a, b = strings.TrimPrefix(a, "v"), strings.TrimPrefix(b, "v")
	if i := strings.Index(a, "+"); i >= 0 {
		a = a[:i]
	}
	if i := strings.Index(b, "+"); i >= 0 {
		b = b[:i]
	}
	if i := strings.Index(a, "-"); i >= 0 {
		a, pa = a[:i], a[i+1:]
	}
	if i := strings.Index(b, "-"); i >= 0 {
		b, pb = b[:i], b[i+1:]
	}
	na, nb := splitNums(a), splitNums(b)
	for i := 0; i < 3; i++ {
		if na[i] != nb[i] {
			if na[i] < nb[i] {
				return -1
			}
			return 1
		}
	}
	switch {
	case pa == pb:
		return 0
	case pa == "":
		return 1
	case pb == "":
		return -1
	}
	ia, ib := strings.Split(pa, "."), strings.Split(pb, ".")
	for i := 0; i < len(ia) && i < len(ib); i++ {
		x, ex := strconv.Atoi(ia[i])
		y, ey := strconv.Atoi(ib[i])
		switch {
		case ex == nil && ey == nil:
			if x != y {
				if x < y {
					return -1
				}
				return 1
			}
		case ex == nil:
			return -1
		case ey == nil:
			return 1
		default:
			if ia[i] != ib[i] {
				if ia[i] < ib[i] {
					return -1
				}
				return 1
			}
		}
	}
	if len(ia) != len(ib) {
		if len(ia) < len(ib) {
			return -1
		}
		return 1
	}
	return 0
}

// goVersionLess orders goN.M < goN.MrcK < goN.M.0 < goN.M.1 (the language
// version goN.M sorts before its release candidates and releases).
func goVersionLess(a, b string) bool {
	ka, kb := goKey(a), goKey(b)
	for i := range ka {
		if ka[i] != kb[i] {
			return ka[i] < kb[i]
		}
	}
	return false
}

func goKey(v string) [5]int {
	s := strings.TrimPrefix(v, "go")
	var k [5]int // major, minor, kind (0 language, 1 rc, 2 release), rc, patch
	if i := strings.Index(s, "rc"); i >= 0 {
		n := splitNums(s[:i])
		k[0], k[1], k[2] = n[0], n[1], 1
		k[3], _ = strconv.Atoi(s[i+2:])
		return k
	}
	parts := strings.Split(s, ".")
	k[0], _ = strconv.Atoi(parts[0])
	if len(parts) > 1 {
		k[1], _ = strconv.Atoi(parts[1])
	}
	if len(parts) > 2 {
		k[2] = 2
		k[4], _ = strconv.Atoi(parts[2])
	}
	return k
}

func c17Pad(t *testing.T) {
	const check = "C17.pad"
	res := verifrt.NewResult(check)
	res.Rule = "padVersions on random semver lists without equal-precedence duplicates (some entries with build metadata or in vM.N shorthand) (releases and prereleases, 0-25 entries, any order) x padding parameters 0-8 x prerelease pattern lists: the result contains every input version, is sorted by semver precedence and has no duplicates; never panics. distinct = distinct (list, padding) pairs"
	n := verifrt.Scale(2000, 200000)
	for i := 0; i < n; i++ {
		if !verifrt.WantCase(check, i) {
			continue
		}
		rnd := verifrt.NewRand(verifrt.Seed(), fmt.Sprintf("%s/%d", check, i))
		seen := map[string]bool{}
		var vs []string
		for k, m := 0, rnd.Intn(26); k < m; k++ {
			v := fmt.Sprintf("v%d.%d.%d", rnd.Intn(3), rnd.Intn(12), rnd.Intn(4))
			if rnd.Intn(3) == 0 {
				v += verifrt.Pick(rnd, []string{"-pre.1", "-pre.2", "-pre.10", "-rc.1", "-alpha", "-0.3.7"})
			}
			// real version strings need not be canonical: build metadata
			// ("+incompatible") and the shorthands vM.N / vM are valid and must
			// come out as they went in
			canon := v
			switch rnd.Intn(12) {
			case 0:
				v += "+incompatible"
			case 1:
				if !strings.Contains(v, "-") && strings.HasSuffix(v, ".0") {
					v = strings.TrimSuffix(v, ".0")
					res.Hit("shorthand-version")
				}
			}
			if v != canon {
				res.Hit("non-canonical-version")
			}
			if !seen[canon] {
				seen[canon] = true
				vs = append(vs, v)
			}
		}
		pad := padding{releases: rnd.Intn(9), maj: rnd.Intn(4), majmin: rnd.Intn(5), patch: rnd.Intn(5), pre: rnd.Intn(5)}
		pats := verifrt.Pick(rnd, [][]string{nil, {"pre.1", "pre.2", "pre.3", "pre.4"}, {"rc.1", "rc.2"}, {"pre.1"}})
		res.Eval()
		res.Distinct(fmt.Sprint(vs, pad, pats))
		in := append([]string(nil), vs...)
		var out []string
		pv, stack := guarded(func() { out = padVersions(in, pats, pad) })
		rp := verifrt.CaseReplay(i, map[string]any{"versions": vs, "padding": fmt.Sprintf("%+v", pad), "patterns": pats})
		if pv != nil {
			res.Violate("pad-panic", fmt.Sprintf("padVersions panicked: %v\n%.600s", pv, stack), rp)
			continue
		}
		have := map[string]int{}
		for _, v := range out {
			have[v]++
		}
		for _, v := range vs {
			if have[v] == 0 {
				res.Violate("pad-dropped", fmt.Sprintf("padVersions dropped real version %s", v), rp)
				break
			}
		}
		for v, k := range have {
			if k > 1 {
				res.Violate("pad-duplicate", fmt.Sprintf("padVersions lists %s %d times", v, k), rp)
				break
			}
		}
		if !sort.SliceIsSorted(out, func(a, b int) bool { return semverCmp(out[a], out[b]) < 0 }) {
			res.Violate("pad-unsorted", fmt.Sprintf("padVersions output not sorted: %v", out), rp)
		}
		if len(out) > len(vs) {
			res.Hit("padded")
		}
		if i < 2 {
			res.Sample(map[string]any{"versions": vs, "padding": fmt.Sprintf("%+v", pad), "out": out})
		}
	}
	res.Require("padded", "non-canonical-version")
	if err := res.Write(); err != nil {
		t.Fatal(err)
	}
}

var _ = verifref.Hash
