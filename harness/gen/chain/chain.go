// Package chain provides callees of many symbol shapes (functions, value and
// pointer methods, generic functions, methods of generic types, closures) for
// building real call stacks. It is overlaid at several import paths.
package chain

// Callees returns the callee table; every entry calls next exactly once.
func Callees() []func(next func()) {
	var v Val
	p := &Ptr{}
	g := Gen[int]{}
	gp := &Gen[string]{}
	return []func(next func()){
		Plain,
		Other,
		v.Method,
		p.Method,
		Generic[int],
		Generic[map[string][]byte],
		g.Method,
		gp.PtrMethod,
		Closure(),
		Nested()(),
		func(next func()) { next() },
		Dotted_Name.Call,
		PlainCallsGeneric,
		GenericCallsPlain[float64],
		g.CallsPlain,
		GenericTwice[int],
		PlainTwice,
		Юникод_функция_с_длинным_именем,
		Тип{}.Метод,
		GenericÜñï[string],
	}
}

//go:noinline
func Plain(next func()) { next() }

//go:noinline
func Other(next func()) {
	if next != nil {
		next()
	}
}

type Val struct{}

//go:noinline
func (Val) Method(next func()) { next() }

type Ptr struct{ n int }

//go:noinline
func (p *Ptr) Method(next func()) { _ = p.n; next() }

//go:noinline
func Generic[T any](next func()) {
	var zero T
	_ = zero
	next()
}

type Gen[T any] struct{ v T }

//go:noinline
func (g Gen[T]) Method(next func()) { next() }

//go:noinline
func (g *Gen[T]) PtrMethod(next func()) { next() }

func Closure() func(next func()) {
	return func(next func()) { next() }
}

func Nested() func() func(next func()) {
	return func() func(next func()) {
		return func(next func()) {
			func() { next() }()
		}
	}
}

type dotted struct{}

var Dotted_Name dotted

//go:noinline
func (dotted) Call(next func()) { next() }

// Same-package adjacency: a generic frame directly above/below a plain frame
// of the same package, and two frames of one function in a row.

//go:noinline
func PlainCallsGeneric(next func()) { Generic[int](next) }

//go:noinline
func GenericCallsPlain[T any](next func()) { Plain(next) }

//go:noinline
func (g Gen[T]) CallsPlain(next func()) { Other(next) }

//go:noinline
func GenericTwice[T any](next func()) { Generic[T](func() { Generic[T](next) }) }

//go:noinline
func PlainTwice(next func()) { Plain(func() { Other(next) }) }

// Inlinable is small enough to be inlined into a caller in another package:
// its frame then has no function of its own (runtime.Frame.Func == nil).
func Inlinable(next func()) { next() }

// InlinableGeneric likewise, with a type parameter.
func InlinableGeneric[T any](v T, next func(T)) { next(v) }

// Identifiers outside ASCII (multi-byte in the encoded name: a truncation
// can fall inside a character).

//go:noinline
func Юникод_функция_с_длинным_именем(next func()) { next() }

type Тип struct{}

//go:noinline
func (Тип) Метод(next func()) { next() }

//go:noinline
func GenericÜñï[T any](next func()) { next() }
