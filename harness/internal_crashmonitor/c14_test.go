//go:build verif

package crashmonitor

import (
	"fmt"
	"os"
	"os/exec"
	"path/filepath"
	"reflect"
	"runtime"
	"runtime/debug"
	"strings"
	"sync"
	"testing"

	"golang.org/x/telemetry/internal/counter"
	"golang.org/x/telemetry/internal/verifrt"
)

// C14: crash reports reach telemetry only as program counters.

func guarded(fn func()) (pv any, stack string) {
	defer func() {
		if r := recover(); r != nil {
			pv = r
			stack = string(debug.Stack())
		}
	}()
	fn()
	return nil, ""
}

// ---- a pool of genuine PCs of this binary

//go:noinline
func pcA(n int) []uintptr {
	if n > 0 {
		return pcB(n - 1)
	}
	p := make([]uintptr, 64)
	return p[:runtime.Callers(1, p)]
}

//go:noinline
func pcB(n int) []uintptr {
	if n%2 == 0 {
		return pcA(n)
	}
	return pcC{}.m(n)
}

type pcC struct{}

//go:noinline
func (pcC) m(n int) []uintptr { return pcA(n - 1) }

//go:noinline
func verifLongName_aaaaaaaaaaaaaaaaaaaaaaaaaaaaaaaaaaaaaaaaaaaaaaaaaaaaaaaaaaaaaaaaaaaaaaaaaaaaaaaaaaaaaaaaaaaaaaaaaaaaaaaaaaaaaaaaaaaaaaaaaaaaaaaaaaaaaaaaaaaaaaaaaaaaaaaaaaaaaaaaaaaaaaaaaaaaaaaaaaaaaaaaaaaaaaaaaaaaaaaaaaaaaaaaaaaaaaaaaaaaaaaaaaaaaaaaaaaaaaaaaaaaaaaaaaaaaaaaaaaaaaaaaaaaaaaaaaaaaaaaaaaaaaaaaaaaaaaaaaaa(n int) []uintptr {
	if n > 0 {
		r := verifLongName_aaaaaaaaaaaaaaaaaaaaaaaaaaaaaaaaaaaaaaaaaaaaaaaaaaaaaaaaaaaaaaaaaaaaaaaaaaaaaaaaaaaaaaaaaaaaaaaaaaaaaaaaaaaaaaaaaaaaaaaaaaaaaaaaaaaaaaaaaaaaaaaaaaaaaaaaaaaaaaaaaaaaaaaaaaaaaaaaaaaaaaaaaaaaaaaaaaaaaaaaaaaaaaaaaaaaaaaaaaaaaaaaaaaaaaaaaaaaaaaaaaaaaaaaaaaaaaaaaaaaaaaaaaaaaaaaaaaaaaaaaaaaaaaaaaaaaaaaaaaa(n - 1)
		return r
	}
	p := make([]uintptr, 64)
	return p[:runtime.Callers(1, p)]
}

// A function whose name is long in bytes but short in characters (the
// counter-name limit is in bytes).
//
//go:noinline
func 関数長い名前長い名前長い名前長い名前長い名前長い名前長い名前長い名前長い名前長い名前長い名前長い名前長い名前長い名前長い名前長い名前長い名前長い名前長い名前長い名前長い名前長い名前長い名前長い名前終(n int) []uintptr {
	if n > 0 {
		r := 関数長い名前長い名前長い名前長い名前長い名前長い名前長い名前長い名前長い名前長い名前長い名前長い名前長い名前長い名前長い名前長い名前長い名前長い名前長い名前長い名前長い名前長い名前長い名前長い名前終(n - 1)
		return r
	}
	p := make([]uintptr, 64)
	return p[:runtime.Callers(1, p)]
}

var cjkPCs = 関数長い名前長い名前長い名前長い名前長い名前長い名前長い名前長い名前長い名前長い名前長い名前長い名前長い名前長い名前長い名前長い名前長い名前長い名前長い名前長い名前長い名前長い名前長い名前長い名前終(20)

// longPCs are the PCs of a 20-deep stack of a function with a ~320 byte name:
// 16 of its frames exceed the 4096-byte name limit.
var longPCs = verifLongName_aaaaaaaaaaaaaaaaaaaaaaaaaaaaaaaaaaaaaaaaaaaaaaaaaaaaaaaaaaaaaaaaaaaaaaaaaaaaaaaaaaaaaaaaaaaaaaaaaaaaaaaaaaaaaaaaaaaaaaaaaaaaaaaaaaaaaaaaaaaaaaaaaaaaaaaaaaaaaaaaaaaaaaaaaaaaaaaaaaaaaaaaaaaaaaaaaaaaaaaaaaaaaaaaaaaaaaaaaaaaaaaaaaaaaaaaaaaaaaaaaaaaaaaaaaaaaaaaaaaaaaaaaaaaaaaaaaaaaaaaaaaaaaaaaaaaaaaaaaaa(20)

var pcPool = func() []uintptr {
	var pool []uintptr
	for d := 0; d < 12; d++ {
		pool = append(pool, pcA(d)...)
	}
	for _, f := range []any{pcA, pcB, strings.Repeat, fmt.Sprintf, os.ReadFile} {
		e := reflect.ValueOf(f).Pointer()
		pool = append(pool, e+1, e+9, e+23)
	}
	return pool
}()

type synFrame struct {
	Symbol string
	Args   string
	File   string
	HasPC  bool
	RawLoc bool   // the location line is printed without its leading tab
	PC     uint64 // PC in this process's address space (before relocation)
	Tail   string // text after pc=...? (none in real reports; kept empty)
}

type synGoroutine struct {
	ID      int
	Status  string
	Frames  []synFrame
	Created string
}

type synReport struct {
	Pre       []string // lines before the sentinel
	Sentinel  uint64   // 0 = absent
	Mid       []string // lines between sentinel and first goroutine
	Gs        []synGoroutine
	ExtraSent []string // additional "sentinel ..." lines inserted into Mid (after the real one)
}

func (r *synReport) render() string {
	var b strings.Builder
	for _, l := range r.Pre {
		b.WriteString(l + "\n")
	}
	if r.Sentinel != 0 {
		fmt.Fprintf(&b, "sentinel %x\n", r.Sentinel)
	}
	for _, l := range r.ExtraSent {
		b.WriteString(l + "\n")
	}
	for _, l := range r.Mid {
		b.WriteString(l + "\n")
	}
	for gi, g := range r.Gs {
		if gi > 0 {
			b.WriteString("\n")
		}
		fmt.Fprintf(&b, "goroutine %d [%s]:\n", g.ID, g.Status)
		for _, f := range g.Frames {
			fmt.Fprintf(&b, "%s(%s)\n", f.Symbol, f.Args)
			if f.HasPC {
				fmt.Fprintf(&b, "\t%s +0x1d sp=0xc00001 fp=0xc00002 pc=%#x\n", f.File, f.PC)
			} else if f.RawLoc {
				fmt.Fprintf(&b, "%s\n", f.File)
			} else {
				fmt.Fprintf(&b, "\t%s\n", f.File)
			}
		}
		if g.Created != "" {
			b.WriteString(g.Created + "\n")
		}
	}
	b.WriteString("\n")
	return b.String()
}

var symPool = []string{"main.main", "runtime.main", "runtime.goexit", "golang.org/x/tools/gopls/internal/cache.(*Snapshot).load", "pkg.(*T[...]).method", "a.b.c", "runtime.sigpanic", "runtime.sigpanic2", "xruntime.sigpanic", "runtime.gopanic", "main.f.func1", "ünï.code",
	// symbol text that begins with, or is nothing but, punctuation the parser looks for
	// (no blanks: a Go symbol has none, and lines like "created by x" are the traceback's own markers)
	"(*T).m", "(", "()", ".", ".f", "pc=0x1234"}

func genReport(r *verifrt.Rand, canary string) (*synReport, []uint64, bool) {
	rep := &synReport{}
	wellFormedOverride := true
	delta := verifrt.Pick(r, []uint64{0, 0x1000, 0x7f0000000000, ^uint64(0) - 0xfff})
	rep.Sentinel = sentinel() + delta
	switch r.Intn(12) {
	case 0:
		rep.Sentinel = 0 // no sentinel at all
		wellFormedOverride = false
	case 1:
		rep.Sentinel = 0
		rep.Pre = append(rep.Pre, "sentinel zz-not-hex")
		wellFormedOverride = false
	}
	for k, n := 0, r.Intn(3); k < n; k++ {
		rep.Pre = append(rep.Pre, verifrt.Pick(r, []string{"some log line " + canary, "", "2024/01/01 12:00:00 INFO " + canary}))
	}
	rep.Mid = append(rep.Mid, "panic: "+canary+" secret message [recovered]", "[signal SIGSEGV: segmentation violation code=0x1 addr=0x0 pc=0x1234]", "")
	ng := 1 + r.Intn(3)
	firstRunning := -1
	var pcs []uint64
	wellFormed := true
	for gi := 0; gi < ng; gi++ {
		g := synGoroutine{ID: 1 + r.Intn(90), Status: verifrt.Pick(r, []string{"running", "running", "select", "chan receive", "sleep", "runnable", "running, locked to thread"})}
		nf := verifrt.Pick(r, []int{0, 1, 2, 3, 5, 16, 17, 40, 200})
		longStack := r.Intn(10) == 0
		if longStack {
			nf = 12 + r.Intn(9)
		}
		prevSym := ""
		for k := 0; k < nf; k++ {
			f := synFrame{Symbol: symPool[r.Intn(len(symPool))], Args: verifrt.Pick(r, []string{"", "0x1, 0x2", "{0x" + canary + ", 0x5}", "(0x1)", "...", canary}),
				File: "/home/" + canary + "/src/x.go:" + fmt.Sprint(1+r.Intn(500)), HasPC: r.Intn(8) != 0}
			if r.Intn(6) == 0 {
				f.Symbol = "runtime.sigpanic"
			}
			real := pcPool[r.Intn(len(pcPool))]
			deep := longPCs
			if gi%2 == 1 || ng == 1 && nf%2 == 1 {
				deep = cjkPCs
			}
			if longStack && k < len(deep) {
				real = deep[k]
				f.HasPC = true
				f.Symbol = "main.f"
			}
			switch pick := r.Intn(12); {
			case longStack:
				f.PC = uint64(real) + delta
			case pick == 0:
				f.PC = delta // relocates to 0
			case pick == 1:
				f.PC = ^uint64(0)
			case pick == 2:
				f.PC = 1
			default:
				f.PC = uint64(real) + delta
			}
			g.Frames = append(g.Frames, f)
			if firstRunning < 0 && c14Running(g.Status) || firstRunning == gi {
				firstRunning = gi
				if f.HasPC {
					pc := f.PC - delta
					if prevSym == "runtime.sigpanic" {
						pc++
					}
					pcs = append(pcs, pc)
					prevSym = f.Symbol
				}
			}
		}
		if r.Intn(3) == 0 {
			g.Created = "created by main.start in goroutine 1"
		}
		rep.Gs = append(rep.Gs, g)
		if c14Running(g.Status) && firstRunning < 0 {
			firstRunning = gi
		}
	}
	if !wellFormedOverride {
		return rep, nil, false
	}
	return rep, pcs, wellFormed && firstRunning >= 0
}

// c14Running: the goroutine was executing when the traceback was taken. The
// runtime appends annotations to the status ("running, locked to thread").
func c14Running(status string) bool {
	return status == "running" || strings.HasPrefix(status, "running,")
}

func expectName(pcs []uint64) string {
	if len(pcs) == 0 {
		return "crash/no-running-goroutine"
	}
	if len(pcs) > 16 {
		pcs = pcs[:16]
	}
	up := make([]uintptr, len(pcs))
	for i, p := range pcs {
		up[i] = uintptr(p)
	}
	return counter.EncodeStack(up, "crash/crash")
}

func physFrames(name string) int {
	n := 0
	for i, l := range strings.Split(name, "\n") {
		if i == 0 || l == "" || l == "truncated" {
			continue
		}
		if !strings.Contains(l, ":=") {
			n++
		}
	}
	return n
}

func TestVerifC14(t *testing.T) {
	if verifrt.WantCheck("C14.synthetic") {
		c14Synthetic(t)
	}
	if verifrt.WantCheck("C14.real") {
		c14Real(t)
	}
}

func c14Synthetic(t *testing.T) {
	const check = "C14.synthetic"
	res := verifrt.NewResult(check)
	res.Rule = "crash texts: random bytes; structured tracebacks from a grammar (0-3 goroutines in any status, the running one first/later/absent, 0-200 frames with arbitrary symbol/argument/file text incl. sigpanic look-alikes, frames without pc=, created-by lines, sentinel relocated by 0/4KiB/huge/wrapping deltas, PCs = genuine function PCs of this binary, 0, 1, 2^64-1) and metamorphic variants differing only in non-PC text (messages, multi-line tab-indented messages quoting goroutine dumps, file paths containing ' pc=0x...' text, panic values of 900-2200 lines, arguments, paths, other symbols not equal to runtime.sigpanic, other goroutines, extra sentinel lines after the first, removed/garbled sentinel). Oracle: terminates within the tick budget without panic; result is an error, the fixed no-running-goroutine name, or crash/crash + <= 16 physical frames, <= 4096 bytes; equals EncodeStack of the harness's own relocated PC list; variants give the same name or an error; canary tokens placed in every text position never occur in the name. distinct = distinct report texts; non-trivial = report has a running goroutine with >= 1 PC"
	n := verifrt.Scale(12000, 1000000)
	for i := 0; i < n; i++ {
		if !verifrt.WantCase(check, i) {
			continue
		}
		rnd := verifrt.NewRand(verifrt.Seed(), fmt.Sprintf("%s/%d", check, i))
		canary := fmt.Sprintf("CANARY%dQ", i)
		res.Eval()
		if i%10 == 0 {
			b := rnd.Bytes(rnd.Intn(400))
			if rnd.Bool() {
				b = append([]byte(fmt.Sprintf("sentinel %x\ngoroutine 1 [running]:\n", sentinel())), b...)
			}
			c14Call(res, i, "random", string(b), canary)
			continue
		}
		rep, pcs, hasRunning := genReport(rnd, canary)
		text := rep.render()
		name, err, ok := c14Call(res, i, "structured", text, canary)
		if !ok {
			continue
		}
		rp := verifrt.CaseReplay(i, map[string]any{"report": fmt.Sprintf("%.1500s", text)})
		if len(pcs) > 0 {
			res.Distinct(text)
		}
		want := expectName(pcs)
		if !hasRunning {
			want = "crash/no-running-goroutine"
		}
		if rep.Sentinel == 0 {
			res.Hit("sentinel-missing-or-garbled")
			if err == nil && name != "crash/no-running-goroutine" {
				res.Violate("named-without-sentinel", fmt.Sprintf("a report without a usable sentinel was named %q", trunc(name)), rp)
			}
		} else if err == nil && name != want {
			res.Violate("name-not-from-pcs", fmt.Sprintf("name %q; EncodeStack of the first running goroutine's relocated PCs gives %q", trunc(name), trunc(want)), rp)
			continue
		}
		if err == nil {
			res.Hit("named")
			if len(pcs) > 16 {
				res.Hit("more-than-16-frames")
			}
			if strings.HasSuffix(name, "\ntruncated\n") {
				res.Hit("truncated-name")
			}
			if name == "crash/no-running-goroutine" {
				res.Hit("no-running-goroutine")
			}
		} else {
			res.Hit("error")
		}
		// metamorphic variants
		for v := 0; v < 3; v++ {
			var vr synReport = *rep
			vr.Gs = append([]synGoroutine(nil), rep.Gs...)
			kind := ""
			firstRunning := -1
			for gi, g := range vr.Gs {
				if c14Running(g.Status) {
					firstRunning = gi
					break
				}
			}
			switch k := rnd.Intn(10); k {
			case 9:
				// the location line of a frame without pc= reads like the runtime's
				// "frames elided" marker (which belongs between frames, not inside a
				// pair); paths of the other frames contain a parenthesis
				kind = "marker-text-as-location"
				for gi := range vr.Gs {
					fs := append([]synFrame(nil), vr.Gs[gi].Frames...)
					for fi := range fs {
						if !fs[fi].HasPC {
							fs[fi].File, fs[fi].RawLoc = fmt.Sprintf("...%d frames elided...", 1+rnd.Intn(99)), true
							if gi == firstRunning {
								res.Hit("marker-text-in-running-goroutine")
							}
						} else {
							fs[fi].File = "C:/Program Files (x86)/go/" + canary + "Z.go:7"
						}
					}
					vr.Gs[gi].Frames = fs
				}
			case 8:
				// a very long panic value (a dumped data structure, a quoted log):
				// the goroutines come a thousand or more lines into the report
				kind = "long-message"
				n := verifrt.Pick(rnd, []int{900, 1000, 1005, 1010, 1015, 1020, 1024, 1030, 2200})
				q := []string{"panic: " + canary + "Z long value follows"}
				for k := 0; k < n; k++ {
					q = append(q, fmt.Sprintf("\tline %d of the value", k))
				}
				q = append(q, "")
				vr.Mid = q
			case 7:
				// a multi-line panic value that quotes a goroutine dump: the runtime
				// prints a tab after every newline of the value, so the quoted lines
				// are message text, not a goroutine header or frames
				kind = "multiline-message"
				other := pcB(3)
				q := []string{"panic: worker failed " + canary + "Z: quoted traceback follows", "\tgoroutine 7 [running]:"}
				for k, pc := range other {
					q = append(q, fmt.Sprintf("\tquoted.f%d(0x1)", k), fmt.Sprintf("\t\t/q/%sZ.go:%d +0x1d pc=%#x", canary, k, uint64(pc)))
				}
				if rnd.Intn(2) == 0 {
					q = append(q, "\t", fmt.Sprintf("\tsentinel %x", sentinel()+0x770000))
				}
				q = append(q, " [recovered]", "")
				vr.Mid = q
			case 0:
				kind = "message"
				vr.Mid = []string{"panic: completely different " + canary + "Z text", "fatal error: all goroutines are asleep", ""}
			case 1:
				kind = "args-and-files"
				// (some paths contain text that looks like the pc field itself)
				other := pcB(2)
				shapes := []string{"C:/Users/" + canary + "Z/y.go:7", fmt.Sprintf("/home/u/my pc=%#x work/%sZ.go:7", uint64(other[0]), canary), "/src/a pc=zz/" + canary + "Z.go:9", fmt.Sprintf("/w/sp=0x1 fp=0x2 pc=%#x/q.go:1", uint64(other[1]))}
				shape := rnd.Intn(len(shapes))
				if shape > 0 {
					kind = "files-with-pc-text"
				}
				for gi := range vr.Gs {
					fs := append([]synFrame(nil), vr.Gs[gi].Frames...)
					for fi := range fs {
						fs[fi].Args = "0xdeadbeef, " + canary + "Z"
						fs[fi].File = shapes[shape]
					}
					vr.Gs[gi].Frames = fs
				}
			case 2:
				kind = "other-symbols"
				for gi := range vr.Gs {
					fs := append([]synFrame(nil), vr.Gs[gi].Frames...)
					for fi := range fs {
						if fs[fi].Symbol != "runtime.sigpanic" {
							fs[fi].Symbol = "renamed.pkg.Func" + canary
						}
					}
					vr.Gs[gi].Frames = fs
				}
			case 3:
				kind = "other-goroutines"
				if firstRunning >= 0 {
					vr.Gs = vr.Gs[:firstRunning+1]
					vr.Gs = append(vr.Gs, synGoroutine{ID: 99, Status: "running", Frames: []synFrame{{Symbol: "other.f", File: "/o.go:1", HasPC: true, PC: 12345}}})
				}
			case 4:
				kind = "extra-sentinel-later"
				vr.ExtraSent = []string{fmt.Sprintf("sentinel %x", sentinel()+0x55550000)}
				if rnd.Intn(3) == 0 {
					vr.ExtraSent = append(vr.ExtraSent, "sentinel zzz")
				}
				if rnd.Intn(3) == 0 {
					// inside the message text rather than on the next line
					vr.ExtraSent = nil
					vr.Mid = append([]string{"panic: user text follows", fmt.Sprintf("sentinel %x", sentinel()+0x1230000)}, rep.Mid...)
				}
			case 5:
				kind = "pre-text"
				vr.Pre = []string{"unrelated output " + canary + "Z", "", "more"}
			default:
				kind = "created-by"
				for gi := range vr.Gs {
					vr.Gs[gi].Created = "created by " + canary + ".other in goroutine 7"
				}
			}
			vt := vr.render()
			vname, verr, ok := c14Call(res, i, "variant:"+kind, vt, canary)
			if !ok {
				break
			}
			res.Hit("variant:" + kind)
			if err == nil && verr == nil && vname != name {
				res.Violate("name-depends-on-text:"+kind, fmt.Sprintf("changing only %s changed the counter name:\n%q\n%q", kind, trunc(name), trunc(vname)),
					verifrt.CaseReplay(i, map[string]any{"report": fmt.Sprintf("%.1200s", text), "variant": fmt.Sprintf("%.1200s", vt)}))
				break
			}
		}
		if i < 12 && i%10 == 1 {
			res.Sample(map[string]any{"case": i, "report_head": fmt.Sprintf("%.400s", text), "name": trunc(name), "err": fmt.Sprint(err)})
		}
	}
	res.Require("named", "error", "no-running-goroutine", "more-than-16-frames", "truncated-name", "variant:message", "variant:long-message", "variant:files-with-pc-text", "variant:multiline-message", "variant:extra-sentinel-later", "variant:other-symbols", "variant:marker-text-as-location", "marker-text-in-running-goroutine")
	if err := res.Write(); err != nil {
		t.Fatal(err)
	}
}

func trunc(s string) string {
	if len(s) > 300 {
		return s[:300] + "…"
	}
	return s
}

// c14Call runs telemetryCounterName under the monitors and applies the
// universal checks.
func c14Call(res *verifrt.Result, i int, class, text, canary string) (name string, err error, ok bool) {
	verifrt.SetTickBudget(int64(len(text))*16 + 200000)
	pv, stack := guarded(func() { name, err = telemetryCounterName([]byte(text)) })
	over := verifrt.TickExceeded()
	verifrt.SetTickBudget(0)
	rp := verifrt.CaseReplay(i, map[string]any{"class": class, "report": fmt.Sprintf("%.1500q", text)})
	if over {
		res.Violate("name-loop", "telemetryCounterName exceeded the loop-tick budget", rp)
		return "", nil, false
	}
	if pv != nil {
		res.Violate("name-panic", fmt.Sprintf("telemetryCounterName panicked (%s): %v\n%.800s", class, pv, stack), rp)
		return "", nil, false
	}
	if err != nil {
		return "", err, true
	}
	if name != "crash/no-running-goroutine" && !strings.HasPrefix(name, "crash/crash\n") {
		res.Violate("name-shape", fmt.Sprintf("name %q is neither an error, the fixed name, nor crash/crash + frames", trunc(name)), rp)
	}
	if len(name) > 4096 {
		res.Violate("name-too-long", fmt.Sprintf("counter name has %d bytes", len(name)), rp)
	}
	if n := physFrames(name); n > 16 {
		res.Violate("too-many-frames", fmt.Sprintf("name carries %d physical frames", n), rp)
	}
	if strings.Contains(name, canary) {
		res.Violate("text-leak", fmt.Sprintf("text from the crash report appears in the counter name: %q", trunc(name)), rp)
	}
	return name, nil, true
}

// ---- real crashes

//go:noinline
func verifCrashA(kind string) { verifCrashB(kind); runtime.KeepAlive(kind) }

//go:noinline
func verifCrashB(kind string) { verifCrashC(kind); runtime.KeepAlive(kind) }

var crashSink int

func inlinedIndex(s []int, i int) int { return s[i] }

//go:noinline
func verifCrashC(kind string) {
	switch kind {
	case "panic":
		panic("oops " + kind)
	case "panic-quoting-traceback":
		// an error value that spans lines and quotes another goroutine's dump
		pc := pcB(2)
		panic(fmt.Errorf("worker failed:\ngoroutine 7 [running]:\nquoted.f(0x1)\n\t/q/q.go:1 +0x1d pc=%#x\nquoted.g(0x1)\n\t/q/q.go:2 +0x1d pc=%#x\n\ngoroutine 8 [running]:\nquoted.h()\n\t/q/q.go:3 +0x1 pc=%#x\n", pc[0], pc[1], pc[0]))
	case "nilderef":
		var p *int
		crashSink = *p
	case "nilmap":
		var m map[string]int
		m["x"] = 1
	case "index-inlined":
		crashSink = inlinedIndex([]int{1}, len(kind))
	case "divide":
		z := len(kind) - len(kind)
		crashSink = 1 / z
	case "unlock":
		var mu sync.Mutex
		mu.Unlock()
	case "recursion":
		debug.SetMaxStack(1 << 16)
		var f func(int) int
		f = func(n int) int { return f(n+1) + 1 }
		crashSink = f(0)
	}
}

func TestVerifC14Crasher(t *testing.T) {
	kind := os.Getenv("VERIF_CRASH_KIND")
	if kind == "" {
		return
	}
	f, err := os.Create(os.Getenv("VERIF_CRASH_OUT"))
	if err != nil {
		os.Exit(3)
	}
	Parent(f)
	if strings.HasPrefix(kind, "goroutine:") {
		done := make(chan bool)
		go func() { verifCrashA(strings.TrimPrefix(kind, "goroutine:")); close(done) }()
		<-done
	} else if strings.HasPrefix(kind, "locked:") {
		// a goroutine wired to its thread (as the main goroutine is while the
		// init functions run, or any goroutine driving a GUI or cgo library)
		done := make(chan bool)
		go func() {
			runtime.LockOSThread()
			verifCrashA(strings.TrimPrefix(kind, "locked:"))
			close(done)
		}()
		<-done
	} else {
		verifCrashA(kind)
	}
	os.Exit(4) // not reached
}

func c14Real(t *testing.T) {
	const check = "C14.real"
	res := verifrt.NewResult(check)
	res.Rule = "the test binary is re-executed with crashmonitor.Parent(file) installed and crashes through verifCrashA -> B -> C by: explicit panic, a panic whose multi-line error value quotes another traceback, nil dereference, nil map write, out-of-range index in an inlined callee, integer divide by zero, unlock of an unlocked mutex (fatal error), stack overflow, each also on a non-main goroutine and on a goroutine locked to its thread; the captured report is named by telemetryCounterName in this process. Oracle: the name starts with crash/crash and lists verifCrashC, verifCrashB, verifCrashA in that order (innermost first), within the length and frame bounds. distinct = crash kinds"
	dir, _ := os.MkdirTemp(os.Getenv("VERIF_TMP"), "c14-")
	defer os.RemoveAll(dir)
	kinds := []string{"panic", "panic-quoting-traceback", "nilderef", "nilmap", "index-inlined", "divide", "unlock", "recursion"}
	reps := verifrt.Scale(1, 12)
	ci := 0
	for rep := 0; rep < reps; rep++ {
		for _, base := range kinds {
			for _, kind := range []string{base, "goroutine:" + base, "locked:" + base} {
				ci++
				if !verifrt.WantCase(check, ci) {
					continue
				}
				out := filepath.Join(dir, fmt.Sprintf("crash-%d.txt", ci))
				cmd := exec.Command(os.Args[0], "-test.run=^TestVerifC14Crasher$")
				cmd.Env = append(os.Environ(), "VERIF_CRASH_KIND="+kind, "VERIF_CRASH_OUT="+out, "GOTRACEBACK=system")
				cmd.Run()
				data, _ := os.ReadFile(out)
				res.Eval()
				res.Distinct(kind)
				rp := verifrt.CaseReplay(ci, map[string]any{"kind": kind, "report_head": fmt.Sprintf("%.600s", data)})
				if !strings.Contains(string(data), "goroutine ") {
					res.Inconc(fmt.Sprintf("crasher %s produced no traceback (%d bytes)", kind, len(data)))
					continue
				}
				name, err, ok := c14Call(res, ci, "real:"+kind, string(data), "NOCANARY-IN-REAL-REPORTS")
				if !ok {
					continue
				}
				if err != nil {
					res.Violate("real-crash-error:"+base, fmt.Sprintf("genuine %s traceback could not be named: %v", kind, err), rp)
					continue
				}
				decoded := counter.DecodeStack(name)
				res.Hit("real:" + base)
				if base == "recursion" {
					// the 16 innermost frames are all the recursive closure
					if !strings.Contains(decoded, "verifCrashC.func1") {
						res.Violate("real-crash-frames:"+base, "stack overflow crash is not named by the recursive function: "+trunc(decoded), rp)
					}
					continue
				}
				ic, ib, ia := strings.Index(decoded, "crashmonitor.verifCrashC"), strings.Index(decoded, "crashmonitor.verifCrashB"), strings.Index(decoded, "crashmonitor.verifCrashA")
				if ic < 0 || ib < 0 || ia < 0 || !(ic < ib && ib < ia) {
					res.Violate("real-crash-frames:"+base, fmt.Sprintf("genuine %s crash: name does not list verifCrashC, B, A in order: %s", kind, trunc(decoded)), rp)
				}
				if rep == 0 && kind == base && ci < 6 {
					res.Sample(map[string]any{"kind": kind, "name": trunc(decoded)})
				}
			}
		}
	}
	res.Require("real:panic", "real:panic-quoting-traceback", "real:nilderef", "real:index-inlined", "real:unlock", "real:recursion")
	if err := res.Write(); err != nil {
		t.Fatal(err)
	}
}
