//go:build verif

package counter

import (
	"fmt"
	"os"
	"path/filepath"
	"runtime/debug"
	"strings"
	"syscall"
	"testing"
	"time"

	"golang.org/x/telemetry/internal/mmap"
	"golang.org/x/telemetry/internal/telemetry"
	"golang.org/x/telemetry/internal/verifref"
	"golang.org/x/telemetry/internal/verifrt"
)

// C04: processes sharing a counter file never corrupt it, even when killed.
//
// An emulated process is its own `file` value (own fd, own MAP_SHARED mapping
// of the one shared path) driven by exactly one virtual thread; the atomics of
// different "processes" hit the same physical pages exactly as they do across
// OS processes. A kill parks the thread for ever (no deferred code runs).

type c04op struct {
	Kind string `json:"k"` // open | add | raw (mappedFile.newCounter + atomic add, no Counter protocol)
	Name int    `json:"name"`
	N    uint64 `json:"n,omitempty"`
}

type c04prog struct {
	Name    string    `json:"name"`
	Names   []string  `json:"-"`
	NameSig []string  `json:"names"`
	PreOpen bool      `json:"preopen"`
	PreFill int       `json:"prefill"`
	Procs   [][]c04op `json:"procs"`
	KillAt  []int     `json:"kill_at"` // per process: kill when it has made this many yields (0 = never)
	// Sat: Names[0] starts Base below 2^64-1, so that the first increments
	// saturate it (values never wrap, not even for an instant)
	Sat        bool `json:"sat,omitempty"`
	NoWeekends bool `json:"no_weekends,omitempty"`
	// Foreign: the last Foreign processes are a different program whose counter
	// file name coincides (same base name, version, toolchain, day) but whose
	// metadata, and with it the header length, differs. Whether such a process
	// gets to record is not judged (the library refuses it); what it does to the
	// file and to the other processes is.
	Foreign int `json:"foreign,omitempty"`
	// NoLink: the file system has no hard links (every link call fails), so new
	// files are initialised in place by whoever finds them short
	NoLink bool   `json:"no_link,omitempty"`
	Base   uint64 `json:"base,omitempty"`
}

type c04proc struct {
	f     *file
	ctrs  map[int]*Counter
	m     *mappedFile // for raw ops
	begun map[int]uint64
	done  map[int]uint64
	ops   int
	err   string
	// foreign: another program that happens to use the same file name
	foreign bool
}

type c04env struct {
	res      *verifrt.Result
	dir      string
	path     string
	q        *verifrt.Quarantine
	procs    []*c04proc
	prog     c04prog
	mon      []byte
	monSize  int64
	lastVal  map[string]uint64
	lastLim  uint32
	viol     string
	violSig  string
	violData []byte
	checks   int
	sched    *verifrt.Sched
	base     map[string]uint64 // value written before the schedule started
}

// vfSatAdd is the documented arithmetic of counter values: sums saturate.
func vfSatAdd(a, b uint64) uint64 {
	if a+b < a {
		return ^uint64(0)
	}
	return a + b
}

func (e *c04env) violate(sig, msg string) {
	if e.viol == "" {
		e.viol = msg
		e.violSig = sig
		if e.mon != nil {
			e.violData = append([]byte(nil), e.mon...)
		}
	}
}

func (e *c04env) remapMon() {
	fi, err := os.Stat(e.path)
	if err != nil || fi.Size() == e.monSize {
		return
	}
	if e.mon != nil {
		syscall.Munmap(e.mon)
		e.mon = nil
	}
	f, err := os.Open(e.path)
	if err != nil {
		return
	}
	defer f.Close()
	if fi.Size() == 0 {
		e.monSize = 0
		return
	}
	d, err := syscall.Mmap(int(f.Fd()), 0, int(fi.Size()), syscall.PROT_READ, syscall.MAP_SHARED)
	if err == nil {
		e.mon = d
		e.monSize = fi.Size()
	}
}

// check: the shared file must be a well-formed counter file at every instant.
func (e *c04env) check(final bool) {
	e.remapMon()
	if e.mon == nil {
		return
	}
	if len(e.mon) < verifref.PageSize {
		// creation in progress: header written, not yet extended to a page
		return
	}
	e.checks++
	cf, err := verifref.ParseCounterFile(e.mon)
	if err != nil {
		if !final && strings.Contains(err.Error(), "bad prefix") && vfAllZero(e.mon[:28]) {
			return // creation in progress (size extended before header) cannot happen, but be exact: judged at the end
		}
		e.violate("malformed:"+vfLayoutClass(err), "shared counter file is not well-formed: "+err.Error())
		return
	}
	if cf.Limit < e.lastLim {
		e.violate("limit-decreased", fmt.Sprintf("allocation limit went from %#x to %#x", e.lastLim, cf.Limit))
	}
	e.lastLim = cf.Limit
	begun := map[string]uint64{}
	done := map[string]uint64{}
	for _, p := range e.procs {
		for i, v := range p.begun {
			begun[e.prog.Names[i]] += v
		}
		for i, v := range p.done {
			done[e.prog.Names[i]] += v
		}
	}
	for n, b := range e.base {
		begun[n] = vfSatAdd(b, begun[n])
		done[n] = vfSatAdd(b, done[n])
	}
	seen := map[string]bool{}
	for _, rec := range cf.Records {
		seen[rec.Name] = true
		if strings.HasPrefix(rec.Name, "fill/") {
			continue
		}
		b, ok := begun[rec.Name]
		if !ok {
			e.violate("foreign-record", fmt.Sprintf("file contains a record %q nobody created", vfTrunc40(rec.Name)))
			continue
		}
		if rec.Value > b {
			e.violate("overcount", fmt.Sprintf("counter %q = %d exceeds increments begun %d", vfTrunc40(rec.Name), rec.Value, b))
		}
		if rec.Value < e.lastVal[rec.Name] {
			e.violate("value-decreased", fmt.Sprintf("counter %q went from %d to %d", vfTrunc40(rec.Name), e.lastVal[rec.Name], rec.Value))
		}
		e.lastVal[rec.Name] = rec.Value
	}
	for n, v := range e.lastVal {
		if !seen[n] && v > 0 {
			e.violate("record-vanished", fmt.Sprintf("counter %q (last value %d) is no longer reachable", vfTrunc40(n), v))
		}
	}
	if final {
		pend := map[string]uint64{}
		for _, p := range e.procs {
			for i, c := range p.ctrs {
				pend[e.prog.Names[i]] += counterStateBits(c.state.bits.Load()).extra()
			}
		}
		vals := cf.Counts()
		for n, b := range begun {
			d := done[n]
			v := vals[n]
			if vfSatAdd(v, pend[n]) < d || v > b {
				e.violate("lost-or-extra", fmt.Sprintf("counter %q: value %d (+%d pending in survivors); completed adds %d, begun %d", vfTrunc40(n), v, pend[n], d, b))
			}
		}
	}
}

func vfAllZero(b []byte) bool {
	for _, c := range b {
		if c != 0 {
			return false
		}
	}
	return true
}

// vfCollidingNames returns k distinct names that share one hash bucket.
func vfCollidingNames(r *verifrt.Rand, k int, length int) []string {
	var out []string
	want := uint32(r.Intn(verifref.NumHash))
	for i := 0; len(out) < k && i < 1000000; i++ {
		n := fmt.Sprintf("col/%d/%d", want, i)
		if length > len(n) {
			n += strings.Repeat("c", length-len(n))
		}
		if verifref.Hash(n) == want {
			out = append(out, n)
		}
	}
	return out
}

func c04Program(r *verifrt.Rand, kind int) c04prog {
	p := c04prog{}
	np := 2 + r.Intn(3)
	switch kind % 8 {
	case 7:
		// a counter two increments away from the largest value: sums saturate
		p.Name = "saturating"
		p.Names = []string{"sat/counter", "sat/other"}
		p.Sat = true
		p.Base = ^uint64(0) - 1 - uint64(r.Intn(7))
	case 6:
		// a hash chain whose every record needs a new page: a process that
		// re-maps because of one of them meets the next one beyond its new
		// mapping again
		p.Name = "colliding-big"
		p.PreFill = 3
		l := 3800 + r.Intn(200)
		p.Names = vfCollidingNames(r, 4, l)
		for i := 0; i < 3; i++ {
			n := fmt.Sprintf("pfill/%d/", i)
			p.Names = append(p.Names, n+strings.Repeat("g", l-len(n)))
		}
	case 0:
		p.Name = "same-name"
		p.Names = []string{"shared/counter"}
	case 1:
		p.Name = "colliding-names"
		p.Names = vfCollidingNames(r, 3, 0)
		if (kind/8)%2 == 1 {
			// (the chain-order pattern of the driver) two short names and a long one
			// in one bucket, and a filler that needs a page of its own
			p.Name = "chain-order"
			p.PreFill = 3
			short := vfCollidingNames(r, 2, 0)
			want := verifref.Hash(short[0])
			long := ""
			for k := 0; long == ""; k++ {
				n := fmt.Sprintf("col/long/%d/", k) + strings.Repeat("L", 3000)
				if verifref.Hash(n) == want {
					long = n
				}
			}
			p.Names = []string{short[0], short[1], long, "fill/z/" + strings.Repeat("Z", 3900)}
		}
	case 2:
		p.Name = "extend-race"
		p.PreFill = 3
		for i := 0; i < 3; i++ {
			p.Names = append(p.Names, fmt.Sprintf("big/%d/", i)+strings.Repeat("B", 3900+r.Intn(150)))
		}
		if (kind/8)%2 == 1 {
			// (the growth-by-several-pages pattern of the driver: seven more big names
			// and a small one)
			for i := 3; i < 10; i++ {
				p.Names = append(p.Names, fmt.Sprintf("big/%d/", i)+strings.Repeat("B", 3900+r.Intn(150)))
			}
			p.Names = append(p.Names, "small/x")
		}
	case 3:
		p.Name = "page-tail"
		// records sized so that the page fills up to the tail
		p.PreFill = 3
		l := verifrt.Pick(r, []int{13, 14, 15, 16, 45, 47, 48})
		for i := 0; i < 4; i++ {
			n := fmt.Sprintf("t%d/", i)
			p.Names = append(p.Names, n+strings.Repeat("p", l-len(n)))
		}
	case 4:
		p.Name = "concurrent-create"
		p.Names = []string{"a/first", "b/second"}
		p.NoWeekends = r.Intn(2) == 0
		p.NoLink = !p.NoWeekends && r.Intn(2) == 0 // (the week-end setting has no safe in-place fallback)
		if (kind/8)%4 <= 1 {
			// (the in-place patterns of the driver: creator killed at its k-th
			// point, and one opener parked at its k-th point, both for all k)
			p.NoLink, p.NoWeekends = true, false
		}
	default:
		p.Name = "mixed"
		p.Names = append(vfCollidingNames(r, 2, 0), "plain/x", "big/"+strings.Repeat("M", verifrt.Pick(r, []int{4000, verifref.MaxNameLen - 5, verifref.MaxNameLen - 4}))) // (up to the longest name a record can hold)
		p.PreFill = r.Intn(4)
		if (kind/8)%2 == 0 {
			p.Name = "other-program"
			p.PreFill = 0
			p.Foreign = 1
		}
	}
	p.PreOpen = p.Name != "concurrent-create" && (p.Foreign == 0 || r.Bool())
	if p.Foreign > 0 && np == 2 {
		np = 3
	}
	for i := 0; i < np; i++ {
		var ops []c04op
		if !p.PreOpen {
			ops = append(ops, c04op{Kind: "open"})
		}
		for k, n := 0, 1+r.Intn(3); k < n; k++ {
			kind := "add"
			if r.Intn(3) == 0 && !p.Sat { // (the harness's own raw add does not saturate)
				kind = "raw"
			}
			name := r.Intn(len(p.Names))
			if p.Sat && r.Intn(4) != 0 {
				name = 0
			}
			ops = append(ops, c04op{Kind: kind, Name: name, N: uint64(1 + r.Intn(5))})
		}
		p.Procs = append(p.Procs, ops)
	}
	p.KillAt = make([]int, np)
	for _, n := range p.Names {
		p.NameSig = append(p.NameSig, fmt.Sprintf("%.24s…(%d bytes, bucket %d)", n, len(n), verifref.Hash(n)))
	}
	return p
}

func runC04(res *verifrt.Result, base string, p c04prog, st c03strategy, rnd *verifrt.Rand) (*c04env, *verifrt.Sched) {
	e := &c04env{res: res, q: &verifrt.Quarantine{}, prog: p, lastVal: map[string]uint64{}}
	e.dir, _ = os.MkdirTemp(base, "p")
	telemetry.Default = telemetry.NewDir(e.dir)
	os.MkdirAll(telemetry.Default.LocalDir(), 0o777)
	if p.NoWeekends {
		// the processes find a fresh telemetry directory: the first opener also
		// creates the week-end setting (and may die or be overtaken while doing so)
		res.Hit("fresh-directory-without-weekends")
	} else {
		os.WriteFile(filepath.Join(telemetry.Default.LocalDir(), "weekends"), []byte("3\n"), 0o666)
	}
	now := time.Date(2024, 3, 4, 10, 0, 0, 0, time.UTC)
	CounterTime = func() time.Time { return now }
	munmap = func(d *mmap.Data) error { return e.q.Unmap(d.Data, "unmap") }
	vfTrapExit()
	if p.NoLink {
		verifrt.SetPlan(&verifrt.Plan{NoLog: true, Faults: []*verifrt.Fault{{Op: "Link", Nth: -1, Errno: syscall.EPERM}}})
		res.Hit("no-hard-links")
	}
	var ownBI *debug.BuildInfo
	for pi := range p.Procs {
		pr := &c04proc{f: &file{}, ctrs: map[int]*Counter{}, begun: map[int]uint64{}, done: map[int]uint64{}}
		if p.Foreign > 0 {
			bi := func(path, mod string) *debug.BuildInfo {
				return &debug.BuildInfo{GoVersion: "go1.23.5", Path: path, Main: debug.Module{Path: mod, Version: "(devel)"}}
			}
			ownBI = bi("example.com/a/cmd/server", "example.com/a")
			pr.f.buildInfo = ownBI
			if pi >= len(p.Procs)-p.Foreign {
				pr.f.buildInfo = bi("example.org/platform-team/infrastructure/tooling/v2/cmd/server", "example.org/platform-team/infrastructure/tooling/v2")
				pr.foreign = true
			}
		}
		e.procs = append(e.procs, pr)
	}
	if p.PreOpen {
		for _, pr := range e.procs {
			pr.f.rotate1()
			if pr.f.err != nil && pr.foreign {
				res.Hit("other-program-refused-at-pre-open")
			} else if pr.f.err != nil {
				res.Inconc("pre-open failed: " + pr.f.err.Error())
			}
		}
		if m := e.procs[0].f.current.Load(); m != nil {
			e.path = m.f.Name()
		}
		filler := &file{buildInfo: ownBI}
		filler.rotate1()
		for i := 0; i < p.PreFill; i++ {
			c := &Counter{name: fmt.Sprintf("fill/%d/", i) + strings.Repeat("f", 3900), file: filler}
			c.Add(1)
		}
		if p.Sat {
			c := &Counter{name: p.Names[0], file: filler}
			c.Add(1) // (obtains the record pointer: amounts held in memory are capped at 2^33-1)
			c.Add(1<<63 - 1)
			c.Add(int64(p.Base - (1<<63 - 1) - 1))
			e.base = map[string]uint64{p.Names[0]: p.Base}
			res.Hit("saturating-base-written")
		}
		if p.Name == "page-tail" {
			// Make the first name fill its page exactly: under the layout rules such a
			// record must be moved to the next page (the page tail is reserved for
			// concurrent extension writes).
			for k := 0; k < 8; k++ {
				d, err := os.ReadFile(e.path)
				if err != nil || len(d) < verifref.PageSize {
					break
				}
				cf, err := verifref.ParseCounterFile(d)
				if err != nil {
					break
				}
				lim := cf.Limit
				if lim == 0 {
					lim = cf.HdrLen + 4 + 4*verifref.NumHash
				}
				room := verifref.PageSize - lim%verifref.PageSize
				if room <= 4096+16 && room > 48 {
					n := "t0/"
					p.Names[0] = n + strings.Repeat("x", int(room)-16-len(n)-e.res.Classes["exact-fit"]%2*7)
					e.prog.Names[0] = p.Names[0]
					e.res.Hit("exact-fit")
					break
				}
				c := &Counter{name: fmt.Sprintf("fill/x%d/", k) + strings.Repeat("f", 3000), file: filler}
				c.Add(1)
			}
		}
		if m := filler.current.Load(); m != nil {
			m.close()
		}
	}
	s := verifrt.NewSched(rnd)
	s.MaxSteps = 40000
	e.sched = s
	for pi, ops := range p.Procs {
		pi, ops := pi, ops
		pr := e.procs[pi]
		s.Go(fmt.Sprintf("P%d", pi), func() {
			for _, op := range ops {
				switch op.Kind {
				case "open":
					pr.f.rotate1()
					if m := pr.f.current.Load(); m != nil && e.path == "" {
						e.path = m.f.Name()
					}
				case "add":
					c := pr.ctrs[op.Name]
					if c == nil {
						c = &Counter{name: p.Names[op.Name], file: pr.f}
						pr.ctrs[op.Name] = c
					}
					pr.begun[op.Name] += op.N
					c.Add(int64(op.N))
					if counterStateBits(c.state.bits.Load()).extra() == 0 {
						pr.done[op.Name] += op.N
					}
				case "raw":
					if pr.m == nil {
						cur := pr.f.current.Load()
						if cur == nil {
							continue
						}
						m, err := openMapped(cur.f.Name(), cur.meta)
						if err != nil {
							pr.err = "openMapped: " + err.Error()
							continue
						}
						pr.m = m
					}
					pr.begun[op.Name] += 0 // the record may appear from here on
					v, m1, err := pr.m.newCounter(p.Names[op.Name])
					if err != nil {
						pr.err = fmt.Sprintf("newCounter(%q): %v", vfTrunc40(p.Names[op.Name]), err)
						continue
					}
					if m1 != nil {
						pr.m.close()
						pr.m = m1
					}
					pr.begun[op.Name] += op.N
					verifrt.Yield("raw-add")
					v.Add(op.N)
					pr.done[op.Name] += op.N
				}
				pr.ops++
			}
		})
	}
	s.OnStep = func(s *verifrt.Sched, t *verifrt.Thread) {
		if k := p.KillAt[t.ID]; k > 0 && t.Steps >= k && !t.Done && !t.Killed {
			s.Kill(t)
			res.Hit("killed@" + vfPointClass(t.Pt))
		}
		if e.path == "" {
			ents, _ := os.ReadDir(telemetry.Default.LocalDir())
			for _, en := range ents {
				if strings.HasSuffix(en.Name(), ".count") {
					e.path = filepath.Join(telemetry.Default.LocalDir(), en.Name())
				}
			}
		}
		if e.path != "" {
			e.check(false)
		}
	}
	var then func(*verifrt.Sched, []*verifrt.Thread) *verifrt.Thread
	switch st.Kind {
	case "pct":
		then = verifrt.ChoosePCT(rnd, st.D, 300)
	case "sticky":
		then = verifrt.ChooseSticky(7, 8)
	default:
		then = verifrt.ChooseRandom
	}
	if len(st.Phases) > 0 {
		s.Choose = verifrt.ChoosePhases(st.Phases, then)
	} else {
		s.Choose = then
	}
	_, replaying := verifrt.Replaying()
	s.KeepPts = replaying
	s.Run(20 * time.Second)
	if replaying {
		for i, id := range s.PtTrace {
			fmt.Printf("step %3d: %-44s -> next P%d\n", i+1, s.PtNames[id], s.Trace[i+1])
		}
	}
	return e, s
}

// vfPointClass strips ordinals so that coverage classes are stable.
func vfPointClass(pt string) string {
	parts := strings.Split(pt, ":")
	if len(parts) == 3 {
		return parts[0] + ":" + parts[2]
	}
	return pt
}

func (e *c04env) close() {
	verifrt.SetPlan(nil)
	for i, pr := range e.procs {
		if e.sched != nil && i < len(e.sched.Threads) && e.sched.Threads[i].Killed {
			continue // a killed process never cleans up; its fds die with the batch child
		}
		if m := pr.f.current.Load(); m != nil {
			m.close()
		}
		if pr.m != nil {
			pr.m.close()
		}
	}
	e.q.Release()
	if e.mon != nil {
		syscall.Munmap(e.mon)
	}
	munmap = mmap.Munmap
	os.RemoveAll(e.dir)
}

// c04FormatOnly is set when the harness runs for C10 (VERIF_C04_AS=C10.writers):
// only the layout oracles (strict decoder after every step, monotone limit,
// records neither foreign nor vanishing) produce verdicts then.
var c04FormatOnly = false

func c04Violate(r *verifrt.Result, sig, msg string, replay map[string]any) {
	if c04FormatOnly && !(strings.HasPrefix(sig, "malformed:") || sig == "limit-decreased" || sig == "foreign-record" || sig == "record-vanished") {
		r.Hit("not-a-layout-verdict:" + strings.SplitN(sig, ":", 2)[0])
		return
	}
	r.Violate(sig, msg, replay)
}

func TestVerifC04(t *testing.T) {
	check := "C04.sched"
	if as := os.Getenv("VERIF_C04_AS"); as != "" {
		check = as
		c04FormatOnly = true
	}
	res := verifrt.NewResult(check)
	res.Rule = "2-4 emulated processes (independent fd + MAP_SHARED mapping of one counter file each, one virtual thread per process) create and increment same-name, bucket-colliding, page-filling and file-extending counters through the real code under the token-passing scheduler (scheduling point at every atomic operation and fs call), with kills (thread parked for ever) at chosen points; strategies: kill/park at the k-th point for all k, PCT, sticky, random. Oracle after every step: the shared file's bytes, read through the monitor's own mapping, pass the strict independent decoder (aligned in-bounds records below a monotone limit, acyclic chains, bucket = hash, unique names, no overlap, page tail free), values monotone and <= increments begun; at quiescence completed <= value(+pending) <= begun and every survivor finished all its operations. distinct = distinct (program, trace) hashes; non-trivial = trace switches process at least twice or contains a kill"
	nb := 32
	if verifrt.Thorough() {
		nb = 256
	}
	total := verifrt.Scale(2400, 100000)
	per := (total + nb - 1) / nb
	verifrt.RunBatches("TestVerifC04", res, nb, 0, 40*time.Minute, "c04.death", func(b int, r *verifrt.Result, cur *verifrt.Current) {
		base := vfVtmp("c04-")
		defer os.RemoveAll(base)
		lo, hi := verifrt.CaseRange(check, b, per)
		for i := lo; i < hi; i++ {
			rnd := verifrt.NewRand(verifrt.Seed(), fmt.Sprintf("%s/%d", check, i))
			p := c04Program(rnd, i)
			var st c03strategy
			switch (i / 7) % 4 {
			case 0: // kill one process at its k-th point, k systematic
				k := 1 + (i/28)%90
				v := rnd.Intn(len(p.Procs))
				p.KillAt[v] = k
				st = c03strategy{Kind: "park", Phases: []verifrt.Phase{{Thread: rnd.Intn(len(p.Procs)), Until: 1 + rnd.Intn(60)}}}
			case 1: // park one process at its k-th point, run the others to completion
				k := 1 + (i/28)%90
				v := rnd.Intn(len(p.Procs))
				st = c03strategy{Kind: "park", Phases: []verifrt.Phase{{Thread: v, Until: k}}}
				for _, o := range rnd.Perm(len(p.Procs)) {
					if o != v {
						st.Phases = append(st.Phases, verifrt.Phase{Thread: o, Until: -1})
					}
				}
				if rnd.Intn(3) == 0 {
					p.KillAt[v] = k
				}
			case 2:
				st = c03strategy{Kind: "pct", D: 1 + rnd.Intn(3)}
				if rnd.Intn(3) == 0 {
					p.KillAt[rnd.Intn(len(p.Procs))] = 1 + rnd.Intn(80)
				}
			default:
				st = c03strategy{Kind: verifrt.Pick(rnd, []string{"random", "sticky"})}
				for j := range p.KillAt {
					if rnd.Intn(4) == 0 {
						p.KillAt[j] = 1 + rnd.Intn(80)
					}
				}
			}
			if p.Name == "concurrent-create" && (i/8)%2 == 0 {
				// the process that creates the file dies at its k-th point (all k:
				// also between the writes that initialise the file); the others then
				// open the file it left behind and must be able to count
				k := 1 + (i/16)%45
				p.KillAt = make([]int, len(p.Procs))
				p.KillAt[0] = k
				st = c03strategy{Kind: "park", Phases: []verifrt.Phase{{Thread: 0, Until: k}}}
				for o := 1; o < len(p.Procs); o++ {
					st.Phases = append(st.Phases, verifrt.Phase{Thread: o, Until: -1})
				}
				r.Hit("creator-killed-pattern")
			}
			if p.Name == "concurrent-create" && (i/8)%4 == 1 {
				// no hard links, so the file is initialised in place by every process that
				// finds it short: one of them stops at its k-th point (all k: also between
				// looking at the size and writing), the others create counters, it resumes
				k := 1 + (i/32)%45
				p.KillAt = make([]int, len(p.Procs))
				st = c03strategy{Kind: "park", Phases: []verifrt.Phase{{Thread: 0, Until: k}}}
				for o := 1; o < len(p.Procs); o++ {
					st.Phases = append(st.Phases, verifrt.Phase{Thread: o, Until: -1})
				}
				r.Hit("in-place-init-pattern")
			}
			if p.Name == "chain-order" {
				// the order of a hash chain is not the order of allocation: A and B reserve
				// records in the first page and stop d1, d2 steps after that (before
				// linking them); C grows the file and links a record of the same bucket
				// beyond their mappings; B links; A links: A's chain is then B's record
				// (inside its mapping) followed by C's (outside)
				j := i / 16
				d1, d2 := 1+j%3, 1+(j/3)%3
				p.Procs = [][]c04op{{{Kind: "raw", Name: 0, N: 1}}, {{Kind: "raw", Name: 1, N: 2}}, {{Kind: "raw", Name: 3, N: 1}, {Kind: "raw", Name: 2, N: 3}}}
				p.KillAt = make([]int, 3)
				st = c03strategy{Kind: "park", Phases: []verifrt.Phase{
					{Thread: 0, AtPt: "mappedFile.cas32:0:CompareAndSwap", Plus: d1},
					{Thread: 1, AtPt: "mappedFile.cas32:0:CompareAndSwap", Plus: d2},
					{Thread: 2, Until: -1}, {Thread: 1, Until: -1}, {Thread: 0, Until: -1}}}
				r.Hit("chain-order-pattern")
			}
			if p.Name == "extend-race" && len(p.Names) > 10 {
				// one process is stopped at its k-th point (all k: also between reading
				// the allocation limit and growing the file for a small or a big record)
				// while another grows the file by two pages and more; then it goes on with
				// its view of a file that was shorter
				k := 1 + (i/16)%35
				pass := (i / 16) / 35
				vk := []string{"add", "raw"}[pass%2]
				vn := 0 // a big name,
				if pass >= 4 {
					vn = 10 // or the small one
				}
				p.Procs = [][]c04op{{{Kind: vk, Name: vn, N: 1}}, {{Kind: "raw", Name: 1, N: 1}, {Kind: "raw", Name: 2, N: 1}, {Kind: "raw", Name: 3, N: 1}, {Kind: "raw", Name: 4, N: 1}, {Kind: "raw", Name: 5, N: 1}, {Kind: "raw", Name: 6, N: 1}, {Kind: "add", Name: 7, N: 2}}}
				p.KillAt = make([]int, 2)
				st = c03strategy{Kind: "park", Phases: []verifrt.Phase{{Thread: 0, Until: k}, {Thread: 1, Until: -1}, {Thread: 0, Until: -1}}}
				r.Hit("grow-by-pages-pattern")
			}
			if p.Name == "colliding-big" && (i/7)%2 == 1 {
				// one process links a record beyond everybody's mapping; the
				// victim starts, is parked at its k-th point (for all k: also
				// right after its re-map); a third process links another record
				// one page further in the same bucket; the victim resumes
				kind := verifrt.Pick(rnd, []string{"raw", "add"})
				// (pages hold four such records: three fillers make the next one cross)
				// (the victim goes through the Counter protocol, which retries a failed
				// lookup, or straight to the record allocator on a mapping it keeps, where
				// an error returned to a healthy process shows as such)
				victim := "add"
				if ((i/14)/60)%2 == 1 {
					victim = "raw"
				}
				p.Procs = [][]c04op{{{Kind: kind, Name: 0, N: 1}}, {{Kind: victim, Name: 2, N: 1}},
					{{Kind: "raw", Name: 4, N: 1}, {Kind: "raw", Name: 5, N: 1}, {Kind: "raw", Name: 6, N: 1}, {Kind: "raw", Name: 1, N: 1}}}
				p.KillAt = make([]int, 3)
				st = c03strategy{Kind: "park", Phases: []verifrt.Phase{{Thread: 0, Until: -1}, {Thread: 1, Until: 1 + (i/14)%60}, {Thread: 2, Until: -1}, {Thread: 1, Until: -1}}}
				r.Hit("remap-twice-pattern")
			}
			if cur != nil {
				cur.Set(fmt.Sprintf("case %d program %s strategy %+v kill %v", i, p.Name, st, p.KillAt))
			}
			e, s := runC04(r, base, p, st, rnd)
			r.Eval()
			r.Hit("program:" + p.Name)
			r.Hit("strategy:" + st.Kind)
			switches, kills := 0, 0
			for j := 1; j < len(s.Trace); j++ {
				if s.Trace[j] != s.Trace[j-1] {
					switches++
				}
			}
			for _, t := range s.Threads {
				if t.Killed {
					kills++
				}
			}
			if switches >= 2 || kills > 0 {
				r.Distinct(p.Name + fmt.Sprint(p.Procs, p.KillAt) + string(s.Trace))
			}
			if kills > 0 {
				r.Hit("schedule-with-kill")
			}
			replay := verifrt.CaseReplay(i, map[string]any{"program": p, "strategy": st, "steps": s.Steps})
			switch {
			case s.Stuck != "":
				r.Inconc("schedule stuck: " + s.Stuck)
			default:
				bad := false
				for _, t := range s.Threads {
					if t.Panic != nil && !t.Killed {
						sig := "panic:" + vfTopFrame(t.Stack)
						if ep, ok := t.Panic.(verifrt.ExitPanic); ok {
							// the file is healthy by construction (only crashes and
							// other processes' progress): nothing may be judged corrupt
							sig = fmt.Sprintf("survivor-exit-%d:counter-bug-on-healthy-file:%s", ep.Code, vfExitFrame(t.Stack))
						} else if addr, ok := verifrt.FaultAddr(t.Panic); ok {
							if _, ok := e.q.Find(addr); ok {
								sig = "stale-mapping-access:" + vfTopFrame(t.Stack)
							} else {
								sig = "fault:" + vfTopFrame(t.Stack)
							}
						}
						c04Violate(r, sig, fmt.Sprintf("process %s panicked (program %s): %v\n%.1500s", t.Name, p.Name, t.Panic, t.Stack), replay)
						bad = true
					}
				}
				if bad {
					break
				}
				if s.Overrun {
					c04Violate(r, "survivor-blocked", fmt.Sprintf("surviving processes did not finish within %d steps (program %s)", s.MaxSteps, p.Name), replay)
					break
				}
				e.check(true)
				if e.viol != "" {
					if e.violData != nil {
						replay["input"] = vfSaveInput(r, "C04", e.violData)
					}
					c04Violate(r, e.violSig, e.viol+" (program "+p.Name+")", replay)
					break
				}
				for pi, pr := range e.procs {
					if s.Threads[pi].Killed {
						continue
					}
					if p.Foreign > 0 && pr.f.err != nil && strings.Contains(pr.f.err.Error(), "header mismatch") {
						// refused because the file belongs to the other program (whichever of the
						// two created it): not judged, see c04prog.Foreign. A process refused a
						// file that carries its own program's header is judged like any other.
						if cf, err := verifref.ParseCounterFile(e.mon); err == nil && cf.MetaKV["Program"] != pr.f.buildInfo.Path {
							r.Hit("other-program-refused")
							continue
						}
					}
					if pr.err != "" {
						c04Violate(r, "survivor-failed", fmt.Sprintf("surviving process P%d was made to fail: %s (program %s)", pi, pr.err, p.Name), replay)
					}
					for ci, c := range pr.ctrs {
						if x := counterStateBits(c.state.bits.Load()).extra(); x != 0 {
							c04Violate(r, "survivor-unpersisted", fmt.Sprintf("surviving process P%d could not persist %d of counter %q (program %s)", pi, x, vfTrunc40(p.Names[ci]), p.Name), replay)
						}
					}
				}
			}
			r.HitN("wellformedness-checks", e.checks)
			if i-lo < 1 && b < 3 {
				r.Sample(map[string]any{"case": i, "program": p, "strategy": st, "steps": s.Steps, "file_checks": e.checks})
			}
			e.close()
		}
	})
	res.Require("creator-killed-pattern", "saturating-base-written", "program:saturating", "remap-twice-pattern", "program:colliding-big", "program:same-name", "program:colliding-names", "program:extend-race", "program:page-tail", "program:concurrent-create", "program:other-program", "other-program-refused", "no-hard-links", "in-place-init-pattern", "grow-by-pages-pattern", "chain-order-pattern", "schedule-with-kill", "strategy:pct", "strategy:park")
	if err := res.Write(); err != nil {
		t.Fatal(err)
	}
}
