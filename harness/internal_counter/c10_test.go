//go:build verif

package counter

import (
	"fmt"
	"os"
	"path/filepath"
	"reflect"
	"strings"
	"sync/atomic"
	"testing"
	"time"

	"golang.org/x/telemetry/internal/verifref"
	"golang.org/x/telemetry/internal/verifrt"
)

// C10: files written by the library conform to the documented v1 layout.

func c10Name(r *verifrt.Rand, uniq int) string {
	u := fmt.Sprintf("%d|", uniq)
	var n int
	switch r.Intn(8) {
	case 0:
		n = 1
	case 1:
		n = verifrt.Pick(r, []int{15, 16, 17, 47, 48, 49})
	case 2:
		n = 4079 + r.Intn(18) // 4079..4096
	case 3:
		n = 200 + r.Intn(3800)
	default:
		n = 2 + r.Intn(60)
	}
	if n < len(u) {
		// tiny names: make them unique through a small alphabet walk
		s := fmt.Sprintf("%x", uniq)
		if len(s) > n {
			return s // cannot be that short and unique; use the hex
		}
		return s + strings.Repeat("_", n-len(s))
	}
	b := r.Bytes(n - len(u))
	return u + string(b)
}

type c10handle struct {
	m *mappedFile
}

func TestVerifC10(t *testing.T) {
	if verifrt.WantCheck("C10.seq") {
		c10Sequences(t)
	}
	if verifrt.WantCheck("C10.place") && verifrt.Batch() < 0 {
		c10Place(t)
	}
	if verifrt.WantCheck("C10.reverse") && verifrt.Batch() < 0 {
		c10Reverse(t)
	}
}

func c10Sequences(t *testing.T) {
	const check = "C10.seq"
	res := verifrt.NewResult(check)
	res.Rule = "random operation sequences (create/add/reopen/extend, 1-3 independent writer handles on one file, names 1..4096 bytes of arbitrary content, growth over many 16KiB pages, metadata up to the 512-byte cap); after every operation the raw file bytes are decoded by the strict independent decoder (alignment, bounds, page-tail rule, bucket = FNV-1a fold, disjointness, unique names) and compared with a model; limit must be monotone and <= size. distinct = distinct (op sequence) hashes; non-trivial = sequence created >= 2 records"
	nb := 8
	total := verifrt.Scale(400, 20000)
	per := (total + nb - 1) / nb
	verifrt.RunBatches("TestVerifC10", res, nb, 0, 30*time.Minute, "c10.death", func(b int, r *verifrt.Result, cur *verifrt.Current) {
		dir := vfVtmp("c10-")
		defer os.RemoveAll(dir)
		lo, hi := verifrt.CaseRange(check, b, per)
		for i := lo; i < hi; i++ {
			_ = lo
			rnd := verifrt.NewRand(verifrt.Seed(), fmt.Sprintf("%s/%d", check, i))
			cur.Set(fmt.Sprintf("case %d", i))
			c10OneSequence(r, rnd, dir, i)
		}
	})
	res.Require("op:new", "op:add", "op:reopen", "grew", "chain>=514", "chain>=700", "pages>=4", "name:4096", "name:1", "meta:cap", "meta:over-cap-refused", "name:4097-refused", "multi-handle")
	if err := res.Write(); err != nil {
		t.Fatal(err)
	}
}

func c10OneSequence(r *verifrt.Result, rnd *verifrt.Rand, dir string, i int) {
	const check = "C10.seq"
	r.Eval()
	path := filepath.Join(dir, fmt.Sprintf("f%d.v1.count", i))
	defer os.Remove(path)
	if i%50 == 7 {
		c10LongChain(r, rnd, path, i)
		return
	}
	meta := vfGenMeta(rnd)
	switch rnd.Intn(6) {
	case 0: // exactly at the cap
		meta = "K: " + strings.Repeat("v", verifref.MaxMetaLen-4) + "\n"
		r.Hit("meta:cap")
	case 1: // over the cap: must be refused and nothing written
		big := "K: " + strings.Repeat("v", verifref.MaxMetaLen-3) + "\n"
		m, err := openMapped(path, big)
		if err == nil {
			m.close()
			r.Violate("meta-over-cap-accepted", fmt.Sprintf("openMapped accepted %d bytes of metadata (cap %d)", len(big), verifref.MaxMetaLen), verifrt.CaseReplay(i, nil))
		} else if _, serr := os.Stat(path); serr == nil {
			r.Violate("meta-over-cap-wrote-file", "openMapped refused over-long metadata but left a file behind", verifrt.CaseReplay(i, nil))
		} else {
			r.Hit("meta:over-cap-refused")
		}
	}
	nh := 1 + rnd.Intn(3)
	if nh > 1 {
		r.Hit("multi-handle")
	}
	hs := make([]*c10handle, nh)
	for j := range hs {
		m, err := openMapped(path, meta)
		if err != nil {
			r.Violate("open-failed", "openMapped failed on a fresh/valid file: "+err.Error(), verifrt.CaseReplay(i, nil))
			return
		}
		hs[j] = &c10handle{m}
	}
	defer func() {
		for _, h := range hs {
			h.m.close()
		}
	}()
	model := map[string]uint64{}
	ptrs := make([]map[string]*atomic.Uint64, nh)
	for j := range ptrs {
		ptrs[j] = map[string]*atomic.Uint64{}
	}
	var names []string
	nops := verifrt.Pick(rnd, []int{5, 20, 60, 150})
	big := rnd.Intn(4) == 0 // long names => many pages
	lastLimit := uint32(0)
	opsig := ""
	maxPages := 0
	for op := 0; op < nops; op++ {
		h := rnd.Intn(nh)
		kind := rnd.Intn(10)
		switch {
		case kind < 5 || len(names) == 0: // new counter (or lookup of existing through newCounter)
			var name string
			if len(names) > 0 && rnd.Intn(5) == 0 {
				name = names[rnd.Intn(len(names))]
			} else {
				name = c10Name(rnd, len(names))
				if big && rnd.Bool() {
					name = fmt.Sprintf("%d|", len(names)) + string(rnd.Bytes(2000+rnd.Intn(2090)))
				}
				if rnd.Intn(40) == 0 { // too long: refused
					long := name + strings.Repeat("L", verifref.MaxNameLen+1-len(name))
					v, m1, err := hs[h].m.newCounter(long)
					if err == nil || v != nil || m1 != nil {
						r.Violate("name-4097-accepted", "newCounter accepted a 4097-byte name", verifrt.CaseReplay(i, nil))
					} else {
						r.Hit("name:4097-refused")
					}
					break
				}
			}
			v, m1, err := hs[h].m.newCounter(name)
			if err != nil {
				r.Violate("newCounter-failed", fmt.Sprintf("newCounter(len %d) failed on a healthy file: %v", len(name), err), verifrt.CaseReplay(i, nil))
				return
			}
			if m1 != nil {
				hs[h].m.close()
				hs[h].m = m1
				ptrs[h] = map[string]*atomic.Uint64{}
				r.Hit("grew")
			}
			if _, ok := model[name]; !ok {
				model[name] = 0
				names = append(names, name)
				r.Hit("op:new")
				if len(name) == 4096 {
					r.Hit("name:4096")
				}
				if len(name) == 1 {
					r.Hit("name:1")
				}
			}
			ptrs[h][name] = v
			opsig += fmt.Sprintf("n%d.%d;", h, len(name))
		case kind < 8: // add through a known pointer
			name := names[rnd.Intn(len(names))]
			v := ptrs[h][name]
			if v == nil {
				var m1 *mappedFile
				var err error
				v, m1, err = hs[h].m.newCounter(name)
				if err != nil || v == nil {
					r.Violate("lookup-failed", fmt.Sprintf("lookup of existing counter failed: %v", err), verifrt.CaseReplay(i, nil))
					return
				}
				if m1 != nil {
					hs[h].m.close()
					hs[h].m = m1
					ptrs[h] = map[string]*atomic.Uint64{}
				}
				ptrs[h][name] = v
			}
			n := verifrt.Pick(rnd, []uint64{1, 1, 7, 1 << 20, 1 << 40})
			if rnd.Intn(30) == 0 {
				n = ^uint64(0) - model[name] // reach 2^64-1 exactly
			}
			if model[name]+n < model[name] {
				n = 1
				if model[name] == ^uint64(0) {
					break
				}
			}
			v.Add(n)
			model[name] += n
			r.Hit("op:add")
			opsig += "a;"
		default: // reopen this handle
			hs[h].m.close()
			m, err := openMapped(path, meta)
			if err != nil {
				r.Violate("reopen-failed", "openMapped failed on an existing valid file: "+err.Error(), verifrt.CaseReplay(i, nil))
				return
			}
			hs[h].m = m
			ptrs[h] = map[string]*atomic.Uint64{}
			r.Hit("op:reopen")
			opsig += "r;"
		}
		// oracle after every operation
		data, err := os.ReadFile(path)
		if err != nil {
			r.Inconc("cannot read back: " + err.Error())
			return
		}
		if len(data)%verifref.PageSize != 0 {
			r.Violate("size-not-page-multiple", fmt.Sprintf("file size %d is not a multiple of 16KiB", len(data)), verifrt.CaseReplay(i, nil))
			return
		}
		if p := len(data) / verifref.PageSize; p > maxPages {
			maxPages = p
		}
		cf, err := verifref.ParseCounterFile(data)
		if err != nil {
			r.Violate("layout:"+vfLayoutClass(err), fmt.Sprintf("after op %d the file violates the v1 layout: %v", op, err),
				verifrt.CaseReplay(i, map[string]any{"input": vfSaveInput(r, "C10", data)}))
			return
		}
		if cf.Meta != strings.TrimRight(meta, "\x00") {
			r.Violate("meta-readback", fmt.Sprintf("metadata read back %q, written %q", cf.Meta, meta), verifrt.CaseReplay(i, nil))
			return
		}
		if cf.Limit < lastLimit {
			r.Violate("limit-decreased", fmt.Sprintf("allocation limit went from %#x to %#x", lastLimit, cf.Limit), verifrt.CaseReplay(i, nil))
			return
		}
		lastLimit = cf.Limit
		if d := vfDiffCounts(cf.Counts(), model); d != "" {
			r.Violate("readback-mismatch", "independent decoder reads back something else than was written: "+d,
				verifrt.CaseReplay(i, map[string]any{"input": vfSaveInput(r, "C10", data)}))
			return
		}
		// the library's own reader sees the file the same way
		if pf, perr := Parse(path, data); perr != nil {
			r.Violate("library-rejects-own-file", fmt.Sprintf("after op %d the library's reader rejects the file its writer produced (metadata %d bytes): %v", op, len(meta), perr),
				verifrt.CaseReplay(i, map[string]any{"input": vfSaveInput(r, "C10", data)}))
			return
		} else {
			if !reflect.DeepEqual(pf.Meta, cf.MetaKV) && !(len(pf.Meta) == 0 && len(cf.MetaKV) == 0) {
				r.Violate("library-reads-other-metadata", fmt.Sprintf("library reader sees metadata %q, the file holds %q", pf.Meta, cf.MetaKV), verifrt.CaseReplay(i, map[string]any{"input": vfSaveInput(r, "C10", data)}))
				return
			}
			want := map[string]uint64{}
			for n, v := range cf.Counts() {
				want[verifref.ExpandStack(n)] = v
			}
			if !reflect.DeepEqual(pf.Count, want) && !(len(pf.Count) == 0 && len(want) == 0) {
				r.Violate("library-reads-other-counts", "library reader and independent decoder disagree on the counters of a file the library wrote", verifrt.CaseReplay(i, map[string]any{"input": vfSaveInput(r, "C10", data)}))
				return
			}
			r.Hit("library-readback")
		}
		for _, rec := range cf.Records {
			if rec.Flag != 0xff {
				r.Violate("length-flag", fmt.Sprintf("record %#x: top byte of length word is %#x, writer documents 0xff", rec.Off, rec.Flag), verifrt.CaseReplay(i, nil))
				return
			}
		}
	}
	if maxPages >= 4 {
		r.Hit("pages>=4")
	}
	if maxPages >= 20 {
		r.Hit("pages>=20")
	}
	if len(names) >= 2 {
		r.Distinct(opsig)
	}
	if i < 3 {
		r.Sample(map[string]any{"case": i, "handles": nh, "ops": opsig[:min(len(opsig), 120)], "records": len(names), "pages": maxPages})
	}
}

func vfLayoutClass(err error) string {
	s := err.Error()
	for _, k := range []string{"not aligned", "outside", "reached twice", "name length", "beyond limit", "page end", "hashes to", "two reachable", "overlap", "limit", "header length", "padding", "prefix", "short"} {
		if strings.Contains(s, k) {
			return strings.ReplaceAll(k, " ", "-")
		}
	}
	return "other"
}

// c10Place sweeps the pure placement function over a full page period.
func c10Place(t *testing.T) {
	const check = "C10.place"
	res := verifrt.NewResult(check)
	res.Rule = "place(limit, name) for every 32-aligned limit in a 16KiB page period at several page indices x every name length 1..4096 (complete for that domain), plus limit 0 (first record) for every header length the library can produce; oracle: start is the smallest 32-aligned offset >= limit whose record neither crosses a page nor reaches the page end, end = start + roundup(16+len,32). distinct = (limit mod page, name length) pairs"
	pages := []uint32{0, 1, 7}
	if verifrt.Thorough() {
		pages = []uint32{0, 1, 2, 3, 7, 100, 4000, 65535}
	}
	names := make([]string, verifref.MaxNameLen+1)
	buf := strings.Repeat("n", verifref.MaxNameLen)
	for l := 1; l <= verifref.MaxNameLen; l++ {
		names[l] = buf[:l]
	}
	bad := 0
	distinct := 0
	for hi, meta := range []string{"", "K: v\n", vfStackMeta(1), strings.Repeat("m", 500)} {
		hdr, err := mappedHeader(meta)
		if err != nil {
			t.Fatal(err)
		}
		m := &mappedFile{hdrLen: uint32(len(hdr))}
		tableEnd := m.hdrLen + 4 + 4*verifref.NumHash
		for _, pg := range pages {
			for lim := uint32(0); lim < verifref.PageSize; lim += 32 {
				limit := pg*verifref.PageSize + lim
				if limit != 0 && limit < tableEnd {
					continue
				}
				if hi > 0 && lim%1024 != 0 && limit != 0 { // other header lengths: sampled limits
					continue
				}
				for l := 1; l <= verifref.MaxNameLen; l++ {
					start, end := m.place(limit, names[l])
					res.Evaluations++
					eff := limit
					if eff == 0 {
						eff = tableEnd
					}
					n := (uint32(16+l) + 31) &^ 31
					want := (eff + 31) &^ 31
					if want/verifref.PageSize != (want+n)/verifref.PageSize {
						want = (eff + verifref.PageSize - 1) &^ (verifref.PageSize - 1)
					}
					if start != want || end != want+n {
						bad++
						res.Violate("place-mismatch", fmt.Sprintf("place(limit=%#x, len=%d) = (%#x,%#x), layout rules give (%#x,%#x)", limit, l, start, end, want, want+n),
							map[string]any{"limit": limit, "len": l, "hdrLen": m.hdrLen})
					}
					if hi == 0 {
						distinct++
					}
				}
			}
		}
	}
	res.DistinctN = distinct / len(pages)
	res.Extra["exhaustive_subdomain"] = "limit mod 16KiB in steps of 32 x name length 1..4096 at the listed page indices"
	res.Extra["page_indices"] = pages
	res.Sample(map[string]any{"limit": "0x4000*page + 32*k", "name_len": "1..4096", "pages": pages})
	if err := res.Write(); err != nil {
		t.Fatal(err)
	}
}

// c10Reverse: files written by the independent writer are read identically by
// the library and can be opened and extended by it.
func c10Reverse(t *testing.T) {
	const check = "C10.reverse"
	res := verifrt.NewResult(check)
	res.Rule = "files produced by the independent writer (all name shapes, 0..3000 records) are opened by the library: every name must be found with its value, a new counter can be added, and the result still satisfies the strict decoder. distinct = distinct files"
	dir := vfVtmp("c10r-")
	defer os.RemoveAll(dir)
	n := verifrt.Scale(150, 5000)
	for i := 0; i < n; i++ {
		if !verifrt.WantCase(check, i) {
			continue
		}
		rnd := verifrt.NewRand(verifrt.Seed(), fmt.Sprintf("%s/%d", check, i))
		data, meta, es := vfGenValidFile(rnd, verifrt.Pick(rnd, []int{3, 30, 300, 1500}))
		res.Eval()
		res.Distinct(verifrt.Hash(data))
		path := vfWriteTemp(dir, "r.v1.count", data)
		m, err := openMapped(path, meta)
		if err != nil {
			res.Violate("reverse-open", "library cannot open a file written by the independent writer: "+err.Error(), verifrt.CaseReplay(i, map[string]any{"input": vfSaveInput(res, "C10r", data)}))
			continue
		}
		ok := true
		for _, e := range es {
			v, _, _, lok := m.lookup(e.Name)
			if !lok || v == nil || v.Load() != e.Value {
				res.Violate("reverse-lookup", fmt.Sprintf("library lookup of %q in an independently written file: ok=%v found=%v", vfTrunc40(e.Name), lok, v != nil), verifrt.CaseReplay(i, map[string]any{"input": vfSaveInput(res, "C10r", data)}))
				ok = false
				break
			}
		}
		if ok {
			v, m1, err := m.newCounter("verif/new-counter")
			if err != nil {
				res.Violate("reverse-extend", "library cannot add a counter to an independently written file: "+err.Error(), verifrt.CaseReplay(i, nil))
			} else {
				v.Add(5)
				if m1 != nil {
					m.close()
					m = m1
				}
				d2, _ := os.ReadFile(path)
				cf, err := verifref.ParseCounterFile(d2)
				if err != nil {
					res.Violate("reverse-layout", "after the library added a record the file violates the layout: "+err.Error(), verifrt.CaseReplay(i, nil))
				} else {
					want := map[string]uint64{"verif/new-counter": 5}
					for _, e := range es {
						want[e.Name] = e.Value
					}
					if d := vfDiffCounts(cf.Counts(), want); d != "" {
						res.Violate("reverse-readback", d, verifrt.CaseReplay(i, nil))
					}
				}
			}
			res.HitN("records", len(es))
		}
		m.close()
		if i < 2 {
			res.Sample(map[string]any{"case": i, "records": len(es), "bytes": len(data)})
		}
	}
	if err := res.Write(); err != nil {
		t.Fatal(err)
	}
}

func vfTrunc40(s string) string {
	if len(s) > 40 {
		return s[:40] + "…"
	}
	return s
}

// c10LongChain: very many names in one hash bucket (a chain far longer than
// the number of records of a page), written by one handle, looked up and
// incremented by a second one, then read back.
func c10LongChain(r *verifrt.Result, rnd *verifrt.Rand, path string, i int) {
	k := []int{514, 600, 700, 1030}[(i/50)%4]
	names := vfCollidingNames(rnd, k, verifrt.Pick(rnd, []int{0, 0, 40}))
	if len(names) < k {
		r.Inconc("could not find enough colliding names")
		return
	}
	meta := vfGenMeta(rnd)
	rp := verifrt.CaseReplay(i, map[string]any{"chain": k})
	a, err := openMapped(path, meta)
	if err != nil {
		r.Violate("open-failed", "openMapped failed on a fresh file: "+err.Error(), rp)
		return
	}
	defer func() { a.close() }()
	model := map[string]uint64{}
	use := func(m **mappedFile, who string, nm string) bool {
		v, m1, err := (*m).newCounter(nm)
		if err != nil || v == nil {
			r.Violate("newCounter-failed:long-chain", fmt.Sprintf("%s: newCounter of name %d of %d in one bucket failed on a healthy file: %v", who, len(model), k, err), rp)
			return false
		}
		if m1 != nil {
			(*m).close()
			*m = m1
		}
		v.Add(1)
		model[nm]++
		return true
	}
	for _, nm := range names {
		if !use(&a, "writer", nm) {
			return
		}
	}
	b, err := openMapped(path, meta)
	if err != nil {
		r.Violate("reopen-failed", "openMapped failed on an existing valid file: "+err.Error(), rp)
		return
	}
	defer func() { b.close() }()
	// a process that opens the file later: the oldest records are at the far end of the chain
	for j := range names {
		if !use(&b, "second opener", names[(j*7)%len(names)]) {
			return
		}
	}
	extra := vfCollidingNames(rnd, k+3, 0)[k:]
	for _, nm := range extra {
		if _, dup := model[nm]; dup {
			continue
		}
		if !use(&b, "second opener (new name)", nm) {
			return
		}
	}
	data, err := os.ReadFile(path)
	if err != nil {
		r.Inconc("cannot read back: " + err.Error())
		return
	}
	cf, err := verifref.ParseCounterFile(data)
	if err != nil {
		r.Violate("layout:"+vfLayoutClass(err), fmt.Sprintf("a file with %d names in one bucket violates the v1 layout: %v", k, err), rp)
		return
	}
	if d := vfDiffCounts(cf.Counts(), model); d != "" {
		r.Violate("readback-mismatch", fmt.Sprintf("%d names in one bucket: independent decoder reads back something else than was written: %s", k, d), rp)
		return
	}
	if pf, perr := Parse(path, data); perr != nil {
		r.Violate("library-rejects-own-file", fmt.Sprintf("%d names in one bucket: the library's reader rejects the file: %v", k, perr), rp)
		return
	} else if len(pf.Count) != len(model) {
		r.Violate("library-reads-other-counts", fmt.Sprintf("%d names in one bucket: library reader sees %d counters, written %d", k, len(pf.Count), len(model)), rp)
		return
	}
	r.Hit(fmt.Sprintf("chain>=%d", k))
	r.Distinct(fmt.Sprintf("long-chain/%d/%d", k, i))
}
