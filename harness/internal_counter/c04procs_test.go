//go:build verif

package counter

import (
	"bufio"
	"encoding/json"
	"fmt"
	"os"
	"os/exec"
	"path/filepath"
	"strconv"
	"strings"
	"syscall"
	"testing"
	"time"

	"golang.org/x/sys/unix"
	"golang.org/x/telemetry/internal/verifref"
	"golang.org/x/telemetry/internal/verifrt"
)

// C04 (real processes): 4-12 OS processes (this test binary re-executed)
// hammer one counter file through mappedFile.newCounter + atomic add while the
// parent SIGKILLs some of them at random instants and keeps decoding the file
// with the strict reference decoder. Every operation is logged (call record
// before, return record with the value the atomic add returned after) with
// CLOCK_MONOTONIC timestamps; the histories are checked for linearizability
// against a fetch-and-add register per counter name by the driver (porcupine).

const c04Meta = "TimeBegin: 2024-03-04T00:00:00Z\nTimeEnd: 2024-03-06T00:00:00Z\nProgram: verif/procs\nVersion: v0.0.0\nGoVersion: go1.23\nGOOS: linux\nGOARCH: amd64\n\n"

func vfMonoNow() int64 {
	var ts unix.Timespec
	unix.ClockGettime(unix.CLOCK_MONOTONIC, &ts)
	return ts.Nano()
}

type vfProcOp struct {
	Proc int    `json:"proc"`
	Seq  int    `json:"seq"`
	Name string `json:"name"`
	N    uint64 `json:"n"`
	Call int64  `json:"call"`
	Ret  int64  `json:"ret"` // -1: no return record (process killed in flight)
	Out  uint64 `json:"out"`
	Err  string `json:"err,omitempty"`
}

func c04ProcNames(seed int64, round int) []string {
	r := verifrt.NewRand(seed, fmt.Sprintf("c04procs-names/%d", round))
	names := []string{"shared/a", "shared/b"}
	names = append(names, vfCollidingNames(r, 3, 0)...)
	for i := 0; i < 6; i++ {
		names = append(names, fmt.Sprintf("big/%d/", i)+strings.Repeat("B", 3000+r.Intn(1000)))
	}
	for i := 0; i < 10; i++ {
		names = append(names, fmt.Sprintf("n%d/%s", i, strings.Repeat("x", r.Intn(40))))
	}
	return names
}

// TestVerifC04ProcChild is the body of one worker process.
func TestVerifC04ProcChild(t *testing.T) {
	path := os.Getenv("VERIF_PROC_PATH")
	if path == "" {
		return
	}
	id, _ := strconv.Atoi(os.Getenv("VERIF_PROC_ID"))
	round, _ := strconv.Atoi(os.Getenv("VERIF_PROC_ROUND"))
	nops, _ := strconv.Atoi(os.Getenv("VERIF_PROC_OPS"))
	logf, err := os.OpenFile(os.Getenv("VERIF_PROC_LOG"), os.O_CREATE|os.O_WRONLY|os.O_APPEND, 0o644)
	if err != nil {
		os.Exit(3)
	}
	CrashOnBugs = true // a "counter bug" verdict on the healthy shared file ends the worker: process-died
	names := c04ProcNames(verifrt.Seed(), round)
	rnd := verifrt.NewRand(verifrt.Seed(), fmt.Sprintf("c04procs/%d/%d", round, id))
	m, err := openMapped(path, c04Meta)
	if err != nil {
		fmt.Fprintf(logf, `{"proc":%d,"seq":-1,"err":%q}`+"\n", id, "openMapped: "+err.Error())
		os.Exit(0)
	}
	ptrs := map[string]interface{ Add(uint64) uint64 }{}
	for seq := 0; seq < nops; seq++ {
		name := names[rnd.Intn(len(names))]
		if rnd.Intn(4) == 0 {
			name = names[rnd.Intn(2)] // hot names
		}
		n := uint64(1 + rnd.Intn(9))
		fmt.Fprintf(logf, `{"proc":%d,"seq":%d,"name":%q,"n":%d,"call":%d,"ret":-1}`+"\n", id, seq, name, n, vfMonoNow())
		v := ptrs[name]
		if v == nil || rnd.Intn(8) == 0 { // look the record up again now and then
			p, m1, err := m.newCounter(name)
			if err != nil {
				fmt.Fprintf(logf, `{"proc":%d,"seq":%d,"err":%q}`+"\n", id, seq, err.Error())
				continue
			}
			if m1 != nil {
				m.close()
				m = m1
				ptrs = map[string]interface{ Add(uint64) uint64 }{}
			}
			v = p
			ptrs[name] = v
		}
		out := v.Add(n)
		fmt.Fprintf(logf, `{"proc":%d,"seq":%d,"out":%d,"ret":%d}`+"\n", id, seq, out, vfMonoNow())
		if rnd.Intn(50) == 0 {
			time.Sleep(time.Duration(rnd.Intn(300)) * time.Microsecond)
		}
	}
	os.Exit(0)
}

// vfSnapshotShared copies a counter file that other processes are writing, in
// an order that keeps the copy consistent: hash table and records first, the
// header (with the allocation limit, which only grows) last. A record
// reachable in the copy was complete when it was linked, and the limit copied
// afterwards is at least the limit at that time.
func vfSnapshotShared(path string) []byte {
	// The mapping has the size the file had when it was mapped. If the
	// allocation limit copied last exceeds it, the file has grown since and
	// records reachable from the copied table may lie beyond the copy: map
	// again and redo the copy (the limit bounds everything linked earlier, so
	// limit <= len(copy) makes the copy self-contained).
	for try := 0; try < 8; try++ {
		out, ok := vfSnapshotSharedOnce(path)
		if ok {
			return out
		}
	}
	return nil // still growing: no sample this time
}

func vfSnapshotSharedOnce(path string) ([]byte, bool) {
	d, err := vfMapRO(path)
	if err != nil {
		return nil, true
	}
	defer syscall.Munmap(d)
	if len(d) < verifref.PageSize {
		return nil, true
	}
	out := make([]byte, len(d))
	hdrLen := int(uint32(d[28]) | uint32(d[29])<<8 | uint32(d[30])<<16 | uint32(d[31])<<24)
	if hdrLen < 32 || hdrLen > 1024 {
		copy(out, d)
		return out, true
	}
	copy(out[hdrLen+4:], d[hdrLen+4:])
	copy(out[:hdrLen+4], d[:hdrLen+4])
	limit := int(uint32(out[hdrLen]) | uint32(out[hdrLen+1])<<8 | uint32(out[hdrLen+2])<<16 | uint32(out[hdrLen+3])<<24)
	if limit > len(out) {
		return nil, false
	}
	return out, true
}

func TestVerifC04Procs(t *testing.T) {
	const check = "C04.procs"
	res := verifrt.NewResult(check)
	res.Rule = "rounds of 4-12 real OS processes x 3000-9000 operations (lookup-or-create through mappedFile.newCounter, then atomic add returning the new value) on one counter file with hot, bucket-colliding and page-filling names; the parent SIGKILLs up to half of them at random instants and decodes the file with the strict reference decoder in a loop meanwhile. Oracle: every sample is a well-formed file with monotone values; no child ends other than by our SIGKILL or exit 0; no operation returns an error; at the end each counter = sum of completed adds (+ any subset of the adds in flight when their process was killed); the recorded call/return histories are linearizable as fetch-and-add registers (checked offline with porcupine, nondeterministic steps for in-flight operations). distinct = rounds; all non-trivial"
	base := vfVtmp("c04p-")
	defer os.RemoveAll(base)
	rounds := verifrt.Scale(6, 200)
	for rd := 0; rd < rounds; rd++ {
		if !verifrt.WantCase(check, rd) {
			continue
		}
		rnd := verifrt.NewRand(verifrt.Seed(), fmt.Sprintf("%s/%d", check, rd))
		dir, _ := os.MkdirTemp(base, "r")
		path := filepath.Join(dir, "shared.v1.count")
		np := 4 + rnd.Intn(9)
		nops := 3000 + rnd.Intn(6000)
		rp := verifrt.CaseReplay(rd, map[string]any{"procs": np, "ops": nops})
		type child struct {
			cmd    *exec.Cmd
			log    string
			killed bool
			done   chan error
		}
		var kids []*child
		for k := 0; k < np; k++ {
			c := &child{log: filepath.Join(dir, fmt.Sprintf("proc%d.log", k)), done: make(chan error, 1)}
			c.cmd = exec.Command(os.Args[0], "-test.run=^TestVerifC04ProcChild$")
			c.cmd.Env = append(os.Environ(), "VERIF_PROC_PATH="+path, "VERIF_PROC_ID="+strconv.Itoa(k), "VERIF_PROC_ROUND="+strconv.Itoa(rd), "VERIF_PROC_OPS="+strconv.Itoa(nops), "VERIF_PROC_LOG="+c.log, "VERIF_BATCH=")
			kids = append(kids, c)
		}
		for _, c := range kids {
			c := c
			if err := c.cmd.Start(); err != nil {
				res.Inconc("cannot start child: " + err.Error())
				continue
			}
			go func() { c.done <- c.cmd.Wait() }()
		}
		// kill plan
		nkill := rnd.Intn(np/2 + 1)
		killAt := map[int]time.Duration{}
		for _, k := range rnd.Perm(np)[:nkill] {
			killAt[k] = time.Duration(8+rnd.Intn(30)) * time.Millisecond
		}
		start := time.Now()
		samples, badSample := 0, ""
		last := map[string]uint64{}
		running := np
		finished := make([]bool, np)
		for running > 0 {
			for k, c := range kids {
				if finished[k] {
					continue
				}
				select {
				case err := <-c.done:
					finished[k] = true
					running--
					if err != nil && !c.killed {
						res.Violate("process-died", fmt.Sprintf("worker %d ended with %v without being killed by the test", k, err), rp)
					}
				default:
					if d, ok := killAt[k]; ok && !c.killed && time.Since(start) >= d {
						c.cmd.Process.Signal(syscall.SIGKILL)
						c.killed = true
						res.Hit("sigkill")
					}
				}
			}
			if d := vfSnapshotShared(path); len(d) >= verifref.PageSize && badSample == "" {
				samples++
				cf, err := verifref.ParseCounterFile(d)
				if err != nil {
					badSample = err.Error()
				} else {
					for _, rec := range cf.Records {
						if rec.Value < last[rec.Name] {
							badSample = fmt.Sprintf("counter %q went from %d to %d", vfTrunc40(rec.Name), last[rec.Name], rec.Value)
						}
						last[rec.Name] = rec.Value
					}
				}
			}
			if time.Since(start) > 2*time.Minute {
				res.Inconc("round watchdog: workers still running after 2 minutes")
				for _, c := range kids {
					c.cmd.Process.Kill()
				}
				break
			}
		}
		res.Eval()
		res.Distinct(fmt.Sprint(rd))
		res.HitN("file-samples", samples)
		if badSample != "" {
			res.Violate("malformed-while-shared", "a sample of the shared file taken while the processes were running: "+badSample, rp)
		}
		// collect the logs
		var ops []*vfProcOp
		open := map[[2]int]*vfProcOp{}
		for k, c := range kids {
			f, err := os.Open(c.log)
			if err != nil {
				continue
			}
			sc := bufio.NewScanner(f)
			sc.Buffer(nil, 1<<20)
			for sc.Scan() {
				var o vfProcOp
				if json.Unmarshal(sc.Bytes(), &o) != nil {
					continue // a torn last line of a killed process
				}
				key := [2]int{k, o.Seq}
				switch {
				case o.Err != "":
					res.Violate("operation-failed", fmt.Sprintf("worker %d: operation on a healthy shared file failed: %s", k, o.Err), rp)
					delete(open, key)
				case o.Ret == -1:
					oc := o
					open[key] = &oc
					ops = append(ops, &oc)
				default:
					if p := open[key]; p != nil {
						p.Ret, p.Out = o.Ret, o.Out
					}
				}
			}
			f.Close()
		}
		// failed ops have a call record but never happened: drop them
		var hist []*vfProcOp
		done, inflight := map[string]uint64{}, map[string]uint64{}
		for _, o := range ops {
			if _, still := open[[2]int{o.Proc, o.Seq}]; !still {
				continue
			}
			hist = append(hist, o)
			if o.Ret >= 0 {
				done[o.Name] += o.N
			} else {
				inflight[o.Name] += o.N
				res.Hit("in-flight-at-kill")
			}
		}
		d, _ := os.ReadFile(path)
		cf, err := verifref.ParseCounterFile(d)
		if err != nil {
			res.Violate("malformed-at-end", "shared file after all workers ended: "+err.Error(), rp)
		} else {
			vals := cf.Counts()
			for n, dn := range done {
				if v := vals[n]; v < dn || v > dn+inflight[n] {
					res.Violate("end-state", fmt.Sprintf("counter %q = %d; completed adds sum to %d, adds in flight at a kill to %d", vfTrunc40(n), v, dn, inflight[n]), rp)
				}
			}
			res.HitN("records-at-end", len(cf.Records))
			if cf.Size > verifref.PageSize {
				res.Hit("file-grew")
			}
		}
		// hand the history to the offline linearizability checker
		hf, _ := os.Create(filepath.Join(verifrt.OutDir(), fmt.Sprintf("C04.procs.history.%d.jsonl", rd)))
		enc := json.NewEncoder(hf)
		for _, o := range hist {
			enc.Encode(o)
		}
		hf.Close()
		res.HitN("operations-logged", len(hist))
		if rd < 2 {
			res.Sample(map[string]any{"round": rd, "processes": np, "killed": nkill, "operations": len(hist), "file_samples": samples})
		}
		os.RemoveAll(dir)
	}
	res.Require("sigkill", "file-grew", "file-samples")
	if err := res.Write(); err != nil {
		t.Fatal(err)
	}
}
