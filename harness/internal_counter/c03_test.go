//go:build verif

package counter

import (
	"encoding/binary"
	"fmt"
	"math/bits"
	"os"
	"path/filepath"
	"strings"
	"syscall"
	"testing"
	"time"

	"golang.org/x/telemetry/internal/mmap"
	"golang.org/x/telemetry/internal/telemetry"
	"golang.org/x/telemetry/internal/verifref"
	"golang.org/x/telemetry/internal/verifrt"
)

// C03: concurrent increments are counted exactly once and never crash.
//
// Virtual threads run the real Add/rotate1/lookup code under the token-passing
// scheduler; a monitor evaluates the conservation invariant at every
// scheduling point from its own read-only view of the counter files.

type c03op struct {
	Kind string `json:"k"` // add | open | rotate | grow | read
	Ctr  int    `json:"c,omitempty"`
	N    uint64 `json:"n,omitempty"`
}

type c03prog struct {
	Name     string    `json:"name"`
	PreOpen  bool      `json:"preopen"`  // file opened before the schedule starts
	PreFill  int       `json:"prefill"`  // big records written before the schedule starts (so that growth is near)
	PreTouch []int     `json:"pretouch"` // counters incremented once before the schedule (they hold a pointer)
	NCtr     int       `json:"nctr"`
	Threads  [][]c03op `json:"threads"`
	Sat      bool      `json:"sat"`
	// MaxName: the last counter's name has exactly the largest length a record can hold
	MaxName bool `json:"maxname,omitempty"`
	// LongNames: every counter name is padded to this length (so that a few
	// hundred of them need several pages)
	LongNames int `json:"longnames,omitempty"`
	// ForeignGrow: before the schedule starts another process (a second file
	// value on the same counter file) adds this many page-filling counters, so
	// that the file is longer than this process's mapping of it
	ForeignGrow int `json:"foreigngrow,omitempty"`
}

type vfMonFile struct {
	path string
	data []byte
	offs map[string]uint32
	last map[string]uint64
}

type c03env struct {
	res *verifrt.Result
	dir string
	f   *file
	// foreign: another process's view of the same counter file
	foreign *file
	// rotations: rotate operations of the program that have returned
	rotations int
	now       time.Time
	q         *verifrt.Quarantine
	ctrs      []*Counter
	names     []string
	// begun is a 128-bit sum per counter (hi, lo)
	begunHi, begunLo []uint64
	mon              map[string]*vfMonFile
	lastCur          *mappedFile
	sched            *verifrt.Sched
	viol             string // first violation message of this schedule
	violSig          string
	unmapStep        map[string]int
	growN            int
	swaps            int
	// cause classification (see DESIGN.md, findings F1 and F11): which
	// counters had a reader/lock holder, or were only half registered, while a
	// mapping swap (store of the new mapping .. unmap of the old one) was in progress
	window        map[int]bool // thread ids with a swap in progress
	heldSwap      map[int]bool
	halfSwap      map[int]bool
	curThread     int
	opStartUnmaps map[int]int // per thread: regions already unmapped when its current operation began
	inRead        map[int]bool
}

var c03CounterNow time.Time

func newC03env(res *verifrt.Result, base string) *c03env {
	e := &c03env{res: res, q: &verifrt.Quarantine{}, mon: map[string]*vfMonFile{}, unmapStep: map[string]int{},
		opStartUnmaps: map[int]int{}, inRead: map[int]bool{}, window: map[int]bool{}, heldSwap: map[int]bool{}, halfSwap: map[int]bool{}}
	e.dir, _ = os.MkdirTemp(base, "t")
	telemetry.Default = telemetry.NewDir(e.dir)
	os.MkdirAll(telemetry.Default.LocalDir(), 0o777)
	os.WriteFile(filepath.Join(telemetry.Default.LocalDir(), "weekends"), []byte("3\n"), 0o666)
	e.now = time.Date(2024, 3, 4, 10, 0, 0, 0, time.UTC) // a Monday
	CounterTime = func() time.Time { return e.now }
	e.f = &file{}
	vfTrapExit()
	munmap = func(d *mmap.Data) error {
		step := 0
		if e.sched != nil {
			step = e.sched.Steps
		}
		label := fmt.Sprintf("unmap@%d", step)
		return e.q.Unmap(d.Data, label)
	}
	return e
}

func (e *c03env) close() {
	if m := e.f.current.Load(); m != nil {
		m.close()
	}
	if e.foreign != nil {
		if m := e.foreign.current.Load(); m != nil {
			m.close()
		}
	}
	e.q.Release()
	for _, m := range e.mon {
		if m.data != nil {
			syscall.Munmap(m.data)
		}
	}
	munmap = mmap.Munmap
	os.RemoveAll(e.dir)
}

func (e *c03env) addCounter(name string) int {
	c := &Counter{name: name, file: e.f}
	e.ctrs = append(e.ctrs, c)
	e.names = append(e.names, name)
	e.begunHi = append(e.begunHi, 0)
	e.begunLo = append(e.begunLo, 0)
	return len(e.ctrs) - 1
}

func (e *c03env) begin(i int, n uint64) {
	var c uint64
	e.begunLo[i], c = bits.Add64(e.begunLo[i], n, 0)
	e.begunHi[i] += c
}

// refreshMon re-lists the local dir and (re)maps files whose size changed.
func (e *c03env) refreshMon() {
	ents, _ := os.ReadDir(telemetry.Default.LocalDir())
	for _, en := range ents {
		if !strings.HasSuffix(en.Name(), ".count") {
			continue
		}
		p := filepath.Join(telemetry.Default.LocalDir(), en.Name())
		m := e.mon[p]
		if m == nil {
			m = &vfMonFile{path: p, offs: map[string]uint32{}, last: map[string]uint64{}}
			e.mon[p] = m
		}
		fi, err := os.Stat(p)
		if err != nil {
			continue
		}
		if int(fi.Size()) != len(m.data) && fi.Size() > 0 {
			if m.data != nil {
				syscall.Munmap(m.data)
				m.data = nil
			}
			f, err := os.Open(p)
			if err != nil {
				continue
			}
			d, err := syscall.Mmap(int(f.Fd()), 0, int(fi.Size()), syscall.PROT_READ, syscall.MAP_SHARED)
			f.Close()
			if err == nil {
				m.data = d
			}
		}
	}
}

// persisted returns the sum over all files of the counter's cell (hi, lo) and
// checks per-cell monotonicity.
func (e *c03env) persisted(i int) (hi, lo uint64) {
	name := e.names[i]
	for _, m := range e.mon {
		if m.data == nil {
			continue
		}
		off, ok := m.offs[name]
		if !ok {
			off = verifref.FindRecord(m.data, name)
			if off == 0 {
				continue
			}
			m.offs[name] = off
		}
		v := binary.LittleEndian.Uint64(m.data[off:])
		if v < m.last[name] {
			e.violate("cell-decreased", fmt.Sprintf("counter %q in %s went from %d to %d", vfTrunc40(name), filepath.Base(m.path), m.last[name], v))
		}
		m.last[name] = v
		var c uint64
		lo, c = bits.Add64(lo, v, 0)
		hi += c
	}
	return
}

func (e *c03env) violate(sig, msg string) {
	if e.viol == "" {
		e.viol = msg
		e.violSig = sig
	}
}

func (e *c03env) linked(c *Counter) bool {
	head := e.f.counters.Load()
	for x, n := head, 0; x != nil && x != &e.f.end && n < 100000; x, n = x.next.Load(), n+1 {
		if x == c {
			return true
		}
	}
	return false
}

// cause names the known hazard, if any, that counter i was exposed to.
func (e *c03env) cause(i int) string {
	var cs []string
	if e.heldSwap[i] {
		cs = append(cs, "held-across-swap")
	}
	if e.halfSwap[i] {
		cs = append(cs, "register-race")
	}
	if len(cs) == 0 {
		return "none"
	}
	return strings.Join(cs, "+")
}

func (e *c03env) causeAny() string {
	h, r := false, false
	for i := range e.ctrs {
		h = h || e.heldSwap[i]
		r = r || e.halfSwap[i]
	}
	var cs []string
	if h {
		cs = append(cs, "held-across-swap")
	}
	if r {
		cs = append(cs, "register-race")
	}
	if len(cs) == 0 {
		return "none"
	}
	return strings.Join(cs, "+")
}

// opEnd is called by a harness thread when one of its operations returned.
func (e *c03env) opEnd(tid int) { delete(e.window, tid) }

// check is the online monitor, run with the token held at every step.
func (e *c03env) check(final bool) {
	cur := e.f.current.Load()
	if cur != e.lastCur && !final {
		e.window[e.curThread] = true
	}
	if len(e.window) > 0 {
		for i, c := range e.ctrs {
			st := counterStateBits(c.state.bits.Load())
			if st.readers() > 0 {
				e.heldSwap[i] = true
			}
			if c.next.Load() != nil && !e.halfSwap[i] && !e.linked(c) {
				e.halfSwap[i] = true
				e.res.Hit("half-registered-during-swap")
			}
		}
	}
	if cur != e.lastCur || final {
		if cur != e.lastCur {
			e.swaps++
			// classify what the swap overlapped with
			for _, c := range e.ctrs {
				st := counterStateBits(c.state.bits.Load())
				if st.locked() {
					e.res.Hit("swap-while-lock-held")
				} else if st.readers() > 0 {
					e.res.Hit("swap-while-reader-held")
				}
				if st.extra() > 0 {
					e.res.Hit("swap-with-pending-extra")
				}
			}
		}
		e.lastCur = cur
		e.refreshMon()
	}
	for i, c := range e.ctrs {
		st := counterStateBits(c.state.bits.Load())
		x := st.extra()
		phi, plo := e.persisted(i)
		lo, carry := bits.Add64(plo, x, 0)
		hi := phi + carry
		if hi > e.begunHi[i] || (hi == e.begunHi[i] && lo > e.begunLo[i]) {
			e.violate("overcount", fmt.Sprintf("counter %q: persisted %d (hi %d) + pending %d exceeds increments begun %d (hi %d)", vfTrunc40(e.names[i]), plo, phi, x, e.begunLo[i], e.begunHi[i]))
		}
		if final {
			if st.readers() != 0 {
				e.violate("state-not-released", fmt.Sprintf("counter %q: state word %#x still has readers/lock after all calls returned", vfTrunc40(e.names[i]), uint64(st)))
			}
			if e.begunHi[i] == 0 && e.begunLo[i] < 1<<33-1 { // below every saturation limit
				if hi != 0 || lo != e.begunLo[i] {
					e.violate("lost-increment:"+e.cause(i), fmt.Sprintf("counter %q: after quiescence persisted %d + pending %d != increments %d", vfTrunc40(e.names[i]), plo, x, e.begunLo[i]))
				} else if cur != nil && x != 0 && e.f.err == nil {
					e.violate("unpersisted-after-quiescence:"+e.cause(i), fmt.Sprintf("counter %q: file is open and all calls returned but %d remain only in memory", vfTrunc40(e.names[i]), x))
				}
			} else if hi == 0 && lo < 1<<33-1 {
				// no-wrap clause: every single step either adds its full amount or leaves the
				// pending field at 2^33-1 / the cell at 2^64-1, so once the increments have
				// reached the pending limit the total can never be below it again
				e.violate("wrapped:"+e.cause(i), fmt.Sprintf("counter %q: increments begun sum to %d (hi %d), at or beyond the pending limit 2^33-1, but after quiescence persisted %d + pending %d is below that limit: an amount wrapped instead of sticking", vfTrunc40(e.names[i]), e.begunLo[i], e.begunHi[i], plo, x))
			}
		}
	}
}

// ---- programs

func vfBigName(i int) string {
	return fmt.Sprintf("grow/%d/", i) + strings.Repeat("g", 3900)
}

func c03CorePrograms() []c03prog {
	add := func(c int) c03op { return c03op{Kind: "add", Ctr: c, N: 1} }
	return []c03prog{
		{Name: "add-vs-grow", PreOpen: true, PreFill: 3, PreTouch: []int{0}, NCtr: 1, Threads: [][]c03op{{add(0)}, {{Kind: "grow"}}}},
		{Name: "add-vs-rotate", PreOpen: true, PreTouch: []int{0}, NCtr: 1, Threads: [][]c03op{{add(0)}, {{Kind: "rotate"}}}},
		{Name: "add-vs-open", NCtr: 1, Threads: [][]c03op{{add(0)}, {{Kind: "open"}}}},
		{Name: "2add-vs-open", NCtr: 1, Threads: [][]c03op{{add(0), add(0)}, {{Kind: "open"}}, {add(0)}}},
		{Name: "fresh-add-vs-grow", PreOpen: true, PreFill: 3, NCtr: 1, Threads: [][]c03op{{add(0)}, {{Kind: "grow"}}}},
		{Name: "2add-vs-grow", PreOpen: true, PreFill: 3, PreTouch: []int{0}, NCtr: 1, Threads: [][]c03op{{add(0)}, {add(0)}, {{Kind: "grow"}}}},
		{Name: "add-vs-grow-vs-rotate", PreOpen: true, PreFill: 3, PreTouch: []int{0}, NCtr: 2, Threads: [][]c03op{{add(0), add(1)}, {{Kind: "grow"}}, {{Kind: "rotate"}}}},
		{Name: "pending-then-open-vs-add", NCtr: 2, PreTouch: []int{0, 1}, Threads: [][]c03op{{{Kind: "open"}}, {add(0), add(1)}, {add(1), add(0)}}},
		{Name: "grow-vs-grow", PreOpen: true, PreFill: 3, NCtr: 1, PreTouch: []int{0}, Threads: [][]c03op{{{Kind: "grow"}, add(0)}, {{Kind: "grow"}, add(0)}}},
		// counters still hold pending increments (the first open is walking them) while another thread's Adds fill the first page and re-map
		{Name: "pending-open-vs-grow", NCtr: 2, PreTouch: []int{0, 1}, Threads: [][]c03op{{{Kind: "open"}}, {{Kind: "grow"}, {Kind: "grow"}, {Kind: "grow"}, {Kind: "grow"}, add(1)}}},
		// another process has grown the file: the first new name re-maps it while increments of known counters go on
		{Name: "add-vs-remap-after-foreign-growth", PreOpen: true, PreTouch: []int{0}, NCtr: 2, ForeignGrow: 5, Threads: [][]c03op{{add(0), add(0)}, {add(1)}}},
		{Name: "read-vs-add", PreOpen: true, NCtr: 1, PreTouch: []int{0}, Threads: [][]c03op{{{Kind: "read"}}, {add(0), add(0)}}},
		// a rotation that fails while a first increment of a counter is looking its record up
		{Name: "fresh-add-vs-failed-rotate", PreOpen: true, NCtr: 2, PreTouch: []int{1}, Threads: [][]c03op{{add(0), add(1)}, {{Kind: "rotate-fail"}}, {add(1)}}},
	}
}

func c03RandomProgram(r *verifrt.Rand) c03prog {
	p := c03prog{Name: "random", NCtr: 1 + r.Intn(3)}
	p.PreOpen = r.Intn(3) != 0
	if p.PreOpen {
		p.PreFill = verifrt.Pick(r, []int{0, 2, 3, 3})
	}
	for c := 0; c < p.NCtr; c++ {
		if r.Bool() {
			p.PreTouch = append(p.PreTouch, c)
		}
	}
	p.Sat = r.Intn(8) == 0
	p.MaxName = r.Intn(6) == 0
	nt := 2 + r.Intn(4)
	special := false
	for t := 0; t < nt; t++ {
		var ops []c03op
		for k, n := 0, 1+r.Intn(3); k < n; k++ {
			switch x := r.Intn(10); {
			case x < 6:
				amt := uint64(verifrt.Pick(r, []int{1, 1, 2, 1000}))
				if p.Sat {
					amt = verifrt.Pick(r, []uint64{1<<33 - 2, 1 << 33, 1 << 40, 1<<63 - 1, 1 << 62, 3})
				}
				ops = append(ops, c03op{Kind: "add", Ctr: r.Intn(p.NCtr), N: amt})
			case x == 6 && !p.PreOpen:
				ops = append(ops, c03op{Kind: "open"})
				special = true
			case x == 7 && p.PreOpen:
				ops = append(ops, c03op{Kind: "rotate"})
				special = true
			case x == 8:
				ops = append(ops, c03op{Kind: "grow"})
				special = true
			case x == 9:
				ops = append(ops, c03op{Kind: "read", Ctr: r.Intn(p.NCtr)})
			default:
				ops = append(ops, c03op{Kind: "add", Ctr: r.Intn(p.NCtr), N: 1})
			}
		}
		p.Threads = append(p.Threads, ops)
	}
	if !special {
		k := "grow"
		if !p.PreOpen {
			k = "open"
		}
		p.Threads[0] = append(p.Threads[0], c03op{Kind: k})
	}
	return p
}

type c03strategy struct {
	Kind   string          `json:"kind"`
	Phases []verifrt.Phase `json:"phases,omitempty"`
	D      int             `json:"d,omitempty"`
}

// runC03 executes one program under one strategy and returns the trace.
func runC03(res *verifrt.Result, base string, p c03prog, st c03strategy, rnd *verifrt.Rand) (e *c03env, s *verifrt.Sched) {
	e = newC03env(res, base)
	for c := 0; c < p.NCtr; c++ {
		if p.MaxName && c == p.NCtr-1 {
			n := fmt.Sprintf("verif/max%d/", c)
			e.addCounter(n + strings.Repeat("m", maxNameLen-len(n)))
			res.Hit("counter-with-longest-name")
			continue
		}
		if p.ForeignGrow > 0 && c == p.NCtr-1 {
			// the last counter shares its bucket with the last record the other
			// process adds (beyond this process's mapping): its lookup has to re-map
			want := hash(vfBigName(5000+p.ForeignGrow-1)) % numHash
			for n := 0; ; n++ {
				nm := fmt.Sprintf("verif/coll%d", n)
				if hash(nm)%numHash == want {
					e.addCounter(nm)
					break
				}
			}
			continue
		}
		if p.LongNames > 0 {
			n := fmt.Sprintf("verif/long%d/", c)
			e.addCounter(n + strings.Repeat("l", p.LongNames-len(n)))
			continue
		}
		e.addCounter(fmt.Sprintf("verif/c%d", c))
	}
	// sequential prologue (no scheduler active)
	for _, c := range p.PreTouch {
		if p.PreOpen {
			continue
		}
		e.begin(c, 1)
		e.ctrs[c].Add(1) // pending in memory: no file yet
	}
	if p.PreOpen {
		e.f.rotate1()
		for i := 0; i < p.PreFill; i++ {
			j := e.addCounter(vfBigName(e.growN))
			e.growN++
			e.begin(j, 1)
			e.ctrs[j].Add(1)
		}
		for _, c := range p.PreTouch {
			e.begin(c, 1)
			e.ctrs[c].Add(1)
		}
	}
	if p.PreOpen && p.ForeignGrow > 0 {
		fb := &file{}
		fb.rotate1()
		for g := 0; g < p.ForeignGrow; g++ {
			(&Counter{name: vfBigName(5000 + g), file: fb}).Add(1)
		}
		e.foreign = fb
		res.Hit("file-grown-by-another-process")
	}
	e.lastCur = e.f.current.Load()
	e.refreshMon()
	s = verifrt.NewSched(rnd)
	s.MaxSteps = 60000
	e.sched = s
	for ti, ops := range p.Threads {
		ops := ops
		ti := ti
		s.Go(fmt.Sprintf("T%d", ti), func() {
			for _, op := range ops {
				e.opEnd(ti)
				e.opStartUnmaps[ti] = e.q.Count()
				switch op.Kind {
				case "add":
					e.begin(op.Ctr, op.N)
					e.ctrs[op.Ctr].Add(int64(op.N))
				case "open":
					e.f.rotate1()
				case "rotate":
					e.now = e.now.Add(8 * 24 * time.Hour)
					e.f.rotate1()
					e.rotations++
				case "rotate-fail":
					// the week is over, but the next file cannot be opened (full disk,
					// no memory for the mapping): the rotation gives up; increments that
					// overlap it return normally and stay in memory
					e.now = e.now.Add(8 * 24 * time.Hour)
					verifrt.SetPlan(&verifrt.Plan{NoLog: true, Faults: []*verifrt.Fault{{Op: "OpenFile", Nth: -1, Errno: syscall.ENOSPC}, {Op: "Mmap", Nth: -1, Errno: syscall.ENOMEM}}})
					e.f.rotate1()
					verifrt.SetPlan(nil)
				case "grow":
					j := e.addCounter(vfBigName(e.growN))
					e.growN++
					e.begin(j, 1)
					e.ctrs[j].Add(1)
				case "read":
					// Read is the test-support reader (countertest.ReadCounter); the
					// property quantifies over Add/Inc with open, growth and rotation, so
					// a Read overlapping a rotation is only background load here: what
					// happens inside it (it may meet a mapping that is being closed) is
					// not judged, its effect on the counters is
					e.inRead[ti] = true
					v, err := func() (v uint64, err error) {
						defer func() {
							if r := recover(); r != nil {
								res.Hit("read-op-panic-not-judged")
								err = fmt.Errorf("%v", r)
							}
							e.inRead[ti] = false
						}()
						return Read(e.ctrs[op.Ctr])
					}()
					if err == nil && e.begunHi[op.Ctr] == 0 && v > e.begunLo[op.Ctr] {
						e.violate("read-overcount", fmt.Sprintf("Read returned %d > increments begun %d", v, e.begunLo[op.Ctr]))
					}
				}
			}
		})
	}
	s.OnStep = func(s *verifrt.Sched, t *verifrt.Thread) {
		e.curThread = t.ID
		if t.Done {
			e.opEnd(t.ID)
		}
		e.check(false)
	}
	var then func(*verifrt.Sched, []*verifrt.Thread) *verifrt.Thread
	switch st.Kind {
	case "pct":
		then = verifrt.ChoosePCT(rnd, st.D, 300)
	case "sticky":
		then = verifrt.ChooseSticky(7, 8)
	default:
		then = verifrt.ChooseRandom
	}
	if len(st.Phases) > 0 {
		s.Choose = verifrt.ChoosePhases(st.Phases, then)
	} else {
		s.Choose = then
	}
	_, replaying := verifrt.Replaying()
	s.KeepPts = replaying
	s.Run(20 * time.Second)
	if replaying {
		for i, id := range s.PtTrace {
			fmt.Printf("step %3d: %-40s -> next T%d\n", i+1, s.PtNames[id], s.Trace[i+1])
		}
		for _, c := range e.ctrs {
			fmt.Printf("counter %.20q state %#x ptr.count=%v\n", c.name, c.state.bits.Load(), c.ptr.count != nil)
		}
		fmt.Printf("file err=%v current=%v\n", e.f.err, e.f.current.Load() != nil)
	}
	return e, s
}

func c03Judge(r *verifrt.Result, check string, i int, p c03prog, st c03strategy, e *c03env, s *verifrt.Sched) {
	replay := verifrt.CaseReplay(i, map[string]any{"program": p, "strategy": st, "steps": s.Steps})
	if s.Stuck != "" {
		r.Inconc("schedule stuck (real blocking): " + s.Stuck)
		return
	}
	for _, t := range s.Threads {
		if t.Panic != nil {
			sig := "panic:" + vfTopFrame(t.Stack)
			msg := fmt.Sprintf("thread %s panicked in program %s: %v\n%.1500s", t.Name, p.Name, t.Panic, t.Stack)
			if ep, ok := t.Panic.(verifrt.ExitPanic); ok {
				sig = fmt.Sprintf("exit-%d:counter-bug-on-healthy-file:%s", ep.Code, vfExitFrame(t.Stack))
			} else if addr, ok := verifrt.FaultAddr(t.Panic); ok {
				if idx, label, ok := e.q.FindIndex(addr); ok {
					timing, cause := "overlapping-call", e.causeAny()
					if len(p.Threads) == 1 {
						// the known hazards need a second goroutine
						cause = "single-goroutine"
					}
					if idx < e.opStartUnmaps[t.ID] {
						// the mapping was already gone when this call began
						timing = "call-after-unmap"
						if strings.Contains(cause, "register-race") {
							cause = "register-race"
						} else {
							cause = "none"
						}
					}
					sig = "stale-mapping-access:" + vfTopFrame(t.Stack) + ":" + timing + ":" + cause
					msg = fmt.Sprintf("thread %s accessed address %#x inside a counter-file mapping that had been unmapped (%s) — in production this is a SIGSEGV or a write into unrelated memory. program %s\n%.1500s", t.Name, addr, label, p.Name, t.Stack)
				} else {
					sig = "fault:" + vfTopFrame(t.Stack)
				}
			}
			r.Violate(sig, msg, replay)
			return
		}
	}
	if s.Overrun {
		alone := 0
		for _, t := range s.Threads {
			if !t.Done {
				alone++
			}
		}
		if alone == 1 {
			r.Violate("no-progress", fmt.Sprintf("a call did not return within %d scheduling steps although every other thread had finished (program %s)", s.MaxSteps, p.Name), replay)
		} else {
			r.Inconc(fmt.Sprintf("step budget exceeded with %d threads still running (program %s)", alone, p.Name))
		}
		return
	}
	e.check(true)
	if e.viol != "" {
		r.Violate(e.violSig, e.viol+" (program "+p.Name+")", replay)
	}
}

func TestVerifC03(t *testing.T) {
	const check = "C03.sched"
	res := verifrt.NewResult(check)
	res.Rule = "programs of 2-6 virtual threads (Add on shared/distinct counters, first open, growth/remap, rotation, Read) run on the real code under a token-passing scheduler with a scheduling point at every atomic operation, lock acquisition and fs call; strategies: targeted parking (thread parked at its k-th point while another runs to completion, all k, single and double parks), PCT, sticky and uniform random. Oracle at every step: persisted (summed over the process's files, read through the monitor's own mapping) + pending <= begun, cells monotone; at quiescence equality, nothing pending when a file is open, state word released; unmapped mappings are quarantined (PROT_NONE) so stale accesses fault. distinct = distinct (program, schedule trace) hashes; non-trivial = >= 2 threads interleaved (trace switches threads at least twice)"
	nb := 16
	total := verifrt.Scale(4000, 160000)
	per := (total + nb - 1) / nb
	core := c03CorePrograms()
	verifrt.RunBatches("TestVerifC03", res, nb, 0, 40*time.Minute, "c03.death", func(b int, r *verifrt.Result, cur *verifrt.Current) {
		base := vfVtmp("c03-")
		defer os.RemoveAll(base)
		points := map[string]bool{}
		lo, hi := verifrt.CaseRange(check, b, per)
		for i := lo; i < hi; i++ {
			k := i - lo
			rnd := verifrt.NewRand(verifrt.Seed(), fmt.Sprintf("%s/%d", check, i))
			var p c03prog
			var st c03strategy
			switch {
			case i%40 == 1:
				// relay: a reader A is stopped around its add, a third thread swaps the
				// mapping (growth or rotation), A goes on for d more steps (taking the
				// lock, marking the pointer valid, ...), a second adder B then meets the
				// counter in that state and runs to completion, A finishes. Systematic
				// in (program, who is A, where A stops, d).
				j := i / 40
				add := func(c int) c03op { return c03op{Kind: "add", Ctr: c, N: 1} }
				p = c03prog{Name: "relay-grow", PreOpen: true, PreFill: 3, PreTouch: []int{0}, NCtr: 1, Threads: [][]c03op{{add(0)}, {add(0)}, {{Kind: "grow"}}}}
				if j%2 == 1 {
					p = c03prog{Name: "relay-rotate", PreOpen: true, PreTouch: []int{0}, NCtr: 1, Threads: [][]c03op{{add(0)}, {add(0)}, {{Kind: "rotate"}}}}
				}
				j /= 2
				a, bth := j%2, 1-j%2
				j /= 2
				plusA, d := j%3, 1+(j/3)%4
				st = c03strategy{Kind: "relay", Phases: []verifrt.Phase{
					{Thread: a, AtPt: "Counter.add:1:CompareAndSwap", Plus: plusA},
					{Thread: 2, Until: -1},
					{Thread: a, AtPt: "counterState.update:0:CompareAndSwap", Plus: d},
					{Thread: bth, Until: -1},
					{Thread: a, Until: -1}}}
			case i%40 == 3:
				// one goroutine only: many counters were incremented before the first
				// open, so that flushing them extends the file more than once while
				// the open is still walking the counters (an extension nested in the
				// clean-up of another)
				j := i / 40
				p = c03prog{Name: "many-pending-then-open", NCtr: 150 + 10*(j%12), LongNames: 150 + 50*((j/12)%4), Threads: [][]c03op{{{Kind: "open"}}}}
				// ... and goes on counting afterwards (counters flushed early, in the middle and last)
				for _, c := range []int{0, 1, p.NCtr / 3, p.NCtr / 2, p.NCtr - 2, p.NCtr - 1} {
					p.Threads[0] = append(p.Threads[0], c03op{Kind: "add", Ctr: c, N: 1})
				}
				for c := 0; c < p.NCtr; c++ {
					p.PreTouch = append(p.PreTouch, c)
				}
				st = c03strategy{Kind: "random"}
			case i%2 == 0: // targeted on core programs: systematic in (program, victim, k)
				j := i / 2
				p = core[j%len(core)]
				j /= len(core)
				victim := j % len(p.Threads)
				j /= len(p.Threads)
				k1 := 1 + j%70
				st = c03strategy{Kind: "park"}
				st.Phases = append(st.Phases, verifrt.Phase{Thread: victim, Until: k1})
				if j/70%2 == 1 { // double park: a second thread advanced part-way
					o := (victim + 1) % len(p.Threads)
					st.Phases = append(st.Phases, verifrt.Phase{Thread: o, Until: 1 + rnd.Intn(120)})
					st.Phases = append(st.Phases, verifrt.Phase{Thread: victim, Until: -1})
				}
				for _, o := range rnd.Perm(len(p.Threads)) {
					if o != victim {
						st.Phases = append(st.Phases, verifrt.Phase{Thread: o, Until: -1})
					}
				}
			default:
				if rnd.Intn(3) == 0 {
					p = core[rnd.Intn(len(core))]
				} else {
					p = c03RandomProgram(rnd)
				}
				switch rnd.Intn(4) {
				case 0:
					st = c03strategy{Kind: "random"}
				case 1:
					st = c03strategy{Kind: "sticky"}
				case 2:
					st = c03strategy{Kind: "pct", D: 1 + rnd.Intn(3)}
				default:
					st = c03strategy{Kind: "park", Phases: []verifrt.Phase{{Thread: rnd.Intn(len(p.Threads)), Until: 1 + rnd.Intn(80)}}}
				}
			}
			cur.Set(fmt.Sprintf("case %d program %s strategy %+v", i, p.Name, st))
			e, s := runC03(r, base, p, st, rnd)
			s.KeepPts = false
			r.Eval()
			r.Hit("strategy:" + st.Kind)
			r.Hit("program:" + p.Name)
			switches := 0
			for j := 1; j < len(s.Trace); j++ {
				if s.Trace[j] != s.Trace[j-1] {
					switches++
				}
			}
			if switches >= 2 {
				r.Distinct(p.Name + fmt.Sprint(p.Threads) + string(s.Trace))
			}
			for _, t := range s.Threads {
				points[t.Pt] = true
			}
			if p.Sat {
				r.Hit("saturating-program")
			}
			if e.swaps > 0 {
				r.Hit("mapping-swapped")
			}
			if p.Name == "many-pending-then-open" && e.swaps >= 3 {
				r.Hit("nested-extension")
			}
			c03Judge(r, check, i, p, st, e, s)
			if k < 2 && b == 0 {
				r.Sample(map[string]any{"case": i, "program": p, "strategy": st, "steps": s.Steps, "mapping_swaps": e.swaps, "trace_head": fmt.Sprint(s.Trace[:min(len(s.Trace), 60)])})
			}
			e.close()
		}
	})
	res.Require("counter-with-longest-name", "file-grown-by-another-process", "program:many-pending-then-open", "nested-extension", "swap-while-reader-held", "swap-while-lock-held", "swap-with-pending-extra", "mapping-swapped", "saturating-program", "strategy:park", "strategy:pct", "strategy:random")
	if err := res.Write(); err != nil {
		t.Fatal(err)
	}
}
