//go:build verif

package counter

import (
	"fmt"
	"os"
	"regexp"
	"runtime"
	"strings"
	"sync"
	"testing"
	"time"

	chaindeep "golang.org/x/telemetry/internal/verifgen/deep/er/path.with.dots/chain"
	chainv2 "golang.org/x/telemetry/internal/verifgen/ex.ample-pkg/v2"
	chainplain "golang.org/x/telemetry/internal/verifgen/plain"
	chainyaml "golang.org/x/telemetry/internal/verifgen/yaml.v3"
	"golang.org/x/telemetry/internal/verifref"
	"golang.org/x/telemetry/internal/verifrt"
)

// C15: stack counter names identify call stacks faithfully and within bounds.

var c15Callees = func() []func(func()) {
	var cs []func(func())
	cs = append(cs, chainv2.Callees()...)
	cs = append(cs, chaindeep.Callees()...)
	cs = append(cs, chainplain.Callees()...)
	cs = append(cs, chainyaml.Callees()...)
	cs = append(cs, func(next func()) { next() }, c15Local, c15T{}.m)
	// frames of another package inlined between frames of this one (and
	// between frames of a third): package X real, package Y inlined, package X real
	cs = append(cs, c15ViaInlinedV2, c15ViaInlinedDeep, c15ViaInlinedGeneric, c15ViaTwoInlined)
	return cs
}()

//go:noinline
func c15ViaInlinedV2(next func()) { chainv2.Inlinable(func() { c15Local(next) }) }

//go:noinline
func c15ViaInlinedDeep(next func()) { chaindeep.Inlinable(next) }

//go:noinline
func c15ViaInlinedGeneric(next func()) {
	chainplain.InlinableGeneric(next, func(f func()) { c15T{}.m(f) })
}

//go:noinline
func c15ViaTwoInlined(next func()) {
	chainv2.Inlinable(func() { chaindeep.Inlinable(func() { c15Local(next) }) })
}

//go:noinline
func c15Local(next func()) { next() }

type c15T struct{}

//go:noinline
func (c15T) m(next func()) { next() }

// c15Run executes the byte-coded program: prog[i] selects the i-th callee.
// A run of equal bytes repeats one package, alternating bytes alternate packages.
//
//go:noinline
func c15Run(prog []byte, i int, leaf func()) {
	if i == len(prog) {
		leaf()
		return
	}
	c15Callees[int(prog[i])%len(c15Callees)](func() { c15Run(prog, i+1, leaf) })
}

// c15Location renders a frame's location as documented for stack counter
// names, from the frame alone.
func c15Location(fr runtime.Frame) string {
	if fr.Func != nil {
		_, entryLine := runtime.FuncForPC(fr.Entry).FileLine(fr.Entry)
		return fmt.Sprintf(":%+d,+0x%x", fr.Line-entryLine, fr.PC-fr.Entry)
	}
	return fmt.Sprintf(":=%d,+0x%x", fr.Line, fr.PC-fr.Entry)
}

var c15LocRE = regexp.MustCompile(`^:[+=-]\d+,\+0x[0-9a-f]+$`)

// c15Render is the uncompressed rendering of the frames of pcs: the full
// symbol name of every frame; the location suffix is taken from the decoded
// line after checking its shape.
func c15Frames(pcs []uintptr) []runtime.Frame {
	var out []runtime.Frame
	frs := runtime.CallersFrames(pcs)
	for {
		fr, more := frs.Next()
		out = append(out, fr)
		if !more {
			break
		}
	}
	return out
}

func c15Program(r *verifrt.Rand) []byte {
	n := verifrt.Pick(r, []int{0, 1, 2, 3, 5, 8, 13, 30, 60, 100})
	p := make([]byte, n)
	switch r.Intn(5) {
	case 4: // deep recursion through callees with multi-byte names: truncation inside a character
		n = verifrt.Pick(r, []int{60, 100, 140})
		p = make([]byte, n)
		perPkg := len(c15Callees) / 3 // (the three generated packages come first, same table each)
		idx := []int{17, 18, 19}
		for i := range p {
			p[i] = byte(idx[r.Intn(len(idx))] + perPkg*0)
		}
		if r.Bool() {
			b := byte(17 + 20*r.Intn(3))
			for i := range p {
				p[i] = b
			}
		}
	case 0: // one callee repeated
		b := byte(r.Intn(256))
		for i := range p {
			p[i] = b
		}
	case 1: // two alternating
		a, b := byte(r.Intn(256)), byte(r.Intn(256))
		for i := range p {
			if i%2 == 0 {
				p[i] = a
			} else {
				p[i] = b
			}
		}
	default:
		copy(p, r.Bytes(n))
	}
	return p
}

func TestVerifC15(t *testing.T) {
	if verifrt.WantCheck("C15.stacks") {
		c15Stacks(t)
	}
	if verifrt.WantCheck("C15.decode") {
		c15Decode(t)
	}
	if verifrt.WantCheck("C15.shared") {
		c15Shared(t)
	}
}

// c15Shared: one StackCounter incremented from many call stacks of different
// depths, in turn: every stack keeps hitting its own counter.
func c15Shared(t *testing.T) {
	const check = "C15.shared"
	res := verifrt.NewResult(check)
	res.Rule = "one StackCounter (depth 4..40) incremented 3 times, in rotating order, from each of 12-40 call programs whose stacks are shorter than, equal to and longer than the counter's depth (the harness records the same stack with runtime.Callers). Oracle: the counter holds exactly one entry per distinct recorded stack (the innermost depth frames), each with the value 3 x the number of programs recording that stack, and never two entries for one stack. distinct = (case, stack) pairs; non-trivial = cases with stacks on both sides of the depth"
	n := verifrt.Scale(300, 12000)
	for i := 0; i < n; i++ {
		if !verifrt.WantCase(check, i) {
			continue
		}
		rnd := verifrt.NewRand(verifrt.Seed(), fmt.Sprintf("%s/%d", check, i))
		depth := verifrt.Pick(rnd, []int{4, 8, 12, 16, 24, 40})
		k := 12 + rnd.Intn(29)
		progs := make([][]byte, k)
		for j := range progs {
			// (short programs: with the harness's own frames their stacks lie around the depth)
			progs[j] = rnd.Bytes(rnd.Intn(2 * depth))
		}
		sc := &StackCounter{name: "shared/" + fmt.Sprint(i), depth: depth, file: &file{}}
		want := map[string]uint64{}
		shorter, longer := false, false
		var cur string
		leaf := func() {
			p := make([]uintptr, depth+8)
			m := runtime.Callers(1, p) // this closure is the caller of Inc
			if m > depth {
				m = depth
				longer = true
			} else if m < depth {
				shorter = true
			}
			cur = fmt.Sprint(p[1:m])
			sc.Inc()
		}
		replay := verifrt.CaseReplay(i, map[string]any{"depth": depth, "programs": k})
		pv, stack := vfGuarded(func() {
			for rep := 0; rep < 3; rep++ {
				for j := range progs {
					c15Run(progs[(j+rep*7)%k], 0, leaf)
					want[cur]++
				}
			}
		})
		res.Eval()
		if pv != nil {
			res.Violate("inc-panic:"+vfTopFrame(stack), fmt.Sprintf("StackCounter.Inc panicked: %v\n%.1000s", pv, stack), replay)
			continue
		}
		got := map[string]uint64{}
		dup := false
		for _, st := range sc.stacks {
			key := "[]"
			if len(st.pcs) > 0 {
				key = fmt.Sprint(st.pcs[1:])
			}
			if _, ok := got[key]; ok {
				dup = true
			}
			got[key] += counterStateBits(st.counter.state.bits.Load()).extra()
		}
		if shorter && longer {
			res.Hit("stacks-on-both-sides-of-the-depth")
		}
		for key := range want {
			if shorter && longer {
				res.Distinct(fmt.Sprintf("%d/%s", i, key))
			}
		}
		switch {
		case dup:
			res.Violate("same-stack-two-counters", fmt.Sprintf("depth %d, %d programs: the stack counter holds two entries for one recorded stack", depth, k), replay)
		case len(got) != len(want):
			res.Violate("same-stack-other-counter", fmt.Sprintf("depth %d, %d programs recording %d distinct stacks, each incremented 3 times in turn: the stack counter holds %d entries", depth, k, len(want), len(got)), replay)
		default:
			for key, v := range want {
				if got[key] != v {
					res.Violate("same-stack-other-counter", fmt.Sprintf("depth %d: a stack incremented %d times has a counter of %d", depth, v, got[key]), replay)
					break
				}
			}
		}
		if i < 2 {
			res.Sample(map[string]any{"case": i, "depth": depth, "programs": k, "distinct_stacks": len(want)})
		}
	}
	res.Require("stacks-on-both-sides-of-the-depth")
	if err := res.Write(); err != nil {
		t.Fatal(err)
	}
}

func c15Stacks(t *testing.T) {
	const check = "C15.stacks"
	res := verifrt.NewResult(check)
	res.Rule = "byte-coded call programs over 64 callees of three generated packages (import paths with dots, dashes, /v2 element, deep path) and the harness package: plain functions, value/pointer methods, generic functions and generic-type methods, closures, nested closures, functions of another package inlined between frames of this one, non-ASCII identifiers (so that truncation can fall inside a character); depth 0..100 plus the harness frames, stack-counter depth 1..250, counter-name prefix length 1..60 (so that truncation cuts at every alignment), and counter names of 3990..9000 bytes fed to the encoder directly. For each: two Incs from the same stack hit one counter; stacks that differ in any frame's (symbol, file, line, offset) have different names when untruncated; len <= 4096; truncation marker => uncompressed rendering > 4096, no marker => every frame has a line; every decoded line = full symbol name of that frame + well-formed location; the file decoder returns the expanded names. distinct = distinct PC slices; non-trivial = >= 3 frames"
	dir := c09SetDir()
	defer os.RemoveAll(dir)
	now := time.Date(2024, 5, 6, 7, 0, 0, 0, time.UTC)
	CounterTime = func() time.Time { return now }
	n := verifrt.Scale(3000, 200000)
	seenNames := map[string]string{} // name -> pcs key
	for i := 0; i < n; i++ {
		if !verifrt.WantCase(check, i) {
			continue
		}
		rnd := verifrt.NewRand(verifrt.Seed(), fmt.Sprintf("%s/%d", check, i))
		prog := c15Program(rnd)
		depth := verifrt.Pick(rnd, []int{1, 2, 3, 8, 16, 40, 120, 250})
		prefix := "stk/" + strings.Repeat("p", rnd.Intn(57))
		useFile := i%10 == 0
		f := &file{}
		if useFile {
			f.rotate1()
		}
		sc := &StackCounter{name: prefix, depth: depth, file: f}
		replay := verifrt.CaseReplay(i, map[string]any{"prog": fmt.Sprint(prog), "depth": depth, "prefix_len": len(prefix)})
		var pcs []uintptr
		leaf := func() {
			p := make([]uintptr, depth)
			k := runtime.Callers(1, p) // this closure is the caller of Inc
			pcs = p[:k]
			sc.Inc()
		}
		// The PC of the Inc call inside leaf differs from the PC Callers(1) records
		// for leaf itself, so take the PCs from the StackCounter's own cache below.
		pv, stack := vfGuarded(func() {
			for rep := 0; rep < 2; rep++ {
				c15Run(prog, 0, leaf)
			}
		})
		res.Eval()
		if pv != nil {
			res.Violate("inc-panic:"+vfTopFrame(stack), fmt.Sprintf("StackCounter.Inc panicked: %v\n%.1000s", pv, stack), replay)
			continue
		}
		names := sc.Names()
		if len(names) != 1 {
			res.Violate("same-stack-two-counters", fmt.Sprintf("two Incs from the same call stack produced %d counters", len(names)), replay)
			continue
		}
		name := names[0]
		ctr := sc.Counters()[0]
		if useFile {
			m, err := ReadStack(sc)
			if err != nil || len(m) != 1 || m[DecodeStack(name)] != 2 {
				res.Violate("readstack", fmt.Sprintf("ReadStack = %v, %v; want {decoded name: 2}", m, err), replay)
			}
			cur := f.current.Load()
			curName := cur.f.Name()
			data, _ := os.ReadFile(curName)
			pf, err := Parse("x", data)
			if err != nil || pf.Count[DecodeStack(name)] != 2 {
				res.Violate("file-decoder-name", fmt.Sprintf("Parse does not return the expanded name with value 2 (err %v)", err), replay)
			}
			res.Hit("via-file")
			cur.close()
			os.Remove(curName)
		} else if v := counterStateBits(ctr.state.bits.Load()).extra(); v != 2 {
			res.Violate("same-stack-value", fmt.Sprintf("counter value %d after two Incs", v), replay)
		}
		spcs := sc.stacks[0].pcs
		if len(spcs) != len(pcs) {
			res.Violate("stack-depth", fmt.Sprintf("a depth-%d stack counter recorded %d program counters where runtime.Callers returns %d for the same call stack and depth", depth, len(spcs), len(pcs)), replay)
		}
		if len(pcs) > 32 {
			res.Hit("stack-deeper-than-32")
		}
		frames := c15Frames(spcs)
		if len(frames) >= 3 {
			res.Distinct(fmt.Sprint(spcs))
		}
		// Stack identity for the distinctness oracle: what the runtime can tell
		// apart when symbolising (function, file, line, offset in function).
		// Raw PCs are finer than that: two instantiations of one generic function
		// have different PCs but identical symbol names ("F[...]"), lines and offsets.
		var kb strings.Builder
		for _, fr := range frames {
			fmt.Fprintf(&kb, "%s|%s|%d|%x;", fr.Function, fr.File, fr.Line, fr.PC-fr.Entry)
			if fr.Func == nil && strings.Contains(fr.Function, "verifgen") {
				res.Hit("inlined-frame-of-another-package")
			}
			if strings.Contains(fr.Function, "Юникод") || strings.Contains(fr.Function, "Метод") {
				res.Hit("non-ascii-symbol")
			}
		}
		key := kb.String()
		if i%10 == 0 {
			// counter names (the text before the frames) close to and beyond the
			// size limit themselves: the bound holds all the same
			for _, pl := range []int{3990, 4080, 4084, 4085, 4086, 4090, 4095, 4096, 4097, 4200, 9000} {
				en := EncodeStack(spcs, strings.Repeat("q", pl))
				if len(en) > maxNameLen {
					res.Violate("name-too-long", fmt.Sprintf("encoded name has %d bytes (limit %d) for a counter name of %d bytes and %d frames", len(en), maxNameLen, pl, len(frames)), replay)
					break
				}
				if pl+1 > maxNameLen && !strings.HasSuffix(en, "\ntruncated\n") {
					res.Violate("truncation-unmarked", fmt.Sprintf("counter name of %d bytes: encoded name of %d bytes carries no truncation marker", pl, len(en)), replay)
					break
				}
				res.Hit("counter-name-near-limit")
			}
		}
		// bounds and truncation
		if len(name) > maxNameLen {
			res.Violate("name-too-long", fmt.Sprintf("encoded name has %d bytes (limit %d), %d frames", len(name), maxNameLen, len(frames)), replay)
		}
		truncated := strings.HasSuffix(name, "\ntruncated\n")
		decoded := DecodeStack(name)
		dl := strings.Split(decoded, "\n")
		if dl[0] != prefix {
			res.Violate("prefix-lost", fmt.Sprintf("first line %q, counter name %q", dl[0], prefix), replay)
		}
		uncompressed := len(prefix)
		for _, fr := range frames {
			uncompressed += 1 + len(fr.Function) + 12
		}
		if truncated {
			res.Hit("truncated")
			res.Hit(fmt.Sprintf("truncated-len-mod8=%d", (len(prefix))%8))
			if uncompressed <= maxNameLen {
				res.Violate("truncated-needlessly", fmt.Sprintf("name carries the truncation marker but the uncompressed rendering has only about %d bytes", uncompressed), replay)
			}
			dl = dl[:len(dl)-2] // marker and trailing empty line
			if len(dl) > 1 {
				dl = dl[:len(dl)-1] // the last frame line may be cut anywhere
			}
		} else {
			res.Hit("untruncated")
			if len(dl)-1 != len(frames) {
				res.Violate("frames-missing", fmt.Sprintf("untruncated name has %d frame lines for %d frames", len(dl)-1, len(frames)), replay)
				continue
			}
			if prev, ok := seenNames[name]; ok && prev != key {
				res.Violate("different-stacks-same-name", fmt.Sprintf("two different PC slices produced the same untruncated name %q:\n%s\n%s", name, prev, key), replay)
			}
			seenNames[name] = key
		}
		// faithful expansion: each decoded line is the frame's full symbol + location
		ok := true
		for j := 1; j < len(dl) && ok; j++ {
			fr := frames[j-1]
			line := dl[j]
			if !strings.HasPrefix(line, fr.Function) || !c15LocRE.MatchString(line[len(fr.Function):]) {
				res.Violate("expansion-mismatch", fmt.Sprintf("frame %d: decoded line %q, frame symbol %q (encoded line %q)", j-1, line, fr.Function, strings.Split(name, "\n")[j]), replay)
				ok = false
			} else if want := c15Location(fr); line[len(fr.Function):] != want {
				// the documented location: line relative to the function's first line
				// (':+N') for a physical frame, absolute (':=N') for an inlined one, and
				// the pc relative to the enclosing function's entry
				res.Violate("location-mismatch", fmt.Sprintf("frame %d (%s): location %q, the frame itself says %q", j-1, fr.Function, line[len(fr.Function):], want), replay)
				ok = false
			}
			if strings.Contains(fr.Function, "[") {
				res.Hit("generic-frame")
			}
		}
		if strings.Contains(name, "\n\".") {
			res.Hit("ditto-used")
		}
		if i < 2 {
			res.Sample(map[string]any{"case": i, "prog": fmt.Sprint(prog), "depth": depth, "frames": len(frames), "name_bytes": len(name), "name_head": vfTrunc40(strings.ReplaceAll(name, "\n", "⏎"))})
		}
	}
	res.Require("counter-name-near-limit", "inlined-frame-of-another-package", "non-ascii-symbol", "truncated", "untruncated", "generic-frame", "ditto-used", "via-file", "stack-deeper-than-32")
	if err := res.Write(); err != nil {
		t.Fatal(err)
	}
}

func c15Decode(t *testing.T) {
	const check = "C15.decode"
	res := verifrt.NewResult(check)
	res.Rule = "DecodeStack / IsStackCounter on generated strings (random bytes, ditto-heavy, no dots, only dots, newline runs, up to 1MB): returns within the loop-tick budget without panic; identity when there is no newline; equal to an independent implementation of the expansion rule otherwise; IsStackCounter <=> contains newline; decoding is idempotent on its own output when no line starts with a bare ditto. distinct = distinct inputs"
	n := verifrt.Scale(20000, 1000000)
	alphabet := []string{"\n", "\"", ".", "a", "b/c", "x.y", "\".f", ":+1", "\n\".", "..", "\n\n", "é", "\x00"}
	for i := 0; i < n; i++ {
		if !verifrt.WantCase(check, i) {
			continue
		}
		rnd := verifrt.NewRand(verifrt.Seed(), fmt.Sprintf("%s/%d", check, i))
		var s string
		switch i % 5 {
		case 0:
			s = string(rnd.Bytes(rnd.Intn(200)))
		case 1:
			var b strings.Builder
			for k, m := 0, rnd.Intn(60); k < m; k++ {
				b.WriteString(alphabet[rnd.Intn(len(alphabet))])
			}
			s = b.String()
		case 2:
			s = strings.Repeat(alphabet[rnd.Intn(len(alphabet))], rnd.Intn(3000))
		case 3:
			s = "name\n" + strings.Repeat("\".f:+1,+0x1\n", rnd.Intn(400))
		default:
			s = strings.ReplaceAll(string(rnd.Bytes(rnd.Intn(100))), "\n", "n")
		}
		if i%5000 == 4999 {
			s = strings.Repeat("p/q.F:+1\n\".G:+2\n", 60000) // ~1MB
		}
		res.Eval()
		res.Distinct(s)
		var out string
		verifrt.SetTickBudget(int64(len(s))*4 + 100000)
		pv, stack := vfGuarded(func() { out = DecodeStack(s) })
		over := verifrt.TickExceeded()
		verifrt.SetTickBudget(0)
		replay := verifrt.CaseReplay(i, map[string]any{"input": fmt.Sprintf("%.200q", s)})
		if over {
			res.Violate("decode-loop", "DecodeStack exceeded the loop-tick budget", replay)
			continue
		}
		if pv != nil {
			res.Violate("decode-panic:"+vfTopFrame(stack), fmt.Sprintf("DecodeStack panicked: %v", pv), replay)
			continue
		}
		hasNL := strings.Contains(s, "\n")
		if IsStackCounter(s) != hasNL {
			res.Violate("isstack", fmt.Sprintf("IsStackCounter(%.60q) = %v", s, !hasNL), replay)
		}
		if !hasNL {
			res.Hit("no-newline")
			if out != s {
				res.Violate("decode-not-identity", fmt.Sprintf("DecodeStack changed an ordinary counter name %.60q -> %.60q", s, out), replay)
			}
		} else {
			res.Hit("with-newline")
			if strings.Count(out, "\n") != strings.Count(s, "\n") {
				res.Violate("decode-line-count", fmt.Sprintf("DecodeStack changed the number of lines of %.60q", s), replay)
			}
			// the documented rule, from an independent implementation: a line whose
			// import path is a bare ditto mark takes the path of the nearest line
			// above it (the name line excluded) that has one
			if want := verifref.ExpandStack(s); out != want {
				res.Violate("decode-differs-from-rule", fmt.Sprintf("DecodeStack(%.80q) = %.80q, the expansion rule gives %.80q", s, out, want), replay)
			}
		}
	}
	res.Sample(map[string]any{"alphabet": alphabet})
	res.Require("no-newline", "with-newline")
	if err := res.Write(); err != nil {
		t.Fatal(err)
	}
}

// TestVerifC15Race: concurrent Inc from many goroutines (the per-PC-slice
// cache) keeps the one-counter and sum properties; run with -race.
func TestVerifC15Race(t *testing.T) {
	const check = "C15.race"
	res := verifrt.NewResult(check)
	res.Rule = "free-running: G goroutines x R rounds Inc one StackCounter from K distinct call programs under the race detector; oracle: exactly K counters, each value = number of Incs from that program; any race report involving the package is a violation (counted by the driver). distinct = (G,K,round) configurations"
	if os.Getenv("VERIF_SELFTEST_RACE") != "" {
		// self-test of the monitor: a deliberate data race in the package under
		// test's address space must be reported by the driver
		var x int
		var wg sync.WaitGroup
		for g := 0; g < 2; g++ {
			wg.Add(1)
			go func() { defer wg.Done(); x++ }()
		}
		wg.Wait()
		_ = x
	}
	rounds := verifrt.Scale(40, 400)
	for i := 0; i < rounds; i++ {
		rnd := verifrt.NewRand(verifrt.Seed(), fmt.Sprintf("%s/%d", check, i))
		G := 2 + rnd.Intn(15)
		K := 1 + rnd.Intn(5)
		progs := make([][]byte, K)
		for k := range progs {
			progs[k] = append([]byte{byte(k)}, c15Program(rnd)...)
			if len(progs[k]) > 20 {
				progs[k] = progs[k][:20]
			}
		}
		sc := &StackCounter{name: "race", depth: 16, file: &file{}}
		var wg sync.WaitGroup
		per := 20
		for g := 0; g < G; g++ {
			wg.Add(1)
			go func(g int) {
				defer wg.Done()
				for j := 0; j < per; j++ {
					c15Run(progs[(g+j)%K], 0, func() { sc.Inc() })
				}
			}(g)
		}
		wg.Wait()
		res.Eval()
		res.Distinct(fmt.Sprintf("%d/%d/%d", G, K, i))
		total := uint64(0)
		for _, c := range sc.Counters() {
			total += counterStateBits(c.state.bits.Load()).extra()
		}
		// programs may coincide in their first `depth` frames; at most K counters
		if len(sc.Names()) > K || total != uint64(G*per) {
			res.Violate("race-count", fmt.Sprintf("G=%d K=%d: %d counters, total %d (want <=%d counters, total %d)", G, K, len(sc.Names()), total, K, G*per), verifrt.CaseReplay(i, nil))
		}
	}
	res.Sample(map[string]any{"rounds": rounds})
	if err := res.Write(); err != nil {
		t.Fatal(err)
	}
}
