//go:build verif

package counter

import (
	"encoding/binary"
	"fmt"
	"os"
	"strings"
	"testing"
	"time"

	"golang.org/x/telemetry/internal/verifref"
	"golang.org/x/telemetry/internal/verifrt"
)

// C09 (rotation clause under concurrency): whatever first uses of counters,
// growth and an earlier rotation overlapped, once a rotation to the next week
// has completed every increment of every counter lands in the new week's file
// and nowhere else.
//
// The schedules are the C03 machinery's (token-passing scheduler over the
// instrumented package). What happens inside the schedule is C03's subject; a
// schedule in which an overlapping increment meets the known C03 hazards (a
// fault while the mapping is swapped) is not judged here. Judged is the
// sequential epilogue: rotate, then increment every counter once.
func TestVerifC09Sched(t *testing.T) {
	const check = "C09.sched"
	res := verifrt.NewResult(check)
	res.Rule = "programs of 2-3 virtual threads (first increments of distinct counters, increments of known counters, growth, a rotation) run under the token-passing scheduler (victim parked at its k-th scheduling point for all k, then PCT/random); when all calls have returned the clock is moved past the recorded end, the file is rotated and every counter is incremented once more, sequentially. Oracle for that epilogue: each increment raises the counter's cell in the new week's file by exactly one, changes no cell of any other file and touches no unmapped (expired) mapping. distinct = (program, trace) hashes; non-trivial = trace switches threads at least twice"
	base := vfVtmp("c09s-")
	defer os.RemoveAll(base)
	add := func(c int) c03op { return c03op{Kind: "add", Ctr: c, N: 1} }
	progs := []c03prog{
		{Name: "fresh-add-vs-rotate", PreOpen: true, NCtr: 1, Threads: [][]c03op{{add(0), add(0)}, {{Kind: "rotate"}}}},
		{Name: "two-first-uses", PreOpen: true, NCtr: 2, Threads: [][]c03op{{add(0)}, {add(1)}}},
		{Name: "two-first-uses-vs-rotate", PreOpen: true, NCtr: 2, Threads: [][]c03op{{add(0)}, {add(1)}, {{Kind: "rotate"}}}},
		{Name: "first-use-vs-grow", PreOpen: true, PreFill: 3, NCtr: 2, Threads: [][]c03op{{add(0)}, {{Kind: "grow"}}, {add(1)}}},
		{Name: "known-add-vs-rotate", PreOpen: true, PreTouch: []int{0}, NCtr: 1, Threads: [][]c03op{{add(0)}, {{Kind: "rotate"}}}},
		{Name: "fresh-adds-of-two-counters-vs-rotate", PreOpen: true, NCtr: 2, Threads: [][]c03op{{add(0), add(1), add(0)}, {{Kind: "rotate"}}}},
		{Name: "fresh-add-after-known-add-vs-rotate", PreOpen: true, PreTouch: []int{0}, NCtr: 2, Threads: [][]c03op{{add(0), add(1), add(1)}, {{Kind: "rotate"}}}},
		{Name: "three-first-uses", PreOpen: true, NCtr: 3, Threads: [][]c03op{{add(0)}, {add(1)}, {add(2)}}},
	}
	n := verifrt.Scale(1200, 48000)
	for i := 0; i < n; i++ {
		if !verifrt.WantCase(check, i) {
			continue
		}
		rnd := verifrt.NewRand(verifrt.Seed(), fmt.Sprintf("%s/%d", check, i))
		p := progs[i%len(progs)]
		j := i / len(progs)
		var st c03strategy
		if j%3 != 2 {
			victim := j % len(p.Threads)
			k := 1 + (j/len(p.Threads))%60
			st = c03strategy{Kind: "park", Phases: []verifrt.Phase{{Thread: victim, Until: k}}}
			if j%3 == 1 {
				o := (victim + 1) % len(p.Threads)
				st.Phases = append(st.Phases, verifrt.Phase{Thread: o, Until: 1 + rnd.Intn(80)}, verifrt.Phase{Thread: victim, Until: -1})
			}
			for _, o := range rnd.Perm(len(p.Threads)) {
				if o != victim {
					st.Phases = append(st.Phases, verifrt.Phase{Thread: o, Until: -1})
				}
			}
		} else {
			st = []c03strategy{{Kind: "random"}, {Kind: "pct", D: 1 + rnd.Intn(3)}, {Kind: "sticky"}}[rnd.Intn(3)]
		}
		e, s := runC03(res, base, p, st, rnd)
		res.Eval()
		res.Hit("program:" + p.Name)
		switches := 0
		for q := 1; q < len(s.Trace); q++ {
			if s.Trace[q] != s.Trace[q-1] {
				switches++
			}
		}
		if switches >= 2 {
			res.Distinct(p.Name + string(s.Trace))
		}
		replay := verifrt.CaseReplay(i, map[string]any{"program": p, "strategy": st})
		skip := s.Stuck != "" || s.Overrun
		late := false
		for _, th := range s.Threads {
			if th.Panic == nil {
				continue
			}
			skip = true
			// an increment that BEGAN after the rotation had unmapped the expired
			// file, on a counter that was fully registered, is no overlap hazard:
			// it is an increment after the rotation that did not go to the new file
			if addr, ok := verifrt.FaultAddr(th.Panic); ok && e.rotations > 0 {
				if idx, label, ok := e.q.FindIndex(addr); ok && idx < e.opStartUnmaps[th.ID] && !strings.Contains(e.causeAny(), "register-race") {
					res.Violate("increment-after-rotation-into-expired-mapping", fmt.Sprintf("an increment that began after the rotation had completed wrote through a pointer into a mapping of the expired file (%s, address %#x) (program %s)\n%.1200s", label, addr, p.Name, th.Stack), replay)
					late = true
				}
			}
		}
		if late {
			e.close()
			continue
		}
		if skip {
			// (C03's subject: a call of the schedule itself failed)
			res.Hit("schedule-not-clean:not-judged")
			e.close()
			continue
		}
		c09Epilogue(res, e, p, replay)
		if i < 2 {
			res.Sample(map[string]any{"case": i, "program": p.Name, "strategy": st.Kind, "steps": s.Steps})
		}
		e.close()
	}
	res.Require("epilogue-judged", "program:two-first-uses", "program:fresh-add-vs-rotate", "rotation-during-schedule")
	if err := res.Write(); err != nil {
		t.Fatal(err)
	}
}

func c09CellsByFile(e *c03env, name string) map[string]uint64 {
	out := map[string]uint64{}
	for p, m := range e.mon {
		if m.data == nil {
			continue
		}
		if off := verifref.FindRecord(m.data, name); off != 0 && int(off)+8 <= len(m.data) {
			out[p] = binary.LittleEndian.Uint64(m.data[off:])
		}
	}
	return out
}

func c09Epilogue(res *verifrt.Result, e *c03env, p c03prog, replay map[string]any) {
	if e.swaps > 0 {
		res.Hit("rotation-during-schedule")
	}
	e.sched = nil
	var before, after []map[string]uint64
	pv, stack := vfGuarded(func() {
		e.now = e.now.Add(8 * 24 * time.Hour)
		e.f.rotate1()
		e.refreshMon()
		for i := range e.ctrs {
			before = append(before, c09CellsByFile(e, e.names[i]))
			e.ctrs[i].Add(1)
			e.refreshMon()
			after = append(after, c09CellsByFile(e, e.names[i]))
		}
	})
	if pv != nil {
		sig := "epilogue-panic:" + vfTopFrame(stack)
		msg := fmt.Sprintf("after all calls had returned and the file was rotated to the next week, an increment panicked: %v (program %s)\n%.1200s", pv, p.Name, stack)
		if addr, ok := verifrt.FaultAddr(pv); ok {
			if _, label, ok := e.q.FindIndex(addr); ok {
				sig = "increment-after-rotation-into-expired-mapping"
				msg = fmt.Sprintf("after all calls had returned and the file was rotated to the next week, an increment wrote through a pointer into a mapping of an expired file (%s, address %#x): in production the count lands in the old week's file or the process faults (program %s)\n%.1200s", label, addr, p.Name, stack)
			}
		}
		res.Violate(sig, msg, replay)
		return
	}
	cur := e.f.current.Load()
	if cur == nil || e.f.err != nil {
		res.Inconc(fmt.Sprintf("epilogue: no file open after the rotation (%v)", e.f.err))
		return
	}
	newPath := cur.f.Name()
	for i := range e.ctrs {
		for path, v := range after[i] {
			was := before[i][path]
			switch {
			case path == newPath && v != was+1:
				res.Violate("increment-after-rotation-not-in-new-file", fmt.Sprintf("counter %q: after the rotation one increment changed its cell in the new week's file from %d to %d (program %s)", vfTrunc40(e.names[i]), was, v, p.Name), replay)
				return
			case path != newPath && v != was:
				res.Violate("increment-landed-in-expired-file", fmt.Sprintf("counter %q: after the rotation an increment changed its cell in %s (not the current file) from %d to %d (program %s)", vfTrunc40(e.names[i]), path, was, v, p.Name), replay)
				return
			}
		}
		if _, ok := after[i][newPath]; !ok {
			res.Violate("increment-after-rotation-not-in-new-file", fmt.Sprintf("counter %q: after the rotation and one increment the new week's file has no record of it (program %s)", vfTrunc40(e.names[i]), p.Name), replay)
			return
		}
	}
	res.Hit("epilogue-judged")
}
