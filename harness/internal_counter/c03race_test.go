//go:build verif

package counter

import (
	"fmt"
	"os"
	"path/filepath"
	"runtime/debug"
	"strings"
	"sync"
	"sync/atomic"
	"testing"
	"time"

	"golang.org/x/telemetry/internal/mmap"
	"golang.org/x/telemetry/internal/telemetry"
	"golang.org/x/telemetry/internal/verifref"
	"golang.org/x/telemetry/internal/verifrt"
)

// C03 (free-running): the same workload on real goroutines under the race
// detector, with randomised Gosched/sleeps at the instrumented points. What a
// cooperative scheduler cannot express - true simultaneity and memory-model
// races - is what this pass is for; its oracle is coarse (conservation at
// quiescence, no panic/fault, race reports).

func TestVerifC03Race(t *testing.T) {
	const check = "C03.race"
	res := verifrt.NewResult(check)
	res.Rule = "rounds of 8-48 real goroutines (race-detector build, Gosched/sleep jitter at every instrumented point): adders on 1-4 shared counters, a first open, growers (4 KB names => remaps), rotators (clock moved 8 days) run at once; unmapped regions are quarantined (PROT_NONE) and every worker runs with SetPanicOnFault. Oracle: no panic/fault; at quiescence persisted (sum over files, reference reader) + pending == increments, and nothing pending for counters while a file is open; the driver counts data-race reports. distinct = rounds; non-trivial = round had >= 1 mapping swap"
	base := vfVtmp("c03r-")
	defer os.RemoveAll(base)
	rounds := verifrt.Scale(25, 400)
	verifrt.SetJitter(0.25)
	defer verifrt.SetJitter(0)
	verifrt.SetLockSpinLimit(2_000_000) // holders keep f.mu for micro- to milliseconds: <= ~1e3 attempts
	defer verifrt.SetLockSpinLimit(0)
	stuckRounds := 0
	for rd := 0; rd < rounds; rd++ {
		if !verifrt.WantCase(check, rd) {
			continue
		}
		rnd := verifrt.NewRand(verifrt.Seed(), fmt.Sprintf("%s/%d", check, rd))
		dir, _ := os.MkdirTemp(base, "r")
		telemetry.Default = telemetry.NewDir(dir)
		os.MkdirAll(telemetry.Default.LocalDir(), 0o777)
		os.WriteFile(filepath.Join(telemetry.Default.LocalDir(), "weekends"), []byte("3\n"), 0o666)
		var now atomic.Int64
		now.Store(time.Date(2024, 3, 4, 10, 0, 0, 0, time.UTC).UnixNano())
		CounterTime = func() time.Time { return time.Unix(0, now.Load()).UTC() }
		q := &verifrt.Quarantine{}
		munmap = func(d *mmap.Data) error { return q.Unmap(d.Data, "unmap") }
		f := &file{}
		preOpen := rnd.Intn(3) != 0
		if preOpen {
			f.rotate1()
		}
		nctr := 1 + rnd.Intn(4)
		ctrs := make([]*Counter, nctr)
		begun := make([]atomic.Uint64, nctr)
		for i := range ctrs {
			ctrs[i] = &Counter{name: fmt.Sprintf("verif/r%d", i), file: f}
		}
		var growMu sync.Mutex
		var grown []*Counter
		var wg sync.WaitGroup
		var faults sync.Map
		worker := func(name string, fn func()) {
			wg.Add(1)
			go func() {
				defer wg.Done()
				debug.SetPanicOnFault(true)
				defer func() {
					if r := recover(); r != nil {
						kind := "panic"
						if _, ok := r.(verifrt.LockStuck); ok {
							kind = "lock-wait-forever"
						}
						if _, ok := r.(verifrt.TickPanic); ok {
							kind = "spin-forever"
						}
						if addr, ok := verifrt.FaultAddr(r); ok {
							kind = "fault"
							if _, ok := q.Find(addr); ok {
								kind = "stale-mapping-access"
							}
						}
						faults.Store(name, fmt.Sprintf("%s|%s|%v\n%.1200s", kind, vfTopFrame(string(debug.Stack())), r, debug.Stack()))
					}
				}()
				fn()
			}()
		}
		G := 8 + rnd.Intn(41)
		// logical bound on spinning: a healthy round makes ~3e5 loop iterations
		// in the instrumented code (lock-bit waits included); 5e7 means a
		// goroutine waits for something that will never happen
		verifrt.SetTickBudget(50_000_000)
		for g := 0; g < G; g++ {
			g := g
			kind := g % 8
			seed := rnd.Uint64()
			worker(fmt.Sprintf("w%d", g), func() {
				r := verifrt.NewRand(int64(seed), "w")
				switch {
				case kind == 0 && !preOpen:
					f.rotate1()
				case kind == 1:
					for k := 0; k < 2+r.Intn(4); k++ {
						c := &Counter{name: fmt.Sprintf("grow/%d/%d/", g, k) + strings.Repeat("g", 3900), file: f}
						c.Add(1)
						growMu.Lock()
						grown = append(grown, c)
						growMu.Unlock()
					}
				case kind == 2 && g < 16:
					now.Add(int64(8 * 24 * time.Hour))
					f.rotate1()
				case kind == 3:
					// (no concurrent Read: the test-support reader is outside the
					// property's quantifier and races with the closing of a rotated
					// mapping - see DESIGN.md section 7, item 9)
					for k := 0; k < 20; k++ {
						i := r.Intn(nctr)
						begun[i].Add(1)
						ctrs[i].Inc()
					}
				default:
					for k := 0; k < 50+r.Intn(200); k++ {
						i := r.Intn(nctr)
						n := uint64(1 + r.Intn(3))
						begun[i].Add(n)
						ctrs[i].Add(int64(n))
					}
				}
			})
		}
		wg.Wait()
		res.HitN("loop-iterations", int(verifrt.Ticks()))
		verifrt.SetTickBudget(0)
		res.Eval()
		rp := verifrt.CaseReplay(rd, map[string]any{"goroutines": G, "counters": nctr, "preopen": preOpen})
		bad := false
		stuck := false
		faults.Range(func(k, v any) bool {
			parts := strings.SplitN(v.(string), "|", 3)
			sig := parts[0] + ":free-running:" + parts[1]
			res.Violate(sig, fmt.Sprintf("worker %v: %s", k, parts[2]), rp)
			bad = true
			stuck = stuck || parts[0] == "spin-forever" || parts[0] == "lock-wait-forever"
			return true
		})
		if stuck {
			// every such round burns the whole spin budget: two of them are verdict
			// enough, the remaining rounds would only repeat it
			if stuckRounds++; stuckRounds >= 2 {
				res.Hit("stopped-early-after-two-stuck-rounds")
				break
			}
		}
		if !bad {
			if !preOpen && f.current.Load() == nil {
				f.rotate1() // make sure a file is open at quiescence
			}
			// one more increment flushes counters whose pointer is stale-nil
			files, _ := filepath.Glob(filepath.Join(telemetry.Default.LocalDir(), "*.count"))
			sum := map[string]uint64{}
			for _, fn := range files {
				d, err := os.ReadFile(fn)
				if err != nil {
					continue
				}
				cf, err := verifref.ParseCounterFile(d)
				if err != nil {
					res.Violate("malformed-after-race-round", fn+": "+err.Error(), rp)
					continue
				}
				for n, v := range cf.Counts() {
					sum[n] += v
				}
			}
			for i, c := range ctrs {
				x := counterStateBits(c.state.bits.Load()).extra()
				if sum[c.name]+x != begun[i].Load() {
					res.Violate("lost-increment:free-running", fmt.Sprintf("counter %s: persisted %d + pending %d != increments %d", c.name, sum[c.name], x, begun[i].Load()), rp)
				} else if x != 0 && f.current.Load() != nil && f.err == nil {
					res.Violate("unpersisted-after-quiescence:free-running", fmt.Sprintf("counter %s: %d still pending although a file is open and all calls returned", c.name, x), rp)
				}
			}
			if q.Unmaps > 0 {
				res.Distinct(fmt.Sprint(rd))
				res.Hit("mapping-swapped")
			}
		}
		if m := f.current.Load(); m != nil {
			m.close()
		}
		q.Release()
		munmap = mmap.Munmap
		if rd < 2 {
			res.Sample(map[string]any{"round": rd, "goroutines": G, "counters": nctr, "preopen": preOpen, "unmaps": q.Unmaps})
		}
		os.RemoveAll(dir)
	}
	res.Require("mapping-swapped")
	if err := res.Write(); err != nil {
		t.Fatal(err)
	}
}
