//go:build verif

package counter

import (
	"encoding/binary"
	"fmt"
	"io"
	"os"
	"path/filepath"
	"strings"
	"syscall"
	"testing"
	"time"

	"golang.org/x/telemetry/internal/mmap"
	"golang.org/x/telemetry/internal/telemetry"
	"golang.org/x/telemetry/internal/verifref"
	"golang.org/x/telemetry/internal/verifrt"
)

// C05: telemetry failures never crash, hang or block the host program.
//
// The host's calls (open, increments of existing and new counters, growth,
// rotation, read) are executed one by one under a fault plan; each call must
// return normally within its loop-tick budget, and no counter may ever exceed
// the increments begun on it or decrease.

var c05Errnos = []syscall.Errno{syscall.EACCES, syscall.ENOENT, syscall.EEXIST, syscall.ENOSPC, syscall.EIO, syscall.EMFILE, syscall.EROFS, syscall.ENOTDIR, syscall.EISDIR, syscall.ENOMEM}

type c05step struct {
	Kind string // open | add | grow | rotate | read | rmfile | rmdir
	Ctr  int
	N    uint64
}

var c05Scenario = []c05step{
	{Kind: "add", Ctr: 0, N: 2}, // before the file is open
	{Kind: "open"},
	{Kind: "add", Ctr: 0, N: 1},
	{Kind: "add", Ctr: 1, N: 2},
	{Kind: "grow"}, {Kind: "grow"}, {Kind: "grow"}, {Kind: "grow"}, {Kind: "grow"},
	{Kind: "add", Ctr: 0, N: 1},
	{Kind: "read", Ctr: 0},
	{Kind: "rotate"},
	{Kind: "add", Ctr: 0, N: 1},
	{Kind: "add", Ctr: 2, N: 1},
	{Kind: "grow"},
	{Kind: "read", Ctr: 1},
}

type c05env struct {
	dir   string
	f     *file
	now   time.Time
	ctrs  []*Counter
	names []string
	begun []uint64
	last  map[string]uint64 // per (file|name) cell
	growN int
	q     *verifrt.Quarantine
}

func newC05env(base string) *c05env {
	e := &c05env{last: map[string]uint64{}, q: &verifrt.Quarantine{Max: 512}}
	e.dir, _ = os.MkdirTemp(base, "f")
	telemetry.Default = telemetry.NewDir(e.dir)
	e.now = time.Date(2024, 3, 4, 10, 0, 0, 0, time.UTC)
	CounterTime = func() time.Time { return e.now }
	e.f = &file{}
	munmap = func(d *mmap.Data) error { return e.q.Unmap(d.Data, "unmap") }
	for i := 0; i < 3; i++ {
		e.add(fmt.Sprintf("verif/c%d", i))
	}
	return e
}

func (e *c05env) add(name string) int {
	e.ctrs = append(e.ctrs, &Counter{name: name, file: e.f})
	e.names = append(e.names, name)
	e.begun = append(e.begun, 0)
	return len(e.ctrs) - 1
}

func vfCountFDs() int {
	ents, _ := os.ReadDir("/proc/self/fd")
	return len(ents)
}

func (e *c05env) close() {
	verifrt.SetPlan(nil)
	if m := e.f.current.Load(); m != nil {
		m.close()
	}
	e.q.Release()
	munmap = mmap.Munmap
	os.Chmod(e.dir, 0o777)
	os.RemoveAll(e.dir)
}

// step runs one host call under the monitors; it returns a violation
// signature/message or "".
func (e *c05env) step(s c05step) (sig, msg string) {
	// a healthy call needs a few hundred loop iterations; the budget is per host
	// call and generous, but small enough that a loop which re-maps the file on
	// every iteration is cut off after a few seconds
	var budget int64 = 150_000
	if m := e.f.current.Load(); m != nil && m.mapping != nil {
		if n := int64(len(m.mapping.Data)); n < 1<<22 {
			budget += 4 * n
		}
	}
	verifrt.SetTickBudget(budget)
	pv, stack := vfGuarded(func() {
		switch s.Kind {
		case "open":
			e.f.rotate1()
		case "add":
			e.begun[s.Ctr] += s.N
			e.ctrs[s.Ctr].Add(int64(s.N))
		case "grow":
			j := e.add(fmt.Sprintf("grow/%d/", e.growN) + strings.Repeat("g", 3900))
			e.growN++
			e.begun[j] += 1
			e.ctrs[j].Add(1)
		case "rotate":
			e.now = e.now.Add(8 * 24 * time.Hour)
			e.f.rotate1()
		case "read":
			Read(e.ctrs[s.Ctr])
		case "rmfile":
			if m := e.f.current.Load(); m != nil && m.f != nil {
				os.Remove(m.f.Name())
			}
		case "rmdir":
			os.RemoveAll(telemetry.Default.LocalDir())
		}
	})
	over := verifrt.TickExceeded()
	ticks := verifrt.Ticks()
	verifrt.SetTickBudget(0)
	if over {
		return "unbounded-loop:" + vfTopFrameOf(stack, pv), fmt.Sprintf("call %s exceeded the loop-tick budget (%d ticks): unbounded loop\n%.1200s", s.Kind, ticks, stack)
	}
	if pv != nil {
		kind := "panic"
		if addr, ok := verifrt.FaultAddr(pv); ok {
			kind = "fault"
			if _, ok := e.q.Find(addr); ok {
				kind = "stale-mapping-access"
			}
		}
		return kind + ":" + vfTopFrame(stack), fmt.Sprintf("call %s: %s escaped to the host: %v\n%.1500s", s.Kind, kind, pv, stack)
	}
	return "", ""
}

func vfMapRO(fn string) ([]byte, error) {
	f, err := os.Open(fn)
	if err != nil {
		return nil, err
	}
	defer f.Close()
	fi, err := f.Stat()
	if err != nil || fi.Size() == 0 || !fi.Mode().IsRegular() {
		return nil, fmt.Errorf("not mappable")
	}
	return syscall.Mmap(int(f.Fd()), 0, int(fi.Size()), syscall.PROT_READ, syscall.MAP_SHARED)
}

func vfTopFrameOf(stack string, pv any) string {
	if stack == "" {
		return "?"
	}
	return vfTopFrame(stack)
}

// audit checks that no counter exceeds what was begun and no cell decreased.
func (e *c05env) audit() (sig, msg string) {
	files, _ := filepath.Glob(filepath.Join(telemetry.Default.LocalDir(), "*.count"))
	sum := map[string]uint64{}
	for _, fn := range files {
		// map rather than read: a corrupt allocation limit can make the library
		// extend the file to gigabytes (sparse)
		d, err := vfMapRO(fn)
		if err != nil || len(d) < verifref.PageSize {
			continue
		}
		defer syscall.Munmap(d)
		for i, name := range e.names {
			off := verifref.FindRecord(d, name)
			if off == 0 {
				continue
			}
			v := binary.LittleEndian.Uint64(d[off:])
			key := fn + "|" + name
			if v < e.last[key] {
				return "cell-decreased", fmt.Sprintf("counter %q in %s went from %d to %d", vfTrunc40(name), filepath.Base(fn), e.last[key], v)
			}
			e.last[key] = v
			sum[name] += v
			_ = i
		}
	}
	for i, name := range e.names {
		x := counterStateBits(e.ctrs[i].state.bits.Load()).extra()
		if sum[name]+x > e.begun[i] {
			return "inflated", fmt.Sprintf("counter %q: persisted %d + pending %d exceeds the increments begun %d", vfTrunc40(name), sum[name], x, e.begun[i])
		}
	}
	return "", ""
}

// runC05 executes the scenario under the plan; returns the recorded events.
func runC05(r *verifrt.Result, base string, steps []c05step, faults []*verifrt.Fault, prep func(e *c05env), replay map[string]any) []verifrt.Event {
	e := newC05env(base)
	defer e.close()
	if prep != nil {
		prep(e)
	}
	plan := &verifrt.Plan{Faults: faults}
	verifrt.SetPlan(plan)
	for si, s := range steps {
		if sig, msg := e.step(s); sig != "" {
			replay["step"] = si
			r.Violate(sig, msg, replay)
			return plan.Snapshot()
		}
		if sig, msg := e.audit(); sig != "" {
			replay["step"] = si
			r.Violate(sig, msg+fmt.Sprintf(" (after step %d %s)", si, s.Kind), replay)
			return plan.Snapshot()
		}
	}
	verifrt.SetPlan(nil)
	return plan.Snapshot()
}

func TestVerifC05Faults(t *testing.T) {
	if verifrt.WantCheck("C05.faults") {
		c05Faults(t)
	}
}

func TestVerifC05Corrupt(t *testing.T) {
	if verifrt.WantCheck("C05.corrupt") {
		c05Corrupt(t)
	}
}

func TestVerifC05States(t *testing.T) {
	if verifrt.WantCheck("C05.states") {
		c05States(t)
	}
}

func c05Faults(t *testing.T) {
	const check = "C05.faults"
	res := verifrt.NewResult(check)
	res.Rule = "scenario: increment before open, open, increments of existing and new counters, growth over a page (remap), read, weekly rotation, more increments and growth. A fault-free recording pass lists every fs/mmap call (shim events); then every single call x every errno of {EACCES, ENOENT, EEXIST, ENOSPC, EIO, EMFILE, EROFS, ENOTDIR, EISDIR, ENOMEM} (+ short write) is injected, plus pairs of faults (quick: sampled; thorough: all pairs for 3 errnos), plus deletions of the counter file / local dir between calls. Oracle per host call: returns normally (no panic/fault), loop-tick budget, no counter exceeds increments begun, no cell decreases. distinct = distinct (call index, errno[, second call, errno]) plans; all non-trivial"
	base := vfVtmp("c05-")
	defer os.RemoveAll(base)
	// recording pass (in every process: it is deterministic)
	rec := runC05(res, base, c05Scenario, nil, nil, map[string]any{"plan": "none"})
	if len(rec) < 20 {
		res.Inconc(fmt.Sprintf("recording pass saw only %d fs calls", len(rec)))
	}
	type planT struct {
		a, b   int
		ea, eb syscall.Errno
		short  bool
		del    int // step index before which the file/dir is deleted (0 = none)
		delDir bool
	}
	var plans []planT
	for k := 1; k <= len(rec); k++ {
		for _, en := range c05Errnos {
			plans = append(plans, planT{a: k, ea: en})
		}
		if strings.Contains(rec[k-1].Op, "Write") {
			plans = append(plans, planT{a: k, ea: syscall.ENOSPC, short: true})
		}
	}
	nsingle := len(plans)
	rnd := verifrt.NewRand(verifrt.Seed(), check)
	npairs := verifrt.Scale(600, 30000)
	for j := 0; j < npairs; j++ {
		a := 1 + rnd.Intn(len(rec))
		b := a + 1 + rnd.Intn(len(rec)-a+6)
		plans = append(plans, planT{a: a, ea: c05Errnos[rnd.Intn(len(c05Errnos))], b: b, eb: c05Errnos[rnd.Intn(len(c05Errnos))]})
	}
	for si := 1; si < len(c05Scenario); si++ {
		plans = append(plans, planT{del: si}, planT{del: si, delDir: true})
		for _, en := range []syscall.Errno{syscall.EACCES, syscall.ENOENT} {
			plans = append(plans, planT{del: si, delDir: true, a: 1 + rnd.Intn(len(rec)), ea: en})
		}
	}
	nb := 16
	per := (len(plans) + nb - 1) / nb
	verifrt.RunBatches("TestVerifC05Faults", res, nb, 0, 30*time.Minute, "c05.death", func(b int, r *verifrt.Result, cur *verifrt.Current) {
		bbase := vfVtmp("c05b-")
		defer os.RemoveAll(bbase)
		lo, hi := verifrt.CaseRange(check, b, per)
		for i := lo; i < hi && i < len(plans); i++ {
			p := plans[i]
			var fs []*verifrt.Fault
			desc := ""
			if p.a > 0 {
				fs = append(fs, &verifrt.Fault{AtSeq: p.a, Errno: p.ea, Short: p.short})
				op := "?"
				if p.a <= len(rec) {
					op = rec[p.a-1].Op
				}
				desc = fmt.Sprintf("call#%d(%s)=%v", p.a, op, p.ea)
				r.Hit("fault-at:" + op)
			}
			if p.b > 0 {
				fs = append(fs, &verifrt.Fault{AtSeq: p.b, Errno: p.eb})
				desc += fmt.Sprintf(" + call#%d=%v", p.b, p.eb)
				r.Hit("pair")
			}
			steps := c05Scenario
			if p.del > 0 {
				k := "rmfile"
				if p.delDir {
					k = "rmdir"
				}
				steps = append(append(append([]c05step{}, c05Scenario[:p.del]...), c05step{Kind: k}), c05Scenario[p.del:]...)
				desc += fmt.Sprintf(" %s before step %d", k, p.del)
				r.Hit("deleted-while-in-use")
			}
			if cur != nil {
				cur.Set(fmt.Sprintf("plan %d: %s", i, desc))
			}
			r.Eval()
			r.Distinct(desc)
			evs := runC05(r, bbase, steps, fs, nil, verifrt.CaseReplay(i, map[string]any{"plan": desc}))
			inj := 0
			for _, e := range evs {
				if e.Inj {
					inj++
				}
			}
			if inj > 0 {
				r.Hit("fault-delivered")
			}
			if i < 2 || i == nsingle {
				r.Sample(map[string]any{"plan": desc, "fs_calls_seen": len(evs), "faults_delivered": inj})
			}
		}
	})
	res.Extra["recorded_fs_calls"] = len(rec)
	res.Extra["single_fault_plans"] = nsingle
	ops := map[string]int{}
	for _, e := range rec {
		ops[e.Op]++
	}
	res.Extra["recorded_ops"] = ops
	res.Require("fault-delivered", "pair", "deleted-while-in-use", "fault-at:OpenFile", "fault-at:Mmap", "fault-at:File.WriteAt", "fault-at:ReadFile", "fault-at:MkdirAll", "fault-at:File.Stat")
	if err := res.Write(); err != nil {
		t.Fatal(err)
	}
}

// c05Corrupt: counter files corrupted at rest (before they are opened).
func c05Corrupt(t *testing.T) {
	const check = "C05.corrupt"
	res := verifrt.NewResult(check)
	res.Rule = "a counter file written by the library (some plain, long and stack-named counters) is damaged at rest by one or two of the targeted vfDamage classes (header length, limit incl. values that wrap when rounded to a page, bucket heads, next links incl. self/2-/long cycles, name lengths, truncation, metadata, random flips/words) or replaced by random bytes, then opened by a fresh process-local file value: open, increments of the names that were in the file, of new names and of page-filling names, rotation and read must each return normally within the loop-tick budget, and no counter may exceed its increments; three further counters of the file that the host never touches must keep the value they show in the damaged image. distinct = distinct damaged images"
	nb := 16
	total := verifrt.Scale(1000, 40000)
	per := (total + nb - 1) / nb
	verifrt.RunBatches("TestVerifC05Corrupt", res, nb, 0, 30*time.Minute, "c05.death", func(b int, r *verifrt.Result, cur *verifrt.Current) {
		base := vfVtmp("c05c-")
		defer os.RemoveAll(base)
		lo, hi := verifrt.CaseRange(check, b, per)
		for i := lo; i < hi; i++ {
			rnd := verifrt.NewRand(verifrt.Seed(), fmt.Sprintf("%s/%d", check, i))
			class := ""
			var names []string
			var damaged []byte
			damagedPath := ""
			prep := func(e *c05env) {
				// write a healthy file through the library
				e.f.rotate1()
				m := e.f.current.Load()
				if m == nil {
					return
				}
				path := m.f.Name()
				n := 2 + rnd.Intn(12)
				for k := 0; k < n; k++ {
					shape := verifrt.Pick(rnd, []string{"plain", "plain", "long", "ditto", "stack"})
					name := vfGenName(rnd, shape, k)
					names = append(names, name)
					c := &Counter{name: name, file: e.f}
					c.Add(int64(1 + rnd.Intn(5)))
				}
				if rnd.Intn(4) == 0 {
					// (several pages of records)
					for k, nb := 0, 4+rnd.Intn(9); k < nb; k++ {
						name := fmt.Sprintf("verif/big/%d/", k) + strings.Repeat("B", 3000+rnd.Intn(1000))
						names = append(names, name)
						c := &Counter{name: name, file: e.f}
						c.Add(1)
					}
				}
				// bystanders: counters of this file that the host never touches
				// afterwards ("failures never change the values of other counters")
				for k := 0; k < 3; k++ {
					c := &Counter{name: fmt.Sprintf("verif/bystander/%d", k), file: e.f}
					c.Add(int64(1000 + k))
				}
				m = e.f.current.Load()
				m.close()
				e.q.Release()
				data, err := os.ReadFile(path)
				if err != nil {
					return
				}
				cf, err := verifref.ParseCounterFile(data)
				if err != nil {
					return
				}
				var out []byte
				if rnd.Intn(12) == 0 {
					out = rnd.Bytes(len(data))
					if rnd.Bool() {
						copy(out, verifref.Prefix)
					}
					class = "random-bytes"
				} else {
					dm := c05Damages[rnd.Intn(len(c05Damages))]
					out = dm.apply(rnd, data, cf)
					class = dm.class
					if out != nil && rnd.Intn(4) == 0 {
						if cf2, err := verifref.ParseCounterFile(out); err == nil {
							dm2 := c05Damages[rnd.Intn(len(c05Damages))]
							if o2 := dm2.apply(rnd, out, cf2); o2 != nil {
								out = o2
								class += "+" + dm2.class
							}
						}
					}
				}
				if out == nil {
					out = data
					class = "undamaged"
				}
				os.WriteFile(path, out, 0o666)
				damaged = out
				damagedPath = path
				// fresh process state
				e.f = &file{}
				e.ctrs, e.names, e.begun = nil, nil, nil
				e.last = map[string]uint64{}
				for _, nm := range names {
					j := e.add(nm)
					// whatever value the damaged file shows for it is the baseline
					e.begun[j] = 1 << 62
				}
				e.add("verif/new-a")
				e.add("verif/new-b")
			}
			var steps []c05step
			steps = append(steps, c05step{Kind: "open"})
			for k := 0; k < 14; k++ {
				steps = append(steps, c05step{Kind: "add", Ctr: k, N: 1})
			}
			steps = append(steps, c05step{Kind: "grow"}, c05step{Kind: "grow"}, c05step{Kind: "grow"}, c05step{Kind: "grow"}, c05step{Kind: "rotate"}, c05step{Kind: "add", Ctr: 0, N: 1})
			if cur != nil {
				cur.Set(fmt.Sprintf("corrupt case %d", i))
			}
			r.Eval()
			e := newC05env(base)
			prep(e)
			r.Hit("damage:" + strings.SplitN(class, "+", 2)[0])
			plan := &verifrt.Plan{NoLog: true}
			verifrt.SetPlan(plan)
			if m, _ := filepath.Glob(filepath.Join(telemetry.Default.LocalDir(), "*.count")); len(m) == 1 {
				if d, err := os.ReadFile(m[0]); err == nil {
					r.Distinct(verifrt.Hash(d)) // still the damaged image at rest: a few pages
				}
			}
			fds0 := vfCountFDs()
			for si, s := range steps {
				if s.Kind == "add" && s.Ctr >= len(e.ctrs) {
					continue
				}
				if sig, msg := e.step(s); sig != "" {
					inp := ""
					if len(damaged) > 0 {
						inp = vfSaveInput(r, "C05", damaged)
					}
					r.Violate(sig, msg+"\n(vfDamage class "+class+")", verifrt.CaseReplay(i, map[string]any{"class": class, "step": si, "input": inp}))
					break
				}
			}
			// bystanders that were readable in the damaged image still show their value
			// (a damaged limit can make the library extend the file by gigabytes of
			// holes: read only as far as the image reached, where the bystanders are)
			var final []byte
			if fh, err := os.Open(damagedPath); err == nil && len(damaged) > 0 {
				// (records the host added may head the bystanders' chains from later
				// pages: read as far as a healthy run can get, not the holes beyond)
				const cap = 4 << 20
				if fi, err := fh.Stat(); err == nil && fi.Size() >= int64(len(damaged)) {
					n := fi.Size()
					if n > cap {
						n = cap
					}
					final = make([]byte, n)
					if _, err := io.ReadFull(fh, final); err != nil {
						final = nil
					}
				}
				fh.Close()
			}
			if final != nil && len(damaged) > 0 {
				// a damaged image that the library's own reader still accepted (all its
				// counters readable by the uploader) is still accepted after the host's
				// operations: otherwise every other counter's value is lost with it
				if fi, err := os.Stat(damagedPath); err == nil && fi.Size() == int64(len(final)) {
					if _, err := Parse(damagedPath, damaged); err == nil {
						r.Hit("readable-before")
						if _, err2 := Parse(damagedPath, final); err2 != nil {
							r.Violate("file-unreadable-after-host-ops:"+strings.SplitN(class, "+", 2)[0], fmt.Sprintf("the damaged file at rest (vfDamage class %s) was still readable by counter.Parse with all its counters; after the host's increments Parse rejects it (%v): the values of all other counters are lost", class, err2),
								verifrt.CaseReplay(i, map[string]any{"class": class, "input": vfSaveInput(r, "C05", damaged)}))
						}
					}
				}
			}
			if final != nil {
				for k := 0; k < 3; k++ {
					nm := fmt.Sprintf("verif/bystander/%d", k)
					off := verifref.FindRecord(damaged, nm)
					if off == 0 || int(off)+8 > len(damaged) {
						continue
					}
					before := binary.LittleEndian.Uint64(damaged[off:])
					if before != uint64(1000+k) {
						continue // the vfDamage itself hit this record
					}
					r.Hit("bystander-checked")
					off2 := verifref.FindRecord(final, nm)
					after := uint64(0)
					if off2 != 0 && int(off2)+8 <= len(final) {
						after = binary.LittleEndian.Uint64(final[off2:])
					}
					if off2 == 0 || after != before {
						r.Violate("bystander-value-changed:"+strings.SplitN(class, "+", 2)[0], fmt.Sprintf("counter %s, which the host never touched, read %d in the damaged file before it was opened and reads %d (record at %#x, was %#x) after the host's increments of other counters (vfDamage class %s)", nm, before, after, off2, off, class),
							verifrt.CaseReplay(i, map[string]any{"class": class, "input": vfSaveInput(r, "C05", damaged)}))
						break
					}
				}
			}
			if i-lo < 1 && b < 2 {
				r.Sample(map[string]any{"case": i, "damage": class, "counters_in_file": len(names)})
			}
			e.close()
			// every file the library opened while coping with the damage is closed
			// again once its current mapping is released: a descriptor left open
			// per failed operation would eventually starve the host of descriptors
			if fds1 := vfCountFDs(); fds1 > fds0+1 {
				inp := ""
				if len(damaged) > 0 {
					inp = vfSaveInput(r, "C05", damaged)
				}
				r.Violate("descriptor-leak:"+strings.SplitN(class, "+", 2)[0], fmt.Sprintf("the host made %d telemetry calls on a damaged counter file (class %s) and ended with %d more open file descriptors than before (%d -> %d)", len(steps), class, fds1-fds0, fds0, fds1),
					verifrt.CaseReplay(i, map[string]any{"class": class, "input": inp}))
			}
			r.Hit("descriptors-counted")
			if os.Getenv("VERIF_DEBUG_MAPS") != "" {
				mb, _ := os.ReadFile("/proc/self/maps")
				st, _ := os.ReadFile("/proc/self/status")
				vm := ""
				for _, l := range strings.Split(string(st), "\n") {
					if strings.HasPrefix(l, "VmSize") || strings.HasPrefix(l, "VmRSS") {
						vm += l + " "
					}
				}
				fds, _ := os.ReadDir("/proc/self/fd")
				lf, _ := os.OpenFile(filepath.Join(os.Getenv("VERIF_DEBUG_MAPS"), fmt.Sprintf("maps.%d.log", b)), os.O_APPEND|os.O_CREATE|os.O_WRONLY, 0o644)
				fmt.Fprintf(lf, "case %d class %s maps=%d fds=%d %s\n", i, class, strings.Count(string(mb), "\n"), len(fds), vm)
				lf.Close()
			}
		}
	})
	res.Require("bystander-checked", "readable-before", "damage:cycle-2", "damage:next-self", "damage:limit-wrap", "damage:limit", "damage:limit-in-table", "damage:hdrlen-small", "damage:truncate", "damage:random-bytes", "damage:head-bad")
	if err := res.Write(); err != nil {
		t.Fatal(err)
	}
}

var c05Damages = append(append([]vfDamage{}, vfDamages...),
	vfDamage{"limit-wrap", func(r *verifrt.Rand, d []byte, cf *verifref.CounterFile) []byte {
		vfPut32(d, cf.HdrLen, uint32(verifrt.Pick(r, []int{0xffffc001, 0xfffffff0, 0xffffffe0, 0xffffc000, 0x7fffffff})))
		return d
	}},
	vfDamage{"truncate-to-page", func(r *verifrt.Rand, d []byte, cf *verifref.CounterFile) []byte {
		// a file that had grown over several pages, cut back at rest to fewer
		// whole pages: limit, bucket heads and links point beyond its end
		pages := len(d) / verifref.PageSize
		if pages < 2 {
			return nil
		}
		return d[:verifref.PageSize*(1+r.Intn(pages-1))]
	}},
	vfDamage{"limit-in-table", func(r *verifrt.Rand, d []byte, cf *verifref.CounterFile) []byte {
		// a limit that points into the hash table (whose empty stretches are
		// as zero as unused record space)
		vfPut32(d, cf.HdrLen, cf.HdrLen+4+uint32(r.Intn(4*verifref.NumHash)))
		return d
	}},
	vfDamage{"limit-page-edge", func(r *verifrt.Rand, d []byte, cf *verifref.CounterFile) []byte {
		vfPut32(d, cf.HdrLen, uint32(len(d)-verifrt.Pick(r, []int{0, 32, 64, 4, 16})))
		return d
	}},
)

// c05States: hostile initial states of the telemetry directory.
func c05States(t *testing.T) {
	const check = "C05.states"
	res := verifrt.NewResult(check)
	res.Rule = "initial states: telemetry dir / local / weekends / mode missing, a regular file where a directory is expected and vice versa, dangling and looping symlinks, read-only directories (as far as root can be denied: via injected EACCES), an existing directory in place of the counter file; the scenario of C05.faults must run to the end on each. distinct = distinct states"
	base := vfVtmp("c05s-")
	defer os.RemoveAll(base)
	type st struct {
		name string
		prep func(e *c05env)
	}
	counterName := func(e *c05env) string {
		// learn the file name from a scratch open in another dir
		return ""
	}
	_ = counterName
	states := []st{
		{"dir-missing", func(e *c05env) { os.RemoveAll(e.dir) }},
		{"dir-is-file", func(e *c05env) { os.RemoveAll(e.dir); os.WriteFile(e.dir, []byte("x"), 0o666) }},
		{"local-is-file", func(e *c05env) { os.WriteFile(telemetry.Default.LocalDir(), []byte("x"), 0o666) }},
		{"local-dangling-symlink", func(e *c05env) { os.Symlink(filepath.Join(e.dir, "nowhere"), telemetry.Default.LocalDir()) }},
		{"local-symlink-loop", func(e *c05env) { os.Symlink(telemetry.Default.LocalDir(), telemetry.Default.LocalDir()) }},
		{"weekends-is-dir", func(e *c05env) {
			os.MkdirAll(filepath.Join(telemetry.Default.LocalDir(), "weekends"), 0o777)
		}},
		{"weekends-empty", func(e *c05env) {
			os.MkdirAll(telemetry.Default.LocalDir(), 0o777)
			os.WriteFile(filepath.Join(telemetry.Default.LocalDir(), "weekends"), nil, 0o666)
		}},
		{"weekends-whitespace", func(e *c05env) {
			os.MkdirAll(telemetry.Default.LocalDir(), 0o777)
			os.WriteFile(filepath.Join(telemetry.Default.LocalDir(), "weekends"), []byte("\n"), 0o666)
		}},
		{"weekends-blanks", func(e *c05env) {
			os.MkdirAll(telemetry.Default.LocalDir(), 0o777)
			os.WriteFile(filepath.Join(telemetry.Default.LocalDir(), "weekends"), []byte(" \t \r\n"), 0o666)
		}},
		{"weekends-garbage", func(e *c05env) {
			os.MkdirAll(telemetry.Default.LocalDir(), 0o777)
			os.WriteFile(filepath.Join(telemetry.Default.LocalDir(), "weekends"), []byte{0xff, 0, 1}, 0o666)
		}},
		{"mode-is-dir", func(e *c05env) { os.MkdirAll(telemetry.Default.ModeFile(), 0o777) }},
		{"mode-garbage", func(e *c05env) { os.WriteFile(telemetry.Default.ModeFile(), []byte{0, 1, 2, 0xff}, 0o666) }},
		{"mode-off", func(e *c05env) { os.WriteFile(telemetry.Default.ModeFile(), []byte("off"), 0o666) }},
		{"counter-file-is-dir", func(e *c05env) {
			// learn the name by opening once, then replace the file by a directory
			e.f.rotate1()
			if m := e.f.current.Load(); m != nil {
				n := m.f.Name()
				m.close()
				os.Remove(n)
				os.MkdirAll(n, 0o777)
			}
			e.f = &file{}
			for _, c := range e.ctrs {
				c.file = e.f
			}
		}},
		{"counter-file-empty", func(e *c05env) {
			e.f.rotate1()
			if m := e.f.current.Load(); m != nil {
				n := m.f.Name()
				m.close()
				os.Truncate(n, 0)
			}
			e.f = &file{}
			for _, c := range e.ctrs {
				c.file = e.f
			}
		}},
		{"counter-file-other-metadata", func(e *c05env) {
			e.f.rotate1()
			if m := e.f.current.Load(); m != nil {
				n := m.f.Name()
				m.close()
				d, _ := verifref.BuildCounterFile("Program: somebody-else\n\n", []verifref.Entry{{Name: "x", Value: 1}})
				os.WriteFile(n, d, 0o666)
			}
			e.f = &file{}
			for _, c := range e.ctrs {
				c.file = e.f
			}
		}},
		{"local-readonly-injected", func(e *c05env) {}},
	}
	for si, s := range states {
		if !verifrt.WantCase(check, si) {
			continue
		}
		res.Eval()
		res.Distinct(s.name)
		var fs []*verifrt.Fault
		if s.name == "local-readonly-injected" {
			fs = []*verifrt.Fault{{Op: "OpenFile", Nth: -1, Errno: syscall.EACCES}, {Op: "WriteFile", Nth: -1, Errno: syscall.EACCES}, {Op: "MkdirAll", Nth: -1, Errno: syscall.EACCES}}
		}
		runC05(res, base, c05Scenario, fs, s.prep, verifrt.CaseReplay(si, map[string]any{"state": s.name}))
		res.Hit("state:" + s.name)
		if si < 2 {
			res.Sample(map[string]any{"state": s.name})
		}
	}
	if err := res.Write(); err != nil {
		t.Fatal(err)
	}
}
