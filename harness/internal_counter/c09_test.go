//go:build verif

package counter

import (
	"fmt"
	"os"
	"path/filepath"
	"reflect"
	"strings"
	"testing"
	"time"

	"golang.org/x/telemetry/internal/telemetry"
	"golang.org/x/telemetry/internal/verifref"
	"golang.org/x/telemetry/internal/verifrt"
)

// C09 (counter side): week boundaries are computed and honoured consistently.

func c09SetDir() string {
	dir := vfVtmp("c09-")
	telemetry.Default = telemetry.NewDir(dir)
	os.MkdirAll(telemetry.Default.LocalDir(), 0o777)
	return dir
}

func c09Weekends(content *string) {
	p := filepath.Join(telemetry.Default.LocalDir(), "weekends")
	if content == nil {
		os.Remove(p)
		return
	}
	os.WriteFile(p, []byte(*content), 0o666)
}

// c09CallSpan calls the package's span function through reflection, so that a
// refactoring of its (unexported) signature does not stop this harness from
// compiling: parameters are passed as zero values ("no previous span"); if the
// results are not (time, time, error) the sweep reports that it cannot run.
var c09SpanFn = reflect.ValueOf(counterSpan)

func c09CallSpan() (begin, end time.Time, err error) {
	t := c09SpanFn.Type()
	in := make([]reflect.Value, t.NumIn())
	for k := range in {
		in[k] = reflect.Zero(t.In(k))
	}
	out := c09SpanFn.Call(in)
	if len(out) != 3 {
		return time.Time{}, time.Time{}, fmt.Errorf("verif: span function has an unexpected shape %s", t)
	}
	b, ok1 := out[0].Interface().(time.Time)
	e, ok2 := out[1].Interface().(time.Time)
	if !ok1 || !ok2 {
		return time.Time{}, time.Time{}, fmt.Errorf("verif: span function has an unexpected shape %s", t)
	}
	if x := out[2].Interface(); x != nil {
		err, _ = x.(error)
	}
	return b, e, err
}

var c09TimesOfDay = []time.Duration{0, 1, 12 * time.Hour, 24*time.Hour - 1}

func TestVerifC09(t *testing.T) {
	if verifrt.WantCheck("C09.span") {
		c09Span(t)
	}
	if verifrt.Batch() >= 0 {
		return
	}
	if verifrt.WantCheck("C09.malformed") {
		c09Malformed(t)
	}
	if verifrt.WantCheck("C09.rotate") {
		c09Rotate(t)
	}
	if verifrt.WantCheck("C09.ticking") {
		c09Ticking(t)
	}
	if verifrt.WantCheck("C09.clock") {
		c09Clock(t)
	}
}

// c09ProductionClock is the package's clock as the program ships it (the
// other tests install their own).
var c09ProductionClock = CounterTime

// c09Clock: with the shipped clock, the span begins at 00:00 UTC of the
// current UTC day whatever the machine's local time zone is.
func c09Clock(t *testing.T) {
	const check = "C09.clock"
	res := verifrt.NewResult(check)
	res.Rule = "the package's own CounterTime (not replaced) with time.Local set to UTC, fixed offsets -12h..+14h and synthetic zones with a recent offset change, all seven settings: the span begins at 00:00 UTC of the UTC day the real clock shows (either day if the call straddles midnight UTC) and ends 1..7 days later on the configured weekday. distinct = (zone, setting) pairs"
	dir := c09SetDir()
	defer os.RemoveAll(dir)
	saved := CounterTime
	savedLocal := time.Local
	defer func() { CounterTime = saved; time.Local = savedLocal }()
	CounterTime = c09ProductionClock
	offsets := []int{0, -12, -11, -8, -3, 1, 5, 9, 13, 14}
	for _, off := range offsets {
		for we := 0; we < 7; we++ {
			time.Local = time.FixedZone(fmt.Sprintf("Z%+d", off), off*3600)
			s := fmt.Sprintf("%d\n", we)
			c09Weekends(&s)
			before := time.Now().UTC()
			begin, end, err := c09CallSpan()
			after := time.Now().UTC()
			res.Eval()
			res.Distinct(fmt.Sprintf("%d/%d", off, we))
			rp := map[string]any{"utc_offset_hours": off, "weekend": we}
			if err != nil {
				res.Violate("span-error", err.Error(), rp)
				continue
			}
			ok := false
			for _, now := range []time.Time{before, after} {
				day := now.Unix() / 86400
				wb, wend := verifref.WeekSpan(day, we)
				if begin.Unix() == wb*86400 && end.Unix() == wend*86400 && begin.Location() == time.UTC {
					ok = true
				}
			}
			if !ok {
				res.Violate("span-not-in-utc", fmt.Sprintf("local zone UTC%+d, setting %d, real clock %s: span [%s, %s) does not begin at 00:00 UTC of the current UTC day", off, we, before.Format(time.RFC3339), begin.Format(time.RFC3339), end.Format(time.RFC3339)), rp)
			}
			if before.Add(time.Duration(off)*time.Hour).Format("2006-01-02") != before.Format("2006-01-02") {
				res.Hit("local-date-differs-from-utc-date")
			}
		}
	}
	time.Local = savedLocal
	res.Require("local-date-differs-from-utc-date")
	if err := res.Write(); err != nil {
		t.Fatal(err)
	}
}

// c09Span sweeps counterSpan over every day of 1990..2069.
func c09Span(t *testing.T) {
	const check = "C09.span"
	res := verifrt.NewResult(check)
	res.Rule = "counterSpan() for every calendar day 1990-01-01..2069-12-31 x every week-end setting 0..6 x times of day {00:00:00, +1ns, 12:00, 23:59:59.999999999} (quick: two of the four times per day, alternating); oracle: begin = 00:00 UTC of that day, end = 00:00 UTC of the first later day falling on the configured weekday (1..7 days ahead), computed by civil-calendar arithmetic that does not use package time. distinct = (day, setting) pairs; every one is non-trivial"
	first := verifref.DaysFromCivil(1990, 1, 1)
	last := verifref.DaysFromCivil(2069, 12, 31)
	nb := 16
	span := (last - first + int64(nb)) / int64(nb)
	verifrt.RunBatches("TestVerifC09", res, nb, 0, 30*time.Minute, "c09.death", func(b int, r *verifrt.Result, cur *verifrt.Current) {
		if _, rp := verifrt.Replaying(); rp && b > 0 {
			return
		}
		dir := c09SetDir()
		defer os.RemoveAll(dir)
		var now time.Time
		CounterTime = func() time.Time { return now }
		lo, hi := first+int64(b)*span, first+int64(b+1)*span
		if hi > last+1 {
			hi = last + 1
		}
		if rd, rp := verifrt.Replaying(); rp {
			if d, ok := rd["day"].(float64); ok {
				lo, hi = int64(d), int64(d)+1
			}
		}
		for we := 0; we < 7; we++ {
			s := fmt.Sprintf("%d\n", we)
			c09Weekends(&s)
			for day := lo; day < hi; day++ {
				if cur != nil && day%512 == 0 {
					cur.Set(fmt.Sprintf("weekend %d day %s", we, verifref.DateString(day)))
				}
				for ti, tod := range c09TimesOfDay {
					if !verifrt.Thorough() && ti%2 != int(day)%2 {
						continue
					}
					now = time.Unix(day*86400, 0).UTC().Add(tod)
					begin, end, err := c09CallSpan()
					r.Eval()
					wb, wend := verifref.WeekSpan(day, we)
					if err != nil {
						r.Violate("span-error", fmt.Sprintf("counterSpan failed for %s weekend=%d: %v", now.Format(time.RFC3339Nano), we, err), map[string]any{"day": day, "weekend": we})
						continue
					}
					if begin.Unix() != wb*86400 || begin.Nanosecond() != 0 || end.Unix() != wend*86400 || end.Nanosecond() != 0 || begin.Location() != time.UTC || end.Location() != time.UTC {
						r.Violate("span-mismatch", fmt.Sprintf("now=%s weekend=%d: span [%s, %s), documented [%s, %s)", now.Format(time.RFC3339Nano), we,
							begin.Format(time.RFC3339Nano), end.Format(time.RFC3339Nano), verifref.DateString(wb), verifref.DateString(wend)), map[string]any{"day": day, "weekend": we, "tod": int64(tod)})
					}
				}
				r.Distinct(fmt.Sprintf("%d/%d", day, we))
				y, m, d := verifref.CivilFromDays(day)
				if m == 2 && d == 29 {
					r.Hit("leap-day")
				}
				if m == 12 && d == 31 {
					r.Hit("year-end")
				}
				_ = y
			}
		}
		if b == 0 {
			r.Sample(map[string]any{"day": verifref.DateString(lo), "weekend_settings": "0..6", "times_of_day_ns": c09TimesOfDay})
		}
	})
	res.Extra["exhaustive_subdomain"] = "every day 1990-01-01..2069-12-31 x week-end settings 0..6 (times of day as listed in the rule)"
	res.Require("leap-day", "year-end")
	if err := res.Write(); err != nil {
		t.Fatal(err)
	}
}

// c09Malformed: for malformed settings only the universally stated part is
// judged: the span is [today 00:00, 1..7 days later 00:00), or the open fails
// and nothing is created. A missing setting is created holding one digit 0..6
// and the span agrees with it.
func c09Malformed(t *testing.T) {
	const check = "C09.malformed"
	res := verifrt.NewResult(check)
	res.Rule = "weekends file missing / empty / every single first byte 0..255 / digits followed by garbage / 1KB, on every day of two different weeks: span must begin today 00:00 UTC and end 1..7 whole days later at 00:00 UTC, or opening fails and no counter file is created; a missing setting is created as one digit 0..6 and honoured. distinct = distinct (setting, weekday) pairs"
	dir := c09SetDir()
	defer os.RemoveAll(dir)
	var now time.Time
	CounterTime = func() time.Time { return now }
	var settings []*string
	settings = append(settings, nil)
	for _, s := range []string{"", " ", "\n", "7", "9", "x", "-1", "3 garbage", "3\n4\n", " 5 ", "\t6", strings.Repeat("2", 1024), "١"} {
		s := s
		settings = append(settings, &s)
	}
	for b := 0; b < 256; b++ {
		s := string([]byte{byte(b)})
		settings = append(settings, &s)
		s2 := string([]byte{byte(b), '\n'})
		settings = append(settings, &s2)
	}
	base := verifref.DaysFromCivil(2024, 2, 25) // a Sunday
	for si, sp := range settings {
		for off := int64(0); off < 14; off++ {
			day := base + off
			if off >= 7 {
				day = verifref.DaysFromCivil(2031, 12, 28) + off - 7
			}
			c09Weekends(sp)
			now = time.Unix(day*86400, 0).UTC().Add(c09TimesOfDay[int(off)%4])
			desc := "missing"
			if sp != nil {
				desc = fmt.Sprintf("%q", vfTrunc40(*sp))
			}
			res.Eval()
			res.Distinct(fmt.Sprintf("%d/%d", si, verifref.Weekday(day)))
			var begin, end time.Time
			var err error
			pv, stack := vfGuarded(func() { begin, end, err = c09CallSpan() })
			if pv != nil {
				res.Violate("span-panic", fmt.Sprintf("counterSpan panicked with weekends=%s: %v\n%.800s", desc, pv, stack), map[string]any{"setting": si, "day": day})
				continue
			}
			if err != nil {
				res.Hit("setting-rejected")
				// the open must fail and create nothing
				f := &file{}
				f.rotate1()
				if f.current.Load() != nil || f.err == nil {
					res.Violate("rejected-but-opened", "counterSpan fails for weekends="+desc+" but rotate1 opened a file", map[string]any{"setting": si, "day": day})
				}
				if m, _ := filepath.Glob(filepath.Join(telemetry.Default.LocalDir(), "*.count")); len(m) > 0 {
					res.Violate("rejected-but-created", "open failed for weekends="+desc+" but a counter file was created", map[string]any{"setting": si, "day": day})
					for _, x := range m {
						os.Remove(x)
					}
				}
				continue
			}
			k := (end.Unix() - begin.Unix()) / 86400
			if begin.Unix() != day*86400 || begin.Nanosecond() != 0 || (end.Unix()-begin.Unix())%86400 != 0 || end.Nanosecond() != 0 || k < 1 || k > 7 {
				res.Violate("malformed-span", fmt.Sprintf("weekends=%s on %s (weekday %d): span [%s, %s) is not 'today 00:00 UTC .. 1-7 days later'", desc, verifref.DateString(day), verifref.Weekday(day),
					begin.Format(time.RFC3339Nano), end.Format(time.RFC3339Nano)), map[string]any{"setting": si, "day": day})
				continue
			}
			res.Hit("setting-accepted")
			if sp == nil {
				b, rerr := os.ReadFile(filepath.Join(telemetry.Default.LocalDir(), "weekends"))
				if rerr != nil || len(b) != 2 || b[0] < '0' || b[0] > '6' || b[1] != '\n' {
					res.Violate("missing-not-created", fmt.Sprintf("missing weekends setting was not created as one digit 0-6: %q %v", b, rerr), map[string]any{"day": day})
				} else if _, wend := verifref.WeekSpan(day, int(b[0]-'0')); end.Unix() != wend*86400 {
					res.Violate("missing-created-not-honoured", fmt.Sprintf("created setting %q but span ends %s", b, end.Format(time.RFC3339)), map[string]any{"day": day})
				} else {
					res.Hit("missing-created")
				}
			} else if len(*sp) > 0 && (*sp)[0] >= '0' && (*sp)[0] <= '6' && (len(*sp) == 1 || (*sp)[1] == '\n') {
				// well-formed settings must be honoured exactly
				if _, wend := verifref.WeekSpan(day, int((*sp)[0]-'0')); end.Unix() != wend*86400 {
					res.Violate("span-mismatch", fmt.Sprintf("weekends=%s on %s: ends %s", desc, verifref.DateString(day), end.Format(time.RFC3339)), map[string]any{"setting": si, "day": day})
				}
			}
		}
	}
	res.Sample(map[string]any{"settings": len(settings), "days": 14})
	res.Require("setting-rejected", "setting-accepted", "missing-created")
	if err := res.Write(); err != nil {
		t.Fatal(err)
	}
}

// c09Rotate: full open, file naming/metadata, and rotation at the end instant.
func c09Rotate(t *testing.T) {
	const check = "C09.rotate"
	res := verifrt.NewResult(check)
	res.Rule = "sampled days (incl. month/year/leap boundaries) x settings: rotate1 creates a file whose name carries the begin date and whose metadata (read by the independent decoder) holds exactly begin/end; its return value (when the rotation timer fires) is the end instant; then Add(3), move the clock to end-1ns / end / end+1ns / end+3d / end+7d, rotate1, Add(5): before end both increments are in the first file and no second file exists, from end on the second increment is only in a new file named for the new begin date and the old file is unchanged (in a third of the cases past the end the week-end setting is changed before the rotation: the new file follows the new setting; a rotate1 call on a later day of the same week may legitimately start a file [that day, same end): then the same split is required; on the same day nothing may rotate). distinct = (day, setting, delta) triples"
	n := verifrt.Scale(600, 20000)
	deltas := []time.Duration{-1, 0, 1, 3 * 24 * time.Hour, 7 * 24 * time.Hour, -12 * time.Hour, -7 * 24 * time.Hour}
	for i := 0; i < n; i++ {
		if !verifrt.WantCase(check, i) {
			continue
		}
		rnd := verifrt.NewRand(verifrt.Seed(), fmt.Sprintf("%s/%d", check, i))
		var day int64
		switch i % 4 {
		case 0:
			y := 1990 + rnd.Intn(80)
			day = verifref.DaysFromCivil(y, 12, 25) + int64(rnd.Intn(14)) // around a year end
		case 1:
			y := 1992 + 4*rnd.Intn(19)
			day = verifref.DaysFromCivil(y, 2, 23) + int64(rnd.Intn(10)) // around a leap day
		default:
			day = verifref.DaysFromCivil(1990, 1, 1) + int64(rnd.Intn(29220))
		}
		we := rnd.Intn(7)
		delta := deltas[i%len(deltas)]
		replay := verifrt.CaseReplay(i, map[string]any{"day": verifref.DateString(day), "weekend": we, "delta_ns": int64(delta)})
		dir := c09SetDir()
		s := fmt.Sprintf("%d\n", we)
		c09Weekends(&s)
		now := time.Unix(day*86400, 0).UTC().Add(c09TimesOfDay[rnd.Intn(4)])
		CounterTime = func() time.Time { return now }
		res.Eval()
		res.Distinct(fmt.Sprintf("%d/%d/%d", day, we, delta))
		func() {
			defer os.RemoveAll(dir)
			f := &file{}
			defer func() {
				if m := f.current.Load(); m != nil {
					m.close()
				}
			}()
			expiry := f.rotate1()
			m := f.current.Load()
			if m == nil {
				res.Violate("open-failed", fmt.Sprintf("rotate1 failed on a healthy directory: %v", f.err), replay)
				return
			}
			wb, wend := verifref.WeekSpan(day, we)
			if expiry.Unix() != wend*86400 || expiry.Nanosecond() != 0 {
				res.Violate("expiry-mismatch", fmt.Sprintf("rotate1 returned %s as the file's expiry; the span ends %s", expiry.Format(time.RFC3339Nano), verifref.DateString(wend)), replay)
			}
			nameA := m.f.Name()
			if !strings.HasSuffix(nameA, "-"+verifref.DateString(wb)+".v1.count") {
				res.Violate("name-date", fmt.Sprintf("file name %s does not carry the begin date %s", filepath.Base(nameA), verifref.DateString(wb)), replay)
			}
			if i%5 == 0 {
				// the week-end setting changes and the same program starts again on
				// the same day: same file name, different end. The second process
				// must either refuse the file or agree with what the file records.
				we2 := (we + 1 + rnd.Intn(6)) % 7
				s2 := fmt.Sprintf("%d\n", we2)
				c09Weekends(&s2)
				f2 := &file{}
				exp2 := f2.rotate1()
				res.Hit("setting-changed-same-day")
				if m2 := f2.current.Load(); m2 != nil {
					d2, _ := os.ReadFile(m2.f.Name())
					if cf2, err := verifref.ParseCounterFile(d2); err == nil {
						if rec := cf2.MetaKV["TimeEnd"]; rec != exp2.Format(time.RFC3339) {
							res.Violate("mapped-file-end-disagrees", fmt.Sprintf("a process whose span ends %s (it will rotate then) is counting into %s, whose recorded end (what the uploader goes by) is %s", exp2.Format(time.RFC3339), filepath.Base(m2.f.Name()), rec), replay)
						}
					}
					m2.close()
				}
				c09Weekends(&s)
			}
			c := &Counter{name: "verif/c09", file: f}
			c.Add(3)
			dataA, _ := os.ReadFile(nameA)
			cfA, err := verifref.ParseCounterFile(dataA)
			if err != nil {
				res.Violate("created-malformed", err.Error(), replay)
				return
			}
			wantB := verifref.DateString(wb) + "T00:00:00Z"
			wantE := verifref.DateString(wend) + "T00:00:00Z"
			if cfA.MetaKV["TimeBegin"] != wantB || cfA.MetaKV["TimeEnd"] != wantE {
				res.Violate("meta-span", fmt.Sprintf("metadata TimeBegin=%q TimeEnd=%q, documented %q %q", cfA.MetaKV["TimeBegin"], cfA.MetaKV["TimeEnd"], wantB, wantE), replay)
			}
			// move the clock relative to the end instant
			now = time.Unix(wend*86400, 0).UTC().Add(delta)
			weNow := we
			if i%3 == 1 && delta >= 0 {
				// the week-end setting changes while the process is running: the
				// file opened by the rotation follows the setting in force then
				weNow = (we + 1 + rnd.Intn(6)) % 7
				s3 := fmt.Sprintf("%d\n", weNow)
				c09Weekends(&s3)
				res.Hit("setting-changed-before-rotation")
			}
			exp2 := f.rotate1()
			c.Add(5)
			files, _ := filepath.Glob(filepath.Join(telemetry.Default.LocalDir(), "*.count"))
			dataA, _ = os.ReadFile(nameA)
			cfA, err = verifref.ParseCounterFile(dataA)
			if err != nil {
				res.Violate("first-file-malformed", err.Error(), replay)
				return
			}
			va := cfA.Counts()["verif/c09"]
			nday := now.Unix() / 86400
			if now.Unix() < 0 && now.Unix()%86400 != 0 {
				nday--
			}
			nb, nend := verifref.WeekSpan(nday, weNow)
			// whatever the call did, it reports when the span in force ends: that is
			// the instant the rotation timer is armed for (a zero time arms nothing)
			if m2 := f.current.Load(); m2 != nil && f.err == nil {
				d2, _ := os.ReadFile(m2.f.Name())
				if cf2, err := verifref.ParseCounterFile(d2); err == nil {
					if rec := cf2.MetaKV["TimeEnd"]; exp2.IsZero() || rec != exp2.Format(time.RFC3339) {
						res.Violate("rotate-returns-other-than-current-end", fmt.Sprintf("rotate1 at end%+v returned %s; the file being counted into ends %s (the caller re-arms its timer with the returned instant)", delta, exp2.Format(time.RFC3339Nano), rec), replay)
					}
				}
			}
			if delta < 0 {
				res.Hit("before-end")
				if nend != wend {
					res.Violate("ref-inconsistent", "reference spans disagree before the end instant", replay)
				}
			} else {
				res.Hit("at-or-after-end")
			}
			if nb == wb && nend == wend {
				// same day as the first open: same span, nothing may rotate
				res.Hit("same-span")
				if len(files) != 1 || va != 8 {
					res.Violate("rotated-within-span", fmt.Sprintf("clock at end%+v (same span): files=%d, first file holds %d (want one file holding 8)", delta, len(files), va), replay)
				}
				return
			}
			if len(files) != 2 {
				res.Violate("not-rotated", fmt.Sprintf("clock at end%+v: %d counter files (want 2); first file holds %d", delta, len(files), va), replay)
				return
			}
			if va != 3 {
				res.Violate("old-file-changed", fmt.Sprintf("after rotation the old file holds %d (want 3)", va), replay)
			}
			for _, fn := range files {
				if fn == nameA {
					continue
				}
				if !strings.HasSuffix(fn, "-"+verifref.DateString(nb)+".v1.count") {
					res.Violate("name-date", fmt.Sprintf("second file %s does not carry the new begin date %s", filepath.Base(fn), verifref.DateString(nb)), replay)
				}
				d, _ := os.ReadFile(fn)
				cf, err := verifref.ParseCounterFile(d)
				if err != nil {
					res.Violate("second-file-malformed", err.Error(), replay)
				} else if cf.MetaKV["TimeBegin"] != verifref.DateString(nb)+"T00:00:00Z" || cf.MetaKV["TimeEnd"] != verifref.DateString(nend)+"T00:00:00Z" {
					res.Violate("meta-span", fmt.Sprintf("second file metadata TimeBegin=%q TimeEnd=%q, documented %s %s", cf.MetaKV["TimeBegin"], cf.MetaKV["TimeEnd"], verifref.DateString(nb), verifref.DateString(nend)), replay)
				} else if cf.Counts()["verif/c09"] != 5 {
					res.Violate("increment-misplaced", fmt.Sprintf("second file holds %d (want 5)", cf.Counts()["verif/c09"]), replay)
				}
			}
		}()
		if i < 3 {
			res.Sample(map[string]any{"case": i, "day": verifref.DateString(day), "weekend": we, "delta": delta.String()})
		}
	}
	res.Require("before-end", "at-or-after-end", "same-span", "setting-changed-same-day", "setting-changed-before-rotation")
	if err := res.Write(); err != nil {
		t.Fatal(err)
	}
}

// c09Ticking: the clock advances between readings and crosses midnight while a
// span is being computed.
func c09Ticking(t *testing.T) {
	const check = "C09.ticking"
	res := verifrt.NewResult(check)
	res.Rule = "counterSpan with a clock that advances on every reading (steps 1ns..200ms) and starts up to 300ms before midnight UTC, on days around month/year/leap boundaries x all seven settings: whichever of the two days the implementation takes as 'today', the span must be self-consistent: begin at 00:00 UTC of a day the clock showed, end at 00:00 UTC 1..7 days later on the configured weekday. distinct = (day, setting, start offset, step) tuples"
	dir := c09SetDir()
	defer os.RemoveAll(dir)
	days := []int64{verifref.DaysFromCivil(2024, 2, 28), verifref.DaysFromCivil(2024, 2, 29), verifref.DaysFromCivil(2023, 12, 31), verifref.DaysFromCivil(2025, 6, 30), verifref.DaysFromCivil(2026, 10, 3)}
	for d := int64(0); d < 7; d++ {
		days = append(days, verifref.DaysFromCivil(2031, 3, 9)+d)
	}
	n := 0
	for _, day := range days {
		for we := 0; we < 7; we++ {
			s := fmt.Sprintf("%d\n", we)
			c09Weekends(&s)
			for _, before := range []time.Duration{1, 50 * time.Millisecond, 300 * time.Millisecond} {
				for _, step := range []time.Duration{1, time.Millisecond, 100 * time.Millisecond, 200 * time.Millisecond} {
					n++
					if !verifrt.WantCase(check, n) {
						continue
					}
					cur := time.Unix((day+1)*86400, 0).UTC().Add(-before)
					readings := 0
					CounterTime = func() time.Time {
						t := cur
						cur = cur.Add(step)
						readings++
						return t
					}
					begin, end, err := c09CallSpan()
					res.Eval()
					res.Distinct(fmt.Sprintf("%d/%d/%v/%v", day, we, before, step))
					rp := verifrt.CaseReplay(n, map[string]any{"day": verifref.DateString(day), "weekend": we, "before_midnight": before.String(), "step": step.String()})
					if err != nil {
						res.Violate("span-error", err.Error(), rp)
						continue
					}
					if readings > 1 {
						res.Hit("several-clock-readings")
					}
					bd := begin.Unix() / 86400
					k := (end.Unix() - begin.Unix()) / 86400
					if begin.Unix()%86400 != 0 || end.Unix()%86400 != 0 || (bd != day && bd != day+1) || k < 1 || k > 7 || verifref.Weekday(end.Unix()/86400) != we {
						res.Violate("inconsistent-span-across-midnight", fmt.Sprintf("clock crossing midnight after %s (step %v, %d readings), weekend=%d: span [%s, %s) — end is not the configured weekday 1..7 days after begin", verifref.DateString(day), step, readings, we, begin.Format(time.RFC3339), end.Format(time.RFC3339)), rp)
					}
					res.Hit("crossing-checked")
				}
			}
		}
	}
	res.Sample(map[string]any{"days": len(days), "settings": 7, "offsets": 3, "steps": 4})
	res.Require("crossing-checked")
	if err := res.Write(); err != nil {
		t.Fatal(err)
	}
}
