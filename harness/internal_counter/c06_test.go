//go:build verif

package counter

import (
	"encoding/binary"
	"fmt"
	"os"
	"path/filepath"
	"reflect"
	"sort"
	"strings"
	"testing"
	"time"

	"golang.org/x/telemetry/internal/verifref"
	"golang.org/x/telemetry/internal/verifrt"
)

// ---------------------------------------------------------------- generators shared by C05/C06/C10

var vfNameShapes = []string{"plain", "long", "max", "stack", "ditto", "nul", "binary", "dots", "one", "truncated", "nl-end", "nl-mid", "ditto-first", "ditto-name", "stack-nodots", "deep-ditto", "generic-ditto"}

// vfGenName returns a counter name of the given shape, unique through uniq.
func vfGenName(r *verifrt.Rand, shape string, uniq int) string {
	u := fmt.Sprintf("u%d", uniq)
	switch shape {
	case "one":
		return string(rune('a'+uniq%26)) + u
	case "plain":
		return "gopls/" + u + "/" + string(r.Bytes(r.Intn(12))[:0]) + fmt.Sprintf("n%d", r.Intn(1000))
	case "long":
		return u + ":" + strings.Repeat("x", 200+r.Intn(3000))
	case "max":
		n := verifref.MaxNameLen - len(u) - 1
		return u + ":" + strings.Repeat("m", n)
	case "stack":
		return "crash/" + u + "\ngolang.org/x/tools/gopls.main:+3,+0x1a\ngolang.org/x/tools/gopls/internal.run:+10,+0x44\nruntime.main:+100,+0x2"
	case "ditto":
		return "stk" + u + "\nexample.com/a/b.F:+1,+0x1\n\".G:+2,+0x2\n\".H.func1:+3,+0x3\nother.org/c.K:+4,+0x4\n\".L:=5,+0x5"
	case "nul":
		return u + "\x00mid\x00"
	case "binary":
		b := r.Bytes(1 + r.Intn(60))
		for i := range b {
			if b[i] == '\n' { // keep it a plain counter
				b[i] = 'n'
			}
		}
		return u + "|" + string(b)
	case "dots":
		return u + ".a.b..c."
	case "truncated": // what EncodeStack produces for an over-long stack
		return "deep/" + u + "\nexample.com/p.f:+1,+0x1\n\".g:+2,+0x2\ntruncated\n"
	case "nl-end":
		return u + "\n"
	case "nl-mid":
		return u + "\n\n\nx.y\n\n"
	case "ditto-name": // the counter's own name looks like an abbreviated frame line
		return "\".stk/" + u + "\nexample.com/a/b.F:+1,+0x1\n\".G:+2,+0x2"
	case "ditto-first": // a ditto mark with nothing before it
		return u + "\n\".f:+1\n\".g:+2"
	case "stack-nodots":
		return u + "\nmain\nnodots\n\"`"
	case "generic-ditto":
		// frames of an instantiated generic function as the runtime names them
		// ("pkg.F[...]": the last dot lies inside the brackets), recursing, as the
		// library's own encoder abbreviates them
		return "gen/" + u + "\nexample.com/p.Walk[...]:+3,+0x1a\n\".]:+7,+0x6b\n\".]:+7,+0x6b\nexample.com/p.main:+2,+0x10\nexample.com/q.Map[...].func1:+1,+0x8\n\".func1:+1,+0x9"
	case "deep-ditto":
		// a deep recursion: every frame but the first abbreviates a long import
		// path, so the stored name is well below the limit while its expansion
		// is several times as long
		var sb strings.Builder
		sb.WriteString("deep/" + u + "\nexample.com/some/rather/long/import/path/of/a/package/in/a/module.recurse:+1,+0x10")
		for k, n := 0, 40+r.Intn(80); k < n; k++ {
			fmt.Fprintf(&sb, "\n\".recurse:+%d,+0x%x", k%7, 0x20+k)
		}
		return sb.String()
	}
	return u
}

// vfGenEntries returns n entries with unique names (and unique expansions).
func vfGenEntries(r *verifrt.Rand, n int) []verifref.Entry {
	es := make([]verifref.Entry, 0, n)
	for i := 0; i < n; i++ {
		shape := vfNameShapes[r.Intn(len(vfNameShapes))]
		if shape == "max" && r.Intn(4) != 0 {
			shape = "plain"
		}
		var v uint64
		switch r.Intn(6) {
		case 0:
			v = 0
		case 1:
			v = ^uint64(0)
		case 2:
			v = 1 << 63
		default:
			v = r.Uint64() >> uint(r.Intn(64))
		}
		es = append(es, verifref.Entry{Name: vfGenName(r, shape, i), Value: v})
	}
	return es
}

func vfGenMeta(r *verifrt.Rand) string {
	switch r.Intn(10) {
	case 8, 9:
		// metadata close to the cap of 512 bytes (a long program path): the
		// header then extends beyond 512 bytes
		m := vfStackMeta(r.Intn(100))
		pad := 470 + r.Intn(43) - len(m)
		if pad < 10 {
			return m
		}
		return "LongProgramPath: " + strings.Repeat("p", pad-18) + "\n" + m
	case 5:
		// blank lines are skipped wherever they stand: keys follow them
		return "First: 1\n\nAfterBlank: 2\n\n\nLast: 3\n"
	case 6:
		return "\nLeadingBlank: x\nDup: 1\nDup: 2\nTrailing: space \n"
	case 7:
		m := vfStackMeta(r.Intn(100))
		k := r.Intn(len(m))
		if j := strings.IndexByte(m[k:], '\n'); j >= 0 {
			// an extra key after an empty line somewhere inside ordinary metadata
			return m[:k+j+1] + "\nExtra" + fmt.Sprint(r.Intn(9)) + ": after-blank\n" + m[k+j+1:]
		}
		return m
	case 0:
		return ""
	case 1:
		return "K: v\n"
	case 2:
		return "TimeBegin: 2024-02-29T00:00:00Z\nTimeEnd: 2024-03-03T00:00:00Z\nProgram: cmd/go\nVersion: go1.22.1\nGoVersion: go1.22.1\nGOOS: linux\nGOARCH: amd64\n\n"
	case 3:
		return "A: b: c\nEmpty: \nUnicode: héllo wörld\n"
	}
	return vfStackMeta(r.Intn(100))
}

// vfWriteWithLibrary writes the entries through the library's own writer and
// returns the file's bytes.
func vfWriteWithLibrary(dir string, meta string, es []verifref.Entry) ([]byte, error) {
	name := filepath.Join(dir, "lib.v1.count")
	os.Remove(name)
	m, err := openMapped(name, meta)
	if err != nil {
		return nil, err
	}
	for _, e := range es {
		v, m1, err := m.newCounter(e.Name)
		if err != nil {
			m.close()
			return nil, err
		}
		if m1 != nil {
			m.close()
			m = m1
		}
		v.Store(e.Value)
	}
	m.close()
	return os.ReadFile(name)
}

// A vfDamage is a targeted corruption of a valid file.
type vfDamage struct {
	class string
	apply func(r *verifrt.Rand, d []byte, cf *verifref.CounterFile) []byte
}

func vfPut32(d []byte, off uint32, v uint32) {
	if int(off)+4 <= len(d) {
		binary.LittleEndian.PutUint32(d[off:], v)
	}
}

func vfAnyRecord(r *verifrt.Rand, cf *verifref.CounterFile) (verifref.Record, bool) {
	if len(cf.Records) == 0 {
		return verifref.Record{}, false
	}
	return cf.Records[r.Intn(len(cf.Records))], true
}

func vfStackRecord(cf *verifref.CounterFile) (verifref.Record, bool) {
	for _, rec := range cf.Records {
		if strings.Contains(rec.Name, "\n\"") {
			return rec, true
		}
	}
	return verifref.Record{}, false
}

var vfDamages = []vfDamage{
	{"hdrlen-small", func(r *verifrt.Rand, d []byte, cf *verifref.CounterFile) []byte {
		vfPut32(d, 28, uint32(verifrt.Pick(r, []int{0, 1, 4, 16, 28, 31})))
		return d
	}},
	{"hdrlen-unaligned", func(r *verifrt.Rand, d []byte, cf *verifref.CounterFile) []byte {
		vfPut32(d, 28, cf.HdrLen+uint32(1+r.Intn(31)))
		return d
	}},
	{"hdrlen-huge", func(r *verifrt.Rand, d []byte, cf *verifref.CounterFile) []byte {
		vfPut32(d, 28, uint32(verifrt.Pick(r, []int{16383, 16384, 16385, 1 << 20, 1<<31 - 1, -1})))
		return d
	}},
	{"hdrlen-near-end", func(r *verifrt.Rand, d []byte, cf *verifref.CounterFile) []byte {
		vfPut32(d, 28, uint32(len(d)-r.Intn(8)))
		return d
	}},
	{"limit", func(r *verifrt.Rand, d []byte, cf *verifref.CounterFile) []byte {
		vfPut32(d, cf.HdrLen, uint32(verifrt.Pick(r, []int{0, 1, int(cf.HdrLen), int(cf.HdrLen) + 100, len(d) + 1, len(d) + 16384, -1, 33})))
		return d
	}},
	{"head-bad", func(r *verifrt.Rand, d []byte, cf *verifref.CounterFile) []byte {
		b := uint32(r.Intn(verifref.NumHash))
		vfPut32(d, cf.HdrLen+4+4*b, uint32(verifrt.Pick(r, []int{1, 31, int(cf.HdrLen), int(cf.HdrLen) + 8, len(d) - 16, len(d) - 15, len(d), len(d) + 32, -1, -16})))
		return d
	}},
	{"next-bad", func(r *verifrt.Rand, d []byte, cf *verifref.CounterFile) []byte {
		rec, ok := vfAnyRecord(r, cf)
		if !ok {
			return nil
		}
		vfPut32(d, rec.Off+12, uint32(verifrt.Pick(r, []int{1, int(rec.Off) + 8, len(d) - 4, len(d), -1, int(cf.HdrLen) + 4})))
		return d
	}},
	{"next-self", func(r *verifrt.Rand, d []byte, cf *verifref.CounterFile) []byte {
		rec, ok := vfAnyRecord(r, cf)
		if !ok {
			return nil
		}
		vfPut32(d, rec.Off+12, rec.Off)
		return d
	}},
	{"next-self-stack", func(r *verifrt.Rand, d []byte, cf *verifref.CounterFile) []byte {
		rec, ok := vfStackRecord(cf)
		if !ok {
			return nil
		}
		vfPut32(d, rec.Off+12, rec.Off)
		return d
	}},
	{"cycle-2", func(r *verifrt.Rand, d []byte, cf *verifref.CounterFile) []byte {
		if len(cf.Records) < 2 {
			return nil
		}
		a := cf.Records[r.Intn(len(cf.Records))]
		b := cf.Records[r.Intn(len(cf.Records))]
		vfPut32(d, a.Off+12, b.Off)
		vfPut32(d, b.Off+12, a.Off)
		return d
	}},
	{"cycle-long", func(r *verifrt.Rand, d []byte, cf *verifref.CounterFile) []byte {
		// link all records into one ring starting from the first one's bucket
		if len(cf.Records) < 3 {
			return nil
		}
		for i, rec := range cf.Records {
			vfPut32(d, rec.Off+12, cf.Records[(i+1)%len(cf.Records)].Off)
		}
		return d
	}},
	{"cross-link", func(r *verifrt.Rand, d []byte, cf *verifref.CounterFile) []byte {
		// a second bucket head pointing into another bucket's chain (shared tail => duplicate names)
		rec, ok := vfAnyRecord(r, cf)
		if !ok {
			return nil
		}
		b := uint32(r.Intn(verifref.NumHash))
		vfPut32(d, cf.HdrLen+4+4*b, rec.Off)
		return d
	}},
	{"namelen", func(r *verifrt.Rand, d []byte, cf *verifref.CounterFile) []byte {
		rec, ok := vfAnyRecord(r, cf)
		if !ok {
			return nil
		}
		vfPut32(d, rec.Off+8, uint32(verifrt.Pick(r, []int{0, 0xff000000, 4097, 0x00ffffff, len(d) - int(rec.Off) - 16, len(d) - int(rec.Off) - 15, -1})))
		return d
	}},
	{"truncate", func(r *verifrt.Rand, d []byte, cf *verifref.CounterFile) []byte {
		n := verifrt.Pick(r, []int{0, 1, 27, 28, 31, 32, 100, int(cf.HdrLen), int(cf.HdrLen) + 4, 16383, 16384, len(d) - 1, len(d) - 16384})
		if n < 0 || n > len(d) {
			n = len(d) / 2
		}
		return d[:n]
	}},
	{"meta-nosep", func(r *verifrt.Rand, d []byte, cf *verifref.CounterFile) []byte {
		copy(d[32:], "NoSeparatorHere\n")
		return d
	}},
	{"meta-bytes", func(r *verifrt.Rand, d []byte, cf *verifref.CounterFile) []byte {
		b := r.Bytes(int(cf.HdrLen) - 32)
		copy(d[32:cf.HdrLen], b)
		return d
	}},
	{"random-flip", func(r *verifrt.Rand, d []byte, cf *verifref.CounterFile) []byte {
		// flips concentrated in header, table and first records
		hi := int(cf.HdrLen) + 4 + 4*verifref.NumHash + 4096
		if hi > len(d) {
			hi = len(d)
		}
		for i, n := 0, 1+r.Intn(8); i < n; i++ {
			d[r.Intn(hi)] ^= byte(1 << uint(r.Intn(8)))
		}
		return d
	}},
	{"random-words", func(r *verifrt.Rand, d []byte, cf *verifref.CounterFile) []byte {
		for i, n := 0, 1+r.Intn(6); i < n; i++ {
			off := uint32(r.Intn(len(d)/4)) * 4
			vfPut32(d, off, uint32(r.Uint64()))
		}
		return d
	}},
}

// vfGenValidFile builds a well-formed file with the reference writer.
func vfGenValidFile(r *verifrt.Rand, maxEntries int) ([]byte, string, []verifref.Entry) {
	n := r.Intn(maxEntries + 1)
	if r.Intn(10) == 0 {
		n = 0
	}
	es := vfGenEntries(r, n)
	meta := vfGenMeta(r)
	d, err := verifref.BuildCounterFile(meta, es)
	if err != nil {
		panic(err)
	}
	return d, meta, es
}

// ---------------------------------------------------------------- C06

func vfParseTickBudget(n int) int64 { return 64*int64(n) + 1_000_000 }

type vfParseOutcome struct {
	f      *File
	err    error
	pv     any
	stack  string
	ticked bool
	ticks  int64
}

func vfMonitoredParse(data0 []byte) vfParseOutcome {
	var o vfParseOutcome
	// The input ends at an inaccessible page, as a mapped counter file does
	// (ReadMapped; file sizes are multiples of the page size): a read beyond
	// the input is a fault, not a silent read of neighbouring memory.
	data, free := verifrt.GuardedCopy(data0)
	defer free()
	verifrt.SetTickBudget(vfParseTickBudget(len(data)))
	o.pv, o.stack = vfGuarded(func() {
		o.f, o.err = Parse("verif.v1.count", data)
		if o.f != nil {
			// (the result must not refer to the input once it is gone)
			for k := range o.f.Count {
				_ = len(k)
			}
		}
	})
	o.ticked = verifrt.TickExceeded()
	o.ticks = verifrt.Ticks()
	verifrt.SetTickBudget(0)
	return o
}

func vfSaveInput(res *verifrt.Result, tag string, data []byte) string {
	dir := filepath.Join(os.Getenv("VERIF_REPLAY_DIR"), "inputs")
	os.MkdirAll(dir, 0o755)
	p := filepath.Join(dir, fmt.Sprintf("%s-%s.bin", tag, verifrt.Hash(data)))
	os.WriteFile(p, data, 0o644)
	return p
}

func vfJudgeTotality(res *verifrt.Result, check string, i int, class string, data []byte, o vfParseOutcome) bool {
	switch {
	case o.ticked:
		sig := "parse.loop:" + strings.SplitN(class, "+", 2)[0]
		if res.NumViolations() < 50 {
			res.Violate(sig, fmt.Sprintf("Parse exceeded the loop-tick budget (%d ticks for %d bytes): unbounded loop on input class %s", o.ticks, len(data), class),
				verifrt.CaseReplay(i, map[string]any{"input": vfSaveInput(res, "C06", data), "class": class}))
		}
		return false
	case o.pv != nil:
		sig := "parse.panic:" + vfTopFrame(o.stack)
		res.Violate(sig, fmt.Sprintf("Parse panicked on input class %s (%d bytes): %v\n%s", class, len(data), o.pv, verifrt.Sprintf("%.1500s", o.stack)),
			verifrt.CaseReplay(i, map[string]any{"input": vfSaveInput(res, "C06", data), "class": class}))
		return false
	case o.f == nil && o.err == nil:
		res.Violate("parse.nil-nil:"+class, "Parse returned neither a result nor an error", verifrt.CaseReplay(i, map[string]any{"class": class}))
		return false
	}
	return true
}

func vfExpectCounts(cf *verifref.CounterFile) map[string]uint64 {
	m := map[string]uint64{}
	for _, rec := range cf.Records {
		m[verifref.ExpandStack(rec.Name)] = rec.Value
	}
	return m
}

func vfDiffCounts(got, want map[string]uint64) string {
	var ds []string
	for k, v := range want {
		if g, ok := got[k]; !ok {
			ds = append(ds, fmt.Sprintf("missing %q", k))
		} else if g != v {
			ds = append(ds, fmt.Sprintf("%q: got %d want %d", k, g, v))
		}
	}
	for k := range got {
		if _, ok := want[k]; !ok {
			ds = append(ds, fmt.Sprintf("extra %q", k))
		}
	}
	sort.Strings(ds)
	if len(ds) > 5 {
		ds = append(ds[:5], fmt.Sprintf("… %d more", len(ds)-5))
	}
	return strings.Join(ds, "; ")
}

func TestVerifC06(t *testing.T) {
	const check = "C06.parse"
	res := verifrt.NewResult(check)
	res.Rule = "inputs = random byte strings, targeted vfDamage classes applied to valid counter files, and well-formed files from the reference writer and from the library's writer; each decoded by counter.Parse under a loop-tick budget and panic/fault guard; well-formed ones compared with the independent decoder. distinct = distinct input hashes; non-trivial = input has the valid prefix and >= 16KiB (reaches the header/bucket walk) "
	nb := 8
	total := verifrt.Scale(24000, 1600000)
	per := total / nb
	verifrt.RunBatches("TestVerifC06", res, nb, 0, 30*time.Minute, "parse.death", func(b int, r *verifrt.Result, cur *verifrt.Current) {
		dir := vfVtmp("c06-")
		defer os.RemoveAll(dir)
		lo, hi := verifrt.CaseRange(check, b, per)
		for i := lo; i < hi; i++ {
			k := i - lo
			rnd := verifrt.NewRand(verifrt.Seed(), fmt.Sprintf("%s/%d", check, i))
			kind := i % 8
			var data []byte
			class := ""
			wellFormed := false
			switch {
			case kind == 0: // random bytes
				n := verifrt.Pick(rnd, []int{0, 1, 27, 28, 32, 100, 4096, 16383, 16384, 16385, 32768, 65536})
				if rnd.Intn(3) == 0 {
					n = rnd.Intn(40000)
				}
				data = rnd.Bytes(n)
				if rnd.Bool() && n >= len(verifref.Prefix) {
					copy(data, verifref.Prefix)
				}
				class = "random"
			case kind == 3 && i%400 == 3:
				// images of 8-12 MiB whose bucket heads / next links lie in the last
				// bytes of the 32-bit range: offset arithmetic done in 32 bits wraps
				// round into the file
				base, _, _ := vfGenValidFile(rnd, 8)
				cf, err := verifref.ParseCounterFile(base)
				if err != nil || len(cf.Records) == 0 {
					continue
				}
				data = make([]byte, (8+rnd.Intn(5))<<20)
				copy(data, base)
				off := uint32(0xffffffff) - uint32(rnd.Intn(64))
				if rnd.Bool() {
					off &^= 7
				}
				tgt := cf.HdrLen + 4 + 4*uint32(rnd.Intn(verifref.NumHash)) // a bucket head
				if rnd.Bool() {
					tgt = cf.Records[rnd.Intn(len(cf.Records))].Off + 12 // a record's next link
				}
				binary.LittleEndian.PutUint32(data[tgt:], off)
				if rnd.Bool() {
					// (and an allocation limit that claims the whole range)
					binary.LittleEndian.PutUint32(data[cf.HdrLen:], 0xffffffe0)
				}
				class = "huge-image-link-near-2^32"
			case kind == 1 || kind == 2: // well-formed
				wellFormed = true
				if kind == 1 && i%97 == 5 {
					// one hash bucket holding more records than a page has record
					// units, than there are buckets, ...: chains of any length are legal
					n := verifrt.Pick(rnd, []int{511, 512, 513, 514, 515, 600, 1025, 1500})
					want := uint32(rnd.Intn(verifref.NumHash))
					var es []verifref.Entry
					for k := 0; len(es) < n; k++ {
						nm := fmt.Sprintf("lc/%d/%d", i, k)
						if verifref.Hash(nm) == want {
							es = append(es, verifref.Entry{Name: nm, Value: uint64(k)})
						}
					}
					var err error
					if data, err = verifref.BuildCounterFile(vfGenMeta(rnd), es); err != nil {
						panic(err)
					}
					class = "wellformed-long-chain"
				} else if kind == 1 && i%5 == 1 {
					// a well-formed file that ends with its last record (written by another
					// implementation of the layout, or trimmed to its allocation limit): a
					// size that is not a multiple of the page size; in half of the cases the
					// last name also fills its record to the last byte
					es := vfGenEntries(rnd, 1+rnd.Intn(verifrt.Pick(rnd, []int{3, 30, 300})))
					if rnd.Bool() {
						n := "last/" + fmt.Sprint(i) + "/"
						for (16+len(n))%32 != 0 {
							n += "x"
						}
						es = append(es, verifref.Entry{Name: n + strings.Repeat("y", 32*rnd.Intn(4)), Value: 7})
					}
					var err error
					if data, err = verifref.BuildCounterFile(vfGenMeta(rnd), es); err != nil {
						panic(err)
					}
					class = "wellformed-ref"
					if cf, err := verifref.ParseCounterFile(data); err == nil && int(cf.Limit) >= verifref.PageSize && int(cf.Limit) <= len(data) {
						data = data[:cf.Limit]
						class = "wellformed-trimmed-to-limit"
					}
				} else if kind == 1 {
					data, _, _ = vfGenValidFile(rnd, verifrt.Pick(rnd, []int{3, 30, 300, 3000}))
					class = "wellformed-ref"
				} else {
					es := vfGenEntries(rnd, rnd.Intn(verifrt.Pick(rnd, []int{3, 30, 300})+1))
					var err error
					data, err = vfWriteWithLibrary(dir, vfGenMeta(rnd), es)
					if err != nil {
						r.Inconc("library writer failed: " + err.Error())
						continue
					}
					class = "wellformed-lib"
				}
			default: // vfDamage
				base, _, _ := vfGenValidFile(rnd, verifrt.Pick(rnd, []int{2, 8, 40}))
				cf, err := verifref.ParseCounterFile(base)
				if err != nil {
					r.Violate("ref-writer-vs-ref-reader", "reference writer output rejected by reference reader: "+err.Error(), verifrt.CaseReplay(i, nil))
					continue
				}
				dm := vfDamages[rnd.Intn(len(vfDamages))]
				data = dm.apply(rnd, base, cf)
				if data == nil {
					continue
				}
				class = "damage:" + dm.class
				if rnd.Intn(4) == 0 { // stack two vfDamages
					if cf2, err := verifref.ParseCounterFile(data); err == nil {
						dm2 := vfDamages[rnd.Intn(len(vfDamages))]
						if d2 := dm2.apply(rnd, data, cf2); d2 != nil {
							data = d2
							class += "+" + dm2.class
						}
					}
				}
			}
			cur.Set(fmt.Sprintf("case %d class %s len %d", i, class, len(data)))
			if _, replay := verifrt.Replaying(); replay {
				fmt.Printf("replaying case %d class %s len %d\n", i, class, len(data))
			}
			r.Eval()
			r.Hit(strings.SplitN(class, "+", 2)[0])
			if len(data) >= verifref.PageSize && strings.HasPrefix(string(data[:28]), verifref.Prefix) {
				r.Distinct(verifrt.Hash(data))
			}
			o := vfMonitoredParse(data)
			if !vfJudgeTotality(r, check, i, class, data, o) {
				continue
			}
			if o.err == nil {
				r.Hit("accepted")
			} else {
				r.Hit("rejected")
			}
			// Faithfulness on every file the strict reference reader accepts.
			cf, rerr := verifref.ParseCounterFile(data)
			if rerr != nil {
				if wellFormed {
					r.Violate("wellformed-rejected-by-ref:"+class, "reference reader rejects a file written by "+class+": "+rerr.Error(), verifrt.CaseReplay(i, map[string]any{"input": vfSaveInput(r, "C06", data)}))
				}
				continue
			}
			r.Hit("ref-accepts")
			if o.err != nil {
				r.Violate("parse.rejects-wellformed:"+class, fmt.Sprintf("Parse rejects a well-formed file (%d records): %v", len(cf.Records), o.err), verifrt.CaseReplay(i, map[string]any{"input": vfSaveInput(r, "C06", data)}))
				continue
			}
			if !reflect.DeepEqual(o.f.Meta, cf.MetaKV) {
				r.Violate("parse.meta-mismatch", fmt.Sprintf("Meta differs: got %q want %q", o.f.Meta, cf.MetaKV), verifrt.CaseReplay(i, map[string]any{"input": vfSaveInput(r, "C06", data)}))
			}
			if d := vfDiffCounts(o.f.Count, vfExpectCounts(cf)); d != "" {
				r.Violate("parse.count-mismatch", "Count differs from the reference decoder: "+d, verifrt.CaseReplay(i, map[string]any{"input": vfSaveInput(r, "C06", data)}))
			}
			r.HitN("records-compared", len(cf.Records))
			if i%4 == 1 {
				// the exported path used by countertest / gotelemetry: ReadFile (mmap based)
				p := vfWriteTemp(dir, "rf.v1.count", data)
				var ctrs, stacks map[string]uint64
				var rerr error
				verifrt.SetTickBudget(vfParseTickBudget(len(data)))
				pv, stack := vfGuarded(func() { ctrs, stacks, rerr = ReadFile(p) })
				over := verifrt.TickExceeded()
				verifrt.SetTickBudget(0)
				switch {
				case over || pv != nil:
					r.Violate("readfile.total", fmt.Sprintf("ReadFile did not return normally on a well-formed file (loop=%v): %v\n%.600s", over, pv, stack), verifrt.CaseReplay(i, map[string]any{"input": vfSaveInput(r, "C06", data)}))
				case rerr != nil:
					r.Violate("readfile.rejects-wellformed", "ReadFile rejects a well-formed file: "+rerr.Error(), verifrt.CaseReplay(i, map[string]any{"input": vfSaveInput(r, "C06", data)}))
				default:
					want := vfExpectCounts(cf)
					got := map[string]uint64{}
					for k, v := range ctrs {
						if strings.Contains(k, "\n") {
							r.Violate("readfile.stack-among-counters", fmt.Sprintf("ReadFile returned the stack counter %q among the plain counters", vfTrunc40(k)), verifrt.CaseReplay(i, nil))
						}
						got[k] = v
					}
					for k, v := range stacks {
						if !strings.Contains(k, "\n") {
							r.Violate("readfile.counter-among-stacks", fmt.Sprintf("ReadFile returned the plain counter %q among the stack counters", vfTrunc40(k)), verifrt.CaseReplay(i, nil))
						}
						got[k] = v
					}
					if d := vfDiffCounts(got, want); d != "" {
						r.Violate("readfile.count-mismatch", "ReadFile differs from the reference decoder: "+d, verifrt.CaseReplay(i, map[string]any{"input": vfSaveInput(r, "C06", data)}))
					}
					r.Hit("readfile-compared")
				}
			}
			if k < 2 && b == 0 {
				r.Sample(map[string]any{"case": i, "class": class, "bytes": len(data), "records": len(cf.Records), "parse_ticks": o.ticks})
			}
		}
	})
	res.Require("readfile-compared", "random", "wellformed-ref", "wellformed-lib", "wellformed-long-chain", "wellformed-trimmed-to-limit", "huge-image-link-near-2^32", "damage:cycle-2", "damage:next-self-stack", "damage:hdrlen-small", "accepted", "rejected", "ref-accepts")
	if err := res.Write(); err != nil {
		t.Fatal(err)
	}
	if res.NumViolations() > 0 {
		t.Errorf("%d violation signatures", res.NumViolations())
	}
}
