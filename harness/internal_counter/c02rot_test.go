//go:build verif

package counter

import (
	"fmt"
	"os"
	"path/filepath"
	"sort"
	"strings"
	"testing"
	"time"

	"golang.org/x/telemetry/internal/telemetry"
	"golang.org/x/telemetry/internal/verifrt"
)

// C02 (running process): "with mode off the counter API creates no counter
// file" also holds for a process that is already running when the mode file
// changes: its weekly rotation consults the mode file, so from the first
// rotation after the switch on no new counter file appears. (Increments into
// the file that is already mapped are not judged: the API reads the mode file
// only when it opens or rotates a file.)

func c02CountFiles() []string {
	ents, _ := os.ReadDir(telemetry.Default.LocalDir())
	var out []string
	for _, e := range ents {
		if strings.HasSuffix(e.Name(), ".count") {
			out = append(out, e.Name())
		}
	}
	sort.Strings(out)
	return out
}

func TestVerifC02Rotate(t *testing.T) {
	const check = "C02.rotate"
	res := verifrt.NewResult(check)
	res.Rule = "a file value opens its counter file with the mode file reading on/local/absent/garbage, increments, then the mode file is rewritten (off with and without date and blanks; or stays) and the clock moves over 1-4 week ends with a rotate1 call (what the rotation timer does) and increments after each. Oracle: once the mode file reads off, no rotation creates a counter file (the set of *.count names is frozen from the switch on); while it does not read off every rotation past the end creates exactly the next file. distinct = (initial mode, switch point, weeks)"
	// C09 on the same runs: once the recorded end of a file has passed and the
	// rotation has run (whether or not it could open the next file), the
	// process's increments no longer land in that file.
	res9 := verifrt.NewResult("C09.rotate")
	res9.Rule = "the runs of C02.rotate (a running process whose clock moves over 1-4 week ends, the mode file possibly switched to off in between, so that the rotation cannot open the next file): after every rotation call past the recorded end, increments of existing and of new counters leave every earlier counter file byte-identical. distinct = (initial mode, switch point, weeks)"
	defer res9.Write()
	n := verifrt.Scale(400, 20000)
	for i := 0; i < n; i++ {
		if !verifrt.WantCase(check, i) {
			continue
		}
		rnd := verifrt.NewRand(verifrt.Seed(), fmt.Sprintf("%s/%d", check, i))
		dir := c09SetDir()
		we := fmt.Sprintf("%d\n", rnd.Intn(7))
		c09Weekends(&we)
		initial := verifrt.Pick(rnd, []string{"on 2020-01-01", "local", "local 2021-05-05", "", "gar\x00bage", "on"})
		modeFile := telemetry.Default.ModeFile()
		if initial != "" {
			os.WriteFile(string(modeFile), []byte(initial), 0o666)
		}
		now := time.Date(2021+rnd.Intn(8), time.Month(1+rnd.Intn(12)), 1+rnd.Intn(28), rnd.Intn(24), rnd.Intn(60), 0, 0, time.UTC)
		CounterTime = func() time.Time { return now }
		weeks := 1 + rnd.Intn(4)
		switchAt := rnd.Intn(weeks + 1) // the mode is switched before rotation number switchAt (== weeks: never)
		offText := verifrt.Pick(rnd, []string{"off", "off 2023-03-03", " off ", "off\n"})
		rp := verifrt.CaseReplay(i, map[string]any{"initial": initial, "off_text": offText, "switch_before_rotation": switchAt, "weeks": weeks, "start": now.Format(time.RFC3339)})
		res.Eval()
		res.Distinct(fmt.Sprintf("%q/%d/%d", initial, switchAt, weeks))
		func() {
			defer os.RemoveAll(dir)
			f := &file{}
			defer func() {
				if m := f.current.Load(); m != nil {
					m.close()
				}
			}()
			expiry := f.rotate1()
			c := &Counter{name: "verif/c02", file: f}
			c.Add(1)
			if len(c02CountFiles()) != 1 || f.current.Load() == nil {
				res.Inconc(fmt.Sprintf("case %d: the first open did not create one counter file (mode %q): %v", i, initial, f.err))
				return
			}
			off := false
			var frozen []string
			for w := 0; w < weeks; w++ {
				if w == switchAt {
					os.WriteFile(string(modeFile), []byte(offText), 0o666)
					off = true
					frozen = c02CountFiles()
					res.Hit("switched-to-off-while-running")
				}
				before := c02CountFiles()
				if expiry.IsZero() {
					now = now.Add(7 * 24 * time.Hour)
				} else {
					now = expiry.Add(time.Duration(rnd.Intn(3)) * time.Hour)
				}
				expiry = f.rotate1()
				old := map[string]string{}
				for _, nm := range before {
					b, _ := os.ReadFile(filepath.Join(telemetry.Default.LocalDir(), nm))
					old[nm] = string(b)
				}
				c.Add(2)
				(&Counter{name: fmt.Sprintf("verif/new%d", w), file: f}).Add(1)
				res9.Eval()
				res9.Distinct(fmt.Sprintf("%q/%d/%d/%d", initial, switchAt, weeks, w))
				for _, nm := range before {
					b, _ := os.ReadFile(filepath.Join(telemetry.Default.LocalDir(), nm))
					if string(b) != old[nm] {
						res9.Violate("increment-landed-in-expired-file", fmt.Sprintf("the recorded end of %s had passed and the rotation had run (mode file %q, rotation %d, error %v), yet the increments made afterwards changed that file", nm, map[bool]string{true: offText, false: initial}[off], w, f.err), rp)
						return
					}
				}
				if off {
					res9.Hit("rotation-could-not-open-next-file")
				} else {
					res9.Hit("rotation-opened-next-file")
				}
				after := c02CountFiles()
				if off {
					if strings.Join(after, "|") != strings.Join(frozen, "|") {
						res.Violate("off-rotation-created-file", fmt.Sprintf("the mode file has read %q since before rotation %d, but rotation %d of the running process created a counter file: before %v, now %v", offText, switchAt, w, frozen, after), rp)
						return
					}
					res.Hit("rotation-with-mode-off")
				} else {
					if len(after) != len(before)+1 {
						res.Violate("rotation-did-not-open-next-file", fmt.Sprintf("mode %q: rotation %d past the end of the week left the counter files at %v (before: %v)", initial, w, after, before), rp)
						return
					}
					res.Hit("rotation-with-mode-not-off")
				}
			}
		}()
		if i < 2 {
			res.Sample(map[string]any{"case": i, "initial": initial, "switch_before_rotation": switchAt, "weeks": weeks})
		}
	}
	res.Require("switched-to-off-while-running", "rotation-with-mode-off", "rotation-with-mode-not-off")
	res9.Require("rotation-could-not-open-next-file", "rotation-opened-next-file")
	if err := res.Write(); err != nil {
		t.Fatal(err)
	}
}

var _ = filepath.Join
