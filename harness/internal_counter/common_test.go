//go:build verif

package counter

import (
	"fmt"
	"os"
	"path/filepath"
	"runtime/debug"
	"strings"

	"golang.org/x/telemetry/internal/verifref"
	"golang.org/x/telemetry/internal/verifrt"
)

var _ = verifref.Hash

func vfVtmp(prefix string) string {
	base := os.Getenv("VERIF_TMP")
	if base == "" {
		base = os.TempDir()
	}
	d, err := os.MkdirTemp(base, prefix)
	if err != nil {
		panic(err)
	}
	return d
}

// vfGuarded runs fn and reports a panic (with stack) instead of propagating it.
func vfGuarded(fn func()) (pv any, stack string) {
	defer func() {
		if r := recover(); r != nil {
			pv = r
			stack = string(debug.Stack())
		}
	}()
	debug.SetPanicOnFault(true)
	fn()
	return nil, ""
}

// vfTopFrame extracts the innermost frame of the code under test from a stack,
// for signatures.
func vfTopFrame(stack string) string {
	lines := strings.Split(stack, "\n")
	for i, l := range lines {
		if strings.Contains(l, "verifrt") || strings.HasPrefix(l, "runtime") || strings.HasPrefix(l, "panic(") {
			continue
		}
		if strings.HasPrefix(l, "golang.org/x/telemetry/") && i+1 < len(lines) && !strings.Contains(lines[i+1], "zz_verif_") {
			fn := l
			if j := strings.Index(fn, "("); j > 0 {
				// keep method receivers: find last '(' that starts the arg list
				fn = fn[:strings.LastIndex(fn, "(")]
			}
			fn = strings.TrimPrefix(fn, "golang.org/x/telemetry/")
			return fn
		}
	}
	return "?"
}

// vfExitFrame names the function that ended the (virtual) process through
// debugFatalf -> os.Exit: the first telemetry frame below debugFatalf.
func vfExitFrame(stack string) string {
	if i := strings.Index(stack, "debugFatalf("); i >= 0 {
		rest := stack[i:]
		if j := strings.Index(rest, "\n"); j >= 0 {
			rest = rest[j+1:]
			if k := strings.Index(rest, "\n"); k >= 0 {
				return vfTopFrame(rest[k+1:])
			}
		}
	}
	return vfTopFrame(stack)
}

// vfTrapExit makes a "counter bug" exit (debugFatalf with CrashOnBugs, as the go
// command's tests and GODEBUG=countertrace=1 run it) end only the calling
// virtual process, with a panic the judges recognise.
func vfTrapExit() {
	CrashOnBugs = true
	verifrt.ExitHook = func(code int) { panic(verifrt.ExitPanic{Code: code}) }
}

func vfStackMeta(i int) string {
	return fmt.Sprintf("TimeBegin: 2024-01-0%dT00:00:00Z\nTimeEnd: 2024-01-0%dT00:00:00Z\nProgram: example.com/p%d\nVersion: v1.%d.0\nGoVersion: go1.22.%d\nGOOS: linux\nGOARCH: amd64\n\n", 1+i%7, 2+i%7, i, i, i)
}

func vfWriteTemp(dir, name string, data []byte) string {
	p := filepath.Join(dir, name)
	if err := os.WriteFile(p, data, 0o644); err != nil {
		panic(err)
	}
	return p
}

var _ = verifrt.Seed
