//go:build verif

package main

import (
	"bytes"
	"crypto/sha256"
	"encoding/hex"
	"fmt"
	"os"
	"os/exec"
	"path/filepath"
	"sort"
	"strings"
	"testing"
	"time"

	"golang.org/x/telemetry/internal/verifrt"
)

// C19: gotelemetry mode commands and clean touch exactly what they promise.
// The command is run as a real subprocess (this test binary re-executed into
// main()) with the user configuration directory redirected.

func TestVerifC19Child(t *testing.T) {
	args := os.Getenv("VERIF_GT_ARGS")
	if args == "" {
		return
	}
	os.Args = append([]string{"gotelemetry"}, strings.Fields(args)...)
	main()
	os.Exit(0)
}

type c19ent struct {
	Dir     bool
	Link    string
	Sum     string
	Size    int64
	ModNano int64
}

func c19snap(root string) map[string]c19ent {
	m := map[string]c19ent{}
	filepath.Walk(root, func(p string, info os.FileInfo, err error) error {
		if err != nil || p == root {
			return nil
		}
		rel, _ := filepath.Rel(root, p)
		e := c19ent{Dir: info.IsDir(), Size: info.Size(), ModNano: info.ModTime().UnixNano()}
		if info.Mode()&os.ModeSymlink != 0 {
			e.Link, _ = os.Readlink(p)
		} else if info.Mode().IsRegular() {
			b, _ := os.ReadFile(p)
			h := sha256.Sum256(b)
			e.Sum = hex.EncodeToString(h[:8])
		}
		m[rel] = e
		return nil
	})
	return m
}

// c19TZ is the time zone the command runs in; the recorded date must be the
// UTC date whatever the user's zone is.
var c19TZ = ""

// c19Trace, when set, names the file the next runGT writes an strace -f trace to.
var c19Trace = ""

// c19NoHome, when set, makes the next runGT run the command without HOME and
// XDG_CONFIG_HOME (no user configuration directory can be determined), in
// the working directory it names.
var c19NoHome = ""

func runGT(cfgHome string, args string) (string, string, error) {
	cmd := exec.Command(os.Args[0], "-test.run=^TestVerifC19Child$")
	if c19Trace != "" {
		cmd = verifrt.StraceCommand(c19Trace, os.Args[0], "-test.run=^TestVerifC19Child$")
		c19Trace = ""
	}
	env := []string{}
	for _, e := range os.Environ() {
		if strings.HasPrefix(e, "XDG_CONFIG_HOME=") || strings.HasPrefix(e, "HOME=") || strings.HasPrefix(e, "VERIF_GT_ARGS=") || strings.HasPrefix(e, "TZ=") {
			continue
		}
		env = append(env, e)
	}
	cmd.Env = append(env, "XDG_CONFIG_HOME="+cfgHome, "HOME="+cfgHome, "VERIF_GT_ARGS="+args)
	if c19NoHome != "" {
		cmd.Env = append(env, "VERIF_GT_ARGS="+args)
		cmd.Dir = c19NoHome
		c19NoHome = ""
	}
	if c19TZ != "" {
		cmd.Env = append(cmd.Env, "TZ="+c19TZ)
	}
	var out, errb bytes.Buffer
	cmd.Stdout = &out
	cmd.Stderr = &errb
	err := cmd.Run()
	return out.String(), errb.String(), err
}

var dataNames = []string{"gopls@v0.14.0-go1.21.5-linux-amd64-2024-01-01.v1.count", "a.v1.count", ".v1.count", "go-go1.22.1-go1.22.1-linux-amd64-2024-01-02.v1.count", "x y.v1.count"}
var reportNames = []string{"2024-01-07.json", "local.2024-01-07.json", "a.json", ".json", "weird name.json", "2023-12-31.json"}
var nearMisses = []string{"x.v1.count.bak", "x.v2.count", "x.count", "v1.count", "json", "a.jsonx", "x.json.lock", "weekends", "upload.token", ".hidden", "notes.txt", "a.JSON", "b.v1.COUNT", "2024-01-07.json.tmp", "local.2024-01-07.json~"}

// isData reports whether name is a counter file or a report by the documented patterns.
func isLocalData(name string) bool {
	return strings.HasSuffix(name, ".v1.count") || strings.HasSuffix(name, ".json")
}
func isUploadData(name string) bool { return strings.HasSuffix(name, ".json") }

func TestVerifC19(t *testing.T) {
	const check = "C19.cli"
	res := verifrt.NewResult(check)
	res.Rule = "generated telemetry directories (local/ and upload/ with counter files and reports by the exact patterns, near-misses (.bak, .v2.count, .jsonx, .json.lock, weekends, upload.token, dot files, upper case), sub-directories with plain and with data-like names (empty and non-empty), symlinks, foreign top-level files, missing local/upload, every mode-file state) x command sequences of length 1-6 over {on, local, off, clean, env} run as real subprocesses. Oracle by snapshot diff: after clean no regular file matching the data patterns remains in local/ and upload/ and every other path is byte-identical; on|local|off change at most the mode file, leave it byte- and mtime-identical when the mode already reads as requested, otherwise env and a library read report the requested mode with today's UTC date. distinct = (tree, command) pairs; non-trivial = tree has data files and near-misses; every other invocation also runs under strace -f and its successful creating/removing/changing system calls on paths that existed beforehand must target only what the command may change (clean: counter files and reports; on/local/off: the mode file, and not at all when the mode is already set; env: nothing)"
	base, _ := os.MkdirTemp(os.Getenv("VERIF_TMP"), "c19-")
	defer os.RemoveAll(base)
	n := verifrt.Scale(140, 5000)
	for i := 0; i < n; i++ {
		if !verifrt.WantCase(check, i) {
			continue
		}
		rnd := verifrt.NewRand(verifrt.Seed(), fmt.Sprintf("%s/%d", check, i))
		home, _ := os.MkdirTemp(base, "h")
		if rnd.Intn(3) == 0 {
			// the user's configuration directory has an unusual but ordinary name
			// (what the commands do must not depend on it)
			home = filepath.Join(home, verifrt.Pick(rnd, []string{"config [work]", "conf[0-9]", "back\\slash", "st*r", "qu?stion", "sp ace", "ünï", "{a,b}", "%41", "-dash", "a'b"}))
			os.MkdirAll(home, 0o777)
			res.Hit("unusual-config-dir-name")
		}
		tdir := filepath.Join(home, "go", "telemetry")
		os.MkdirAll(tdir, 0o777)
		local, upload := filepath.Join(tdir, "local"), filepath.Join(tdir, "upload")
		mk := func(dir string, names []string, p float64) {
			for _, nm := range names {
				if rnd.Prob(p) {
					os.WriteFile(filepath.Join(dir, nm), rnd.Bytes(1+rnd.Intn(64)), 0o644)
				}
			}
		}
		if rnd.Intn(8) != 0 {
			os.MkdirAll(local, 0o777)
			mk(local, dataNames, 0.6)
			mk(local, reportNames, 0.6)
			mk(local, nearMisses, 0.5)
			if rnd.Bool() {
				os.MkdirAll(filepath.Join(local, "debug"), 0o777)
				os.WriteFile(filepath.Join(local, "debug", "x.json"), []byte("{}"), 0o644)
			}
			if rnd.Intn(3) == 0 { // data-like directory names: their own fate is a don't-care
				d := filepath.Join(local, verifrt.Pick(rnd, []string{"archive.json", "0dir.v1.count", "2024-01-01.json"}))
				os.MkdirAll(d, 0o777)
				if rnd.Bool() {
					os.WriteFile(filepath.Join(d, "inner.txt"), []byte("keep"), 0o644)
				}
			}
			if rnd.Intn(3) == 0 {
				os.WriteFile(filepath.Join(home, "outside.txt"), []byte("outside"), 0o644)
				os.Symlink(filepath.Join(home, "outside.txt"), filepath.Join(local, "link.json"))
				if rnd.Bool() {
					os.Symlink("../../../outside.txt", filepath.Join(local, "rel.v1.count")) // relative
				}
				if rnd.Bool() {
					os.Symlink(filepath.Join(home, "nowhere"), filepath.Join(local, "dangling.json"))
				}
			}
		}
		if rnd.Intn(6) != 0 {
			os.MkdirAll(upload, 0o777)
			mk(upload, reportNames, 0.6)
			mk(upload, nearMisses, 0.4)
			mk(upload, dataNames[:2], 0.3) // counter files do not belong here: not promised to be removed
			if rnd.Intn(4) == 0 {
				d := filepath.Join(upload, "2023-12-01.json")
				os.MkdirAll(d, 0o777)
				os.WriteFile(filepath.Join(d, "inner"), []byte("x"), 0o644)
			}
		}
		mk(tdir, []string{"foreign.txt", "x.json", "y.v1.count"}, 0.4)
		// neighbours of the mode file with names a careless implementation might use as scratch files
		mk(tdir, []string{"mode.tmp", "mode~", "mode.bak", ".mode.tmp", "mode.lock", "mode.new", "mode.old", "mode.json"}, 0.25)
		switch rnd.Intn(10) {
		case 0: // missing
		case 1:
			os.WriteFile(filepath.Join(tdir, "mode"), []byte("ON"), 0o644)
		case 2:
			os.WriteFile(filepath.Join(tdir, "mode"), []byte(" on "), 0o644)
		case 3:
			os.WriteFile(filepath.Join(tdir, "mode"), []byte("local 2021-02-03"), 0o644)
		case 4:
			os.WriteFile(filepath.Join(tdir, "mode"), []byte("garbage \x00\xff and a long tail to be overwritten................"), 0o644)
		case 5:
			os.WriteFile(filepath.Join(tdir, "mode"), []byte("off 2020-02-29"), 0o644)
		default:
			os.WriteFile(filepath.Join(tdir, "mode"), []byte(verifrt.Pick(rnd, []string{"on", "off", "local"})+verifrt.Pick(rnd, []string{"", " 2023-04-05", " 2019-12-31"})), 0o644)
		}
		// UTC+14 and UTC-11: at any instant at least one of them has a calendar
		// date different from UTC's
		c19TZ = verifrt.Pick(rnd, []string{"", "Pacific/Kiritimati", "Pacific/Pago_Pago", "Asia/Kolkata"})
		if _, err := os.Stat("/usr/share/zoneinfo/" + c19TZ); c19TZ != "" && err != nil {
			c19TZ = ""
		}
		if c19TZ != "" {
			if loc, err := time.LoadLocation(c19TZ); err == nil && time.Now().In(loc).Format("2006-01-02") != time.Now().UTC().Format("2006-01-02") {
				res.Hit("zone-with-other-date")
			}
		}
		ncmd := 1 + rnd.Intn(6)
		for k := 0; k < ncmd; k++ {
			cmd := verifrt.Pick(rnd, []string{"on", "local", "off", "clean", "clean", "env"})
			res.Eval()
			before := c19snap(home)
			modeBefore, _ := os.ReadFile(filepath.Join(tdir, "mode"))
			t0 := time.Now().UTC()
			trace := ""
			if (i+k)%2 == 0 {
				trace = filepath.Join(base, fmt.Sprintf("trace-%d-%d.txt", i, k))
				c19Trace = trace
			}
			out, errOut, err := runGT(home, cmd)
			t1 := time.Now().UTC()
			after := c19snap(home)
			rp := verifrt.CaseReplay(i, map[string]any{"cmd": cmd, "step": k, "mode_before": string(modeBefore), "stderr": fmt.Sprintf("%.300s", errOut)})
			res.Distinct(fmt.Sprintf("%d/%d/%s", i, k, cmd))
			res.Hit("cmd:" + cmd)
			_ = err
			var changed []string
			for p, a := range after {
				if b, ok := before[p]; !ok || b.Sum != a.Sum || b.Dir != a.Dir || b.Link != a.Link {
					changed = append(changed, p)
				}
			}
			for p := range before {
				if _, ok := after[p]; !ok {
					changed = append(changed, p+" (removed)")
				}
			}
			sort.Strings(changed)
			modeRel := filepath.Join("go", "telemetry", "mode")
			if trace != "" {
				// second witness: system calls of the command on paths that
				// existed before it ran (what it may touch depends on the command)
				evs, terr := verifrt.ParseStrace(trace)
				os.Remove(trace)
				if terr != nil || len(evs) == 0 {
					res.Inconc(fmt.Sprintf("no strace witness for case %d step %d: %v", i, k, terr))
				} else {
					res.Hit("strace-witness")
					wasMode, _ := parseModeC19(modeBefore)
					if _, ok := before[modeRel]; !ok {
						wasMode = "local"
					}
					for _, ev := range evs {
						mut := ev.Mutation()
						if mut == "" || mut == "open-create" {
							continue // creating a new name is judged by the snapshots
						}
						for _, p := range ev.Paths {
							rel, err := filepath.Rel(home, p)
							if err != nil || strings.HasPrefix(rel, "..") {
								continue
							}
							b, existed := before[rel]
							if !existed {
								continue
							}
							dir, name := filepath.Split(rel)
							dir = filepath.Clean(dir)
							isData := dir == filepath.Join("go", "telemetry", "local") && isLocalData(name) || dir == filepath.Join("go", "telemetry", "upload") && isUploadData(name)
							allowed := false
							switch cmd {
							case "clean":
								allowed = isData
							case "env":
							default:
								allowed = rel == modeRel && wasMode != cmd
							}
							if b.Dir && (mut == "mkdir" || mut == "mkdirat") {
								allowed = true
							}
							if !allowed {
								res.Violate("touched-other:syscall:"+cmd, fmt.Sprintf("%s made the system call %s(%.300s) = %d on %s, which it has no business changing (mode before %q)", cmd, ev.Name, ev.Args, ev.Ret, rel, modeBefore), rp2(i, cmd, k))
							} else {
								res.Hit("syscall-on-permitted-target:" + cmd)
							}
						}
					}
				}
			}
			switch cmd {
			case "clean":
				for p, e := range after {
					dir, name := filepath.Split(p)
					dir = filepath.Clean(dir)
					if e.Dir {
						continue
					}
					// (a symbolic link carrying a data-file name is a data file for every
					// reader - uploader, view, dump follow it - so the link goes, its target stays)
					if e.Link != "" {
						res.Hit("data-named-symlink-judged")
					}
					if dir == filepath.Join("go", "telemetry", "local") && isLocalData(name) || dir == filepath.Join("go", "telemetry", "upload") && isUploadData(name) {
						res.Violate("clean-left-data", fmt.Sprintf("after clean the data file %s is still there (stderr: %.200s)", p, errOut), rp)
					}
				}
				for _, p := range changed {
					q := strings.TrimSuffix(p, " (removed)")
					dir, name := filepath.Split(q)
					dir = filepath.Clean(dir)
					b := before[q]
					okToRemove := strings.HasSuffix(p, " (removed)") &&
						(dir == filepath.Join("go", "telemetry", "local") && isLocalData(name) || dir == filepath.Join("go", "telemetry", "upload") && isUploadData(name))
					if okToRemove && (b.Dir || b.Link != "") {
						res.Hit("dont-care:data-named-dir-or-link-removed")
					}
					if !okToRemove {
						// removal of an inner file of a data-named directory cannot happen (Remove is not recursive)
						res.Violate("clean-touched-other", fmt.Sprintf("clean changed %s, which is neither a counter file nor a report", p), rp)
					}
				}
				res.Hit("clean-checked")
			case "env":
				if len(changed) > 0 {
					res.Violate("env-changed-files", fmt.Sprintf("env changed %v", changed), rp)
				}
			default:
				for _, p := range changed {
					if strings.TrimSuffix(p, " (removed)") != modeRel {
						res.Violate("mode-cmd-touched-other", fmt.Sprintf("%s changed %s", cmd, p), rp)
					}
				}
				wasMode, _ := parseModeC19(modeBefore)
				if _, ok := before[modeRel]; !ok {
					wasMode = "local" // no mode file: the documented default
					res.Hit("mode-file-missing")
				}
				if wasMode == cmd {
					res.Hit("mode-already-set")
					if a, b := after[modeRel], before[modeRel]; a != b {
						res.Violate("mode-rewritten", fmt.Sprintf("mode was already %q (file %q) but %s rewrote the mode file", wasMode, modeBefore, cmd), rp)
					}
				} else {
					res.Hit("mode-changed")
					if len(modeBefore) > 20 {
						res.Hit("mode-shrinks")
					}
					eo, _, _ := runGT(home, "env")
					d0, d1 := t0.Format("2006-01-02"), t1.Format("2006-01-02")
					ok := false
					for _, d := range []string{d0, d1} {
						if strings.Contains(eo, fmt.Sprintf("mode: %s %s 00:00:00 +0000 UTC", cmd, d)) {
							ok = true
						}
					}
					if !ok {
						mb, _ := os.ReadFile(filepath.Join(tdir, "mode"))
						res.Violate("mode-not-recorded", fmt.Sprintf("after %q (mode file was %q) env reports %q; mode file now %q; want mode %s with today's date %s", cmd, modeBefore, firstLine(eo), mb, cmd, d0), rp)
					}
					mb, _ := os.ReadFile(filepath.Join(tdir, "mode"))
					if m, d := parseModeC19(mb); m != cmd || (d != d0 && d != d1) {
						res.Violate("mode-file-content", fmt.Sprintf("after %q the mode file holds %q", cmd, mb), rp)
					}
				}
			}
			_ = out
		}
		if i%2 == 0 {
			// no configuration directory at all (HOME and XDG_CONFIG_HOME unset: cron,
			// env -i, a stripped container): the commands have nothing to work on, and
			// what happens to lie in the working directory is none of their business
			wd := filepath.Join(home, "workdir")
			for _, sub := range []string{"local", "upload", "go/telemetry/local", "go/telemetry/upload"} {
				os.MkdirAll(filepath.Join(wd, sub), 0o777)
				mk(filepath.Join(wd, sub), dataNames, 0.6)
				mk(filepath.Join(wd, sub), reportNames, 0.6)
			}
			os.WriteFile(filepath.Join(wd, "mode"), []byte("local 2023-01-01"), 0o644)
			os.WriteFile(filepath.Join(wd, "go/telemetry/mode"), []byte("local 2023-01-01"), 0o644)
			for _, c := range []string{"clean", "on", "off", "local", "env", "clean"} {
				before := c19snap(wd)
				c19NoHome = wd
				runGT(home, c)
				after := c19snap(wd)
				res.Hit("no-config-dir:" + c)
				for pth, b := range before {
					if a, ok := after[pth]; !ok || a != b {
						res.Violate("no-config-dir-touched-workdir:"+c, fmt.Sprintf("%q run without HOME/XDG_CONFIG_HOME changed %s in its working directory (before %+v, after %+v present=%v)", c, pth, b, a, ok), verifrt.CaseReplay(i, map[string]any{"cmd": c}))
						break
					}
				}
				for pth := range after {
					if _, ok := before[pth]; !ok {
						res.Violate("no-config-dir-touched-workdir:"+c, fmt.Sprintf("%q run without HOME/XDG_CONFIG_HOME created %s in its working directory", c, pth), verifrt.CaseReplay(i, map[string]any{"cmd": c}))
						break
					}
				}
			}
		}
		if i < 2 {
			var paths []string
			for p := range c19snap(home) {
				paths = append(paths, p)
			}
			sort.Strings(paths)
			if len(paths) > 25 {
				paths = paths[:25]
			}
			res.Sample(map[string]any{"case": i, "tree_after": paths})
		}
		os.RemoveAll(home)
	}
	res.Require("no-config-dir:clean", "no-config-dir:on", "unusual-config-dir-name", "strace-witness", "syscall-on-permitted-target:clean", "syscall-on-permitted-target:on", "clean-checked", "mode-already-set", "mode-changed", "mode-shrinks", "cmd:env")
	if _, err := os.Stat("/usr/share/zoneinfo/Pacific/Kiritimati"); err == nil {
		res.Require("zone-with-other-date")
	}
	if err := res.Write(); err != nil {
		t.Fatal(err)
	}
}

func rp2(i int, cmd string, k int) map[string]any {
	return verifrt.CaseReplay(i, map[string]any{"cmd": cmd, "step": k})
}

func firstLine(s string) string {
	if i := strings.Index(s, "\n"); i >= 0 {
		return s[:i]
	}
	return s
}

// parseModeC19 is the documented reading of the mode file (mode, date string).
func parseModeC19(b []byte) (string, string) {
	m := strings.TrimSpace(string(b))
	if i := strings.Index(m, " "); i >= 0 {
		d := m[i+1:]
		if _, err := time.Parse("2006-01-02", d); err != nil {
			d = ""
		}
		return m[:i], d
	}
	return m, ""
}
