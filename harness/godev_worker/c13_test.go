//go:build verif

package main

import (
	"bytes"
	"context"
	"encoding/json"
	"fmt"
	"io"
	"math"
	"net/http"
	"net/http/httptest"
	"os"
	"path/filepath"
	"sort"
	"strconv"
	"strings"
	"sync"
	"sync/atomic"
	"syscall"
	"testing"

	"golang.org/x/telemetry/godev/internal/storage"
	tconfig "golang.org/x/telemetry/internal/config"
	"golang.org/x/telemetry/internal/verifref"
	"golang.org/x/telemetry/internal/verifrt"
)

// C13: merging and charting count every stored report exactly once.

func vtmp(prefix string) string {
	base := os.Getenv("VERIF_TMP")
	if base == "" {
		base = os.TempDir()
	}
	d, err := os.MkdirTemp(base, prefix)
	if err != nil {
		panic(err)
	}
	return d
}

type wprog struct {
	Program, Version, GoVersion, GOOS, GOARCH string
	Counters, Stacks                          map[string]int64
}

type wreport struct {
	Week     string
	LastWeek string
	X        float64
	Programs []*wprog
	Config   string
	// alt: stored under another spelling of its X (an object written by another
	// tool, or by a version that formatted X differently): a second stored report
	// with the X, and so the ID, of an earlier one of the same day
	alt bool
}

var c13Cfg = &verifref.UploadConfig{
	GOOS: []string{"linux", "darwin", "windows"}, GOARCH: []string{"amd64", "arm64"}, GoVersion: []string{"go1.21.5", "go1.21.6", "go1.22.1", "go1.22.10", "go1.23rc1", "go1.9.2rc2", "go1.10beta2" /* (release candidates of patch releases exist: go1.9.2rc2) */}, SampleRate: 1,
	Programs: []*verifref.ProgramConfig{
		{Name: "golang.org/x/tools/gopls", Versions: []string{"v0.14.0", "v0.15.1-pre.1", "v1.2.3", "v1.2.30", "v1.2", "v1.2.0", "v1.2.3+meta"},
			Counters: []verifref.CounterConfig{{Name: "editor/opens", Rate: 1}, {Name: "flag:{v,x,json}", Rate: 1}, {Name: "gopls/client:{vscode,vim,other}", Rate: 1}}},
		{Name: "cmd/go", Versions: []string{"go1.21.5", "go1.22.1"}, Counters: []verifref.CounterConfig{{Name: "go/cmd:{build,test,mod-tidy}", Rate: 1}, {Name: "go/goroot", Rate: 1}}},
		{Name: "example.com/unused", Versions: []string{"v1.0.0"}, Counters: []verifref.CounterConfig{{Name: "never:{a,b}", Rate: 1}}},
	},
}

func genWReport(r *verifrt.Rand, week string, xs []float64) *wreport {
	rep := &wreport{Week: week, Config: "v1.2.3", X: r.Float() + 1e-12}
	if len(xs) > 0 && r.Intn(5) == 0 {
		rep.X = xs[r.Intn(len(xs))] // duplicate report ID
	} else if len(xs) > 0 && r.Intn(6) == 0 {
		// a different report ID that differs from an earlier one only in the last
		// bits of the float64 (equal in any narrower representation)
		x := xs[r.Intn(len(xs))]
		rep.X = math.Float64frombits(math.Float64bits(x) + uint64(1+r.Intn(1<<uint(1+r.Intn(28)))))
	}
	np := r.Intn(4)
	for i := 0; i < np; i++ {
		pc := c13Cfg.Programs[r.Intn(2)]
		p := &wprog{Program: pc.Name, Version: verifrt.Pick(r, pc.Versions), GoVersion: verifrt.Pick(r, c13Cfg.GoVersion), GOOS: verifrt.Pick(r, c13Cfg.GOOS), GOARCH: verifrt.Pick(r, c13Cfg.GOARCH),
			Counters: map[string]int64{}, Stacks: map[string]int64{}}
		for _, cc := range pc.Counters {
			for _, e := range verifref.ExpandBuckets(cc.Name) {
				if r.Intn(3) == 0 {
					p.Counters[e] = int64(r.Intn(50)) // 0 is a legitimate value: presence counts
				}
			}
		}
		rep.Programs = append(rep.Programs, p)
	}
	switch r.Intn(12) {
	case 0: // a big report: just under the 100 KiB upload limit
		if len(rep.Programs) == 0 {
			rep.Programs = append(rep.Programs, &wprog{Program: "cmd/go", Version: "go1.22.1", GoVersion: "go1.22.1", GOOS: "linux", GOARCH: "amd64", Counters: map[string]int64{"go/goroot": 1}, Stacks: map[string]int64{}})
		}
		p := rep.Programs[0]
		size := 66000 + r.Intn(30000)
		for k := 0; size > 0; k++ {
			name := fmt.Sprintf("crash/crash\nruntime.f%d:+1,+0x%x\n", k, k) + strings.Repeat("x", 800)
			p.Stacks[name] = 1
			size -= len(name) + 10
		}
	case 1:
		rep.LastWeek = strings.Repeat("w", 20000+r.Intn(40000))
	}
	return rep
}

type wenv struct {
	root    string
	buckets *storage.API
	srv     *httptest.Server
	ucfg    *tconfig.Config
}

func newWenv(base string, commit ...bool) *wenv {
	root, _ := os.MkdirTemp(base, "w")
	ctx := context.Background()
	mk := func(n string) storage.BucketHandle {
		b, err := storage.NewFSBucket(ctx, root, n)
		if err != nil {
			panic(err)
		}
		return b
	}
	e := &wenv{root: root, buckets: &storage.API{Upload: mk("uploaded"), Merge: mk("merged"), Chart: mk("charted")}}
	if len(commit) > 0 && commit[0] {
		e.buckets.Merge = &commitBucket{BucketHandle: e.buckets.Merge}
		e.buckets.Chart = &commitBucket{BucketHandle: e.buckets.Chart}
	}
	cfgPath := filepath.Join(root, "config.json")
	b, _ := json.Marshal(c13Cfg)
	os.WriteFile(cfgPath, b, 0o644)
	ucfg, err := tconfig.ReadConfig(cfgPath)
	if err != nil {
		panic(err)
	}
	e.ucfg = ucfg
	mux := http.NewServeMux()
	mux.Handle("/merge/", handleMerge(e.buckets))
	mux.Handle("/chart/", handleChart(ucfg, e.buckets))
	e.srv = verifrt.NewHTTPServer(mux)
	return e
}

// commitBucket gives a file-system bucket the commit semantics of an object
// store: what is written becomes the object when the writer is closed, and
// that close can fail (failNext closes do), in which case nothing is stored.
type commitBucket struct {
	storage.BucketHandle
	failNext atomic.Int32
}

func (b *commitBucket) Object(name string) storage.ObjectHandle {
	return &commitObject{ObjectHandle: b.BucketHandle.Object(name), b: b}
}

type commitObject struct {
	storage.ObjectHandle
	b *commitBucket
}

func (o *commitObject) NewWriter(ctx context.Context) (io.WriteCloser, error) {
	return &commitWriter{o: o, ctx: ctx}, nil
}

type commitWriter struct {
	o      *commitObject
	ctx    context.Context
	buf    bytes.Buffer
	closed bool
}

func (w *commitWriter) Write(p []byte) (int, error) {
	if w.closed {
		return 0, os.ErrClosed
	}
	return w.buf.Write(p)
}

func (w *commitWriter) Close() error {
	if w.closed {
		return os.ErrClosed
	}
	w.closed = true
	if w.o.b.failNext.Load() > 0 {
		w.o.b.failNext.Add(-1)
		return fmt.Errorf("verif: injected failure committing the object (nothing stored)")
	}
	iw, err := w.o.ObjectHandle.NewWriter(w.ctx)
	if err != nil {
		return err
	}
	if _, err := iw.Write(w.buf.Bytes()); err != nil {
		iw.Close()
		return err
	}
	return iw.Close()
}

// commitFaults: the merge and the chart of one day each meet a failing commit
// once. A request that is answered 200 has produced its object; after a
// failure the same request, repeated, succeeds.
func commitFaults(res *verifrt.Result, e *wenv, ds string, stored []*wreport, rp map[string]any) bool {
	mb := e.buckets.Merge.(*commitBucket)
	cb := e.buckets.Chart.(*commitBucket)
	mb.failNext.Store(1)
	st, body := e.get("/merge/?date=" + ds)
	mb.failNext.Store(0)
	res.Hit("merge-commit-fails")
	if st == 200 {
		if _, err := os.Stat(filepath.Join(e.root, "merged", ds+".json")); err != nil {
			res.Violate("merge-acknowledged-without-object", fmt.Sprintf("merge of %s answered 200 (%.100s) although committing the merged object failed: %v", ds, body, err), rp)
			return false
		}
	}
	if !mergeAndJudge(res, e, ds, stored, rp) {
		return false
	}
	cb.failNext.Store(1)
	st, body = e.get("/chart/?date=" + ds)
	cb.failNext.Store(0)
	res.Hit("chart-commit-fails")
	if st == 200 {
		if _, err := os.Stat(filepath.Join(e.root, "charted", ds+".json")); err != nil {
			res.Violate("chart-acknowledged-without-object", fmt.Sprintf("chart of %s answered 200 (%.100s) although committing the chart object failed: %v", ds, body, err), rp)
			return false
		}
	}
	os.Remove(filepath.Join(e.root, "charted", ds+".json"))
	return true
}

func (e *wenv) get(path string) (int, string) {
	resp, err := http.Get(e.srv.URL + path)
	if err != nil {
		return 0, err.Error()
	}
	defer resp.Body.Close()
	b, _ := io.ReadAll(io.LimitReader(resp.Body, 4000))
	return resp.StatusCode, string(b)
}

func (e *wenv) close() { e.srv.Close(); os.RemoveAll(e.root) }

func (e *wenv) store(rep *wreport) {
	ctx := context.Background()
	w, err := e.buckets.Upload.Object(rep.objName()).NewWriter(ctx)
	if err != nil {
		panic(err)
	}
	json.NewEncoder(w).Encode(rep)
	w.Close()
}

func (rep *wreport) objName() string {
	if rep.alt {
		return rep.Week + "/" + strconv.FormatFloat(rep.X, 'e', -1, 64) + ".json"
	}
	return fmt.Sprintf("%s/%g.json", rep.Week, rep.X)
}

func dayStr(d int64) string { return verifref.DateString(d) }

// expectedCharts computes (program|chart|bucket) -> number of distinct report IDs.
func expectedCharts(reps []*wreport) map[string]int {
	type key struct{ p, c, b string }
	ids := map[key]map[float64]bool{}
	add := func(p, c, b string, x float64) {
		k := key{p, c, b}
		if ids[k] == nil {
			ids[k] = map[float64]bool{}
		}
		ids[k][x] = true
	}
	gomm := func(v string) string { // go1.22.10 -> go1.22 ; go1.23rc1 -> go1.23
		s := strings.TrimPrefix(v, "go")
		parts := strings.SplitN(s, ".", 3)
		if len(parts) < 2 {
			return ""
		}
		min := parts[1]
		for i, ch := range min {
			if ch < '0' || ch > '9' {
				min = min[:i]
				break
			}
		}
		return "go" + parts[0] + "." + min
	}
	for _, r := range reps {
		for _, p := range r.Programs {
			add(p.Program, "Version", p.Version, r.X)
			add(p.Program, "GOOS", p.GOOS, r.X)
			add(p.Program, "GOARCH", p.GOARCH, r.X)
			add(p.Program, "GoVersion", gomm(p.GoVersion), r.X)
			for c := range p.Counters {
				chart, bucket := c, c
				if i := strings.Index(c, ":"); i >= 0 {
					chart, bucket = c[:i], c[i+1:]
				}
				add(p.Program, chart, bucket, r.X)
			}
		}
	}
	out := map[string]int{}
	for k, v := range ids {
		out[k.p+"|"+k.c+"|"+k.b] = len(v)
	}
	return out
}

func TestVerifC13(t *testing.T) {
	const check = "C13.worker"
	res := verifrt.NewResult(check)
	res.Rule = "per case: 1-6 consecutive days with 0-40 stored reports each (0-3 programs with bucketed counters, duplicate X within and across days, a few reports just under the 100 KiB upload limit through long stack names or fields), merged through the real /merge handler (a day with 300 reports under a file-descriptor limit of 64 above what is open) and charted through /chart for the whole range, sub-ranges and a range containing a day that was never merged; all single days and the whole range are also charted by overlapping requests (three rounds), each judged against its own range; after that a stored report is replaced under the same name (usually by a much smaller one), sometimes another arrives, and the day is merged and the range charted again (twice, restoring the set in between); the same set is stored twice more in different creation orders and charted 3 times in one process. Oracle: merged object has one JSON line per stored object decoding to the stored report; NumReports = reports in range; every partition datum = number of distinct X carrying that (program, chart, bucket), zero data are really zero, omitted charts really empty; chart bytes identical across orders and repetitions; missing day => 404 and no chart object. distinct = distinct report sets; non-trivial = >= 2 reports"
	base := vtmp("c13-")
	defer os.RemoveAll(base)
	n := verifrt.Scale(150, 2400)
	for i := 0; i < n; i++ {
		if !verifrt.WantCase(check, i) {
			continue
		}
		rnd := verifrt.NewRand(verifrt.Seed(), fmt.Sprintf("%s/%d", check, i))
		day0 := verifref.DaysFromCivil(2023, 1, 1) + int64(rnd.Intn(700))
		ndays := 1 + rnd.Intn(6)
		switch i % 10 {
		case 3:
			// a range across the end of a year (the day of the year starts again)
			ndays = 2 + rnd.Intn(5)
			day0 = verifref.DaysFromCivil(2023+rnd.Intn(2), 12, 31) - int64(rnd.Intn(ndays-1))
			res.Hit("range-across-new-year")
		case 8:
			// ... and across the end of February, leap day or not
			ndays = 2 + rnd.Intn(5)
			day0 = verifref.DaysFromCivil(2023+rnd.Intn(2), 2, 28) - int64(rnd.Intn(ndays-1))
			res.Hit("range-across-end-of-february")
		}
		var all []*wreport
		byDay := map[string][]*wreport{}
		var xs []float64
		for d := 0; d < ndays; d++ {
			ds := dayStr(day0 + int64(d))
			nr := verifrt.Pick(rnd, []int{0, 1, 2, 5, 12, 40})
			if i%25 == 7 && d == 0 {
				nr = 300 // more reports than the merge may keep open at once (see the descriptor limit below)
			}
			for k := 0; k < nr; k++ {
				rep := genWReport(rnd, ds, xs)
				// the upload handler names objects by week and X: the same X on one day is one object
				dup := false
				for _, o := range byDay[ds] {
					if o.X == rep.X {
						dup = true
					}
				}
				if dup {
					// (one object per spelling of X; a second spelling is a second report
					// with the same ID)
					twice := false
					for _, o := range byDay[ds] {
						twice = twice || (o.X == rep.X && o.alt)
					}
					if twice || rnd.Intn(2) == 0 || fmt.Sprintf("%g", rep.X) == strconv.FormatFloat(rep.X, 'e', -1, 64) {
						continue
					}
					rep.alt = true
					res.Hit("same-id-twice-on-one-day")
				}
				xs = append(xs, rep.X)
				all = append(all, rep)
				byDay[ds] = append(byDay[ds], rep)
			}
		}
		res.Eval()
		if len(all) >= 2 {
			res.Distinct(fmt.Sprint(i))
		}
		rp := verifrt.CaseReplay(i, map[string]any{"days": ndays, "reports": len(all), "first_day": dayStr(day0)})
		var chartBytes [][]byte
		for order := 0; order < 3; order++ {
			e := newWenv(base, i%4 == 3 && order == 0)
			perm := rnd.Perm(len(all))
			if order == 0 {
				for k := range perm {
					perm[k] = k
				}
			}
			if i%3 == 1 {
				// unrelated objects at the root of the upload bucket (what other tools
				// leave behind), sorting before and after the days' directories
				for _, nm := range []string{".DS_Store", ".gitkeep", "0-README.txt", "1999-12-27.json", "README", "zz.json"} {
					if rnd.Intn(2) == 0 {
						os.WriteFile(filepath.Join(e.root, "uploaded", nm), []byte("not a report"), 0o644)
						res.Hit("stray-object-in-upload-bucket")
					}
				}
			}
			for _, k := range perm {
				e.store(all[k])
			}
			ok := true
			if order == 1 && ndays >= 2 && i%2 == 0 {
				// the days are merged by overlapping requests (the task queue runs the
				// handlers side by side): each day's object is judged against its own day
				for round := 0; round < 2 && ok; round++ {
					sts := make([]int, ndays)
					var wg sync.WaitGroup
					for d := 0; d < ndays; d++ {
						wg.Add(1)
						go func(d int) {
							defer wg.Done()
							sts[d], _ = e.get("/merge/?date=" + dayStr(day0+int64(d)))
						}(d)
					}
					wg.Wait()
					res.Hit("concurrent-merge-requests")
					for d := 0; d < ndays && ok; d++ {
						ds := dayStr(day0 + int64(d))
						if sts[d] != 200 {
							res.Violate("merge-failed:concurrent", fmt.Sprintf("merge of %s answered %d while other days were being merged", ds, sts[d]), rp)
							ok = false
						} else {
							ok = judgeMerged(res, e, ds, byDay[ds], rp)
						}
					}
				}
			}
			for d := 0; d < ndays && ok; d++ {
				ds := dayStr(day0 + int64(d))
				if len(byDay[ds]) >= 200 && order == 0 {
					// "any number of reports": the merge may not need resources in
					// proportion to the number of stored reports. Leave it 64 file
					// descriptors beyond what the process has open now.
					restore := c13LimitFDs(64)
					ok = mergeAndJudge(res, e, ds, byDay[ds], rp)
					restore()
					res.Hit("merge-under-descriptor-limit")
					continue
				}
				if i%4 == 3 && order == 0 && d == 0 {
					ok = commitFaults(res, e, ds, byDay[ds], rp)
					continue
				}
				ok = mergeAndJudge(res, e, ds, byDay[ds], rp)
			}
			if !ok {
				e.close()
				break
			}
			// chart the whole range (and on the first order also a sub-range and repetitions)
			start, end := dayStr(day0), dayStr(day0+int64(ndays-1))
			q := "/chart/?start=" + start + "&end=" + end
			if ndays == 1 {
				q = "/chart/?date=" + start
			}
			reps := 1
			if order == 0 {
				reps = 3
			}
			for k := 0; k < reps; k++ {
				st, body := e.get(q)
				if st != 200 {
					res.Violate("chart-failed", fmt.Sprintf("chart %s answered %d: %.300s", q, st, body), rp)
					ok = false
					break
				}
				name := start + "_" + end + ".json"
				if ndays == 1 {
					name = start + ".json"
				}
				cb, err := os.ReadFile(filepath.Join(e.root, "charted", name))
				if err != nil {
					res.Violate("chart-no-object", err.Error(), rp)
					ok = false
					break
				}
				chartBytes = append(chartBytes, cb)
				if order == 0 && k == 0 {
					judgeChart(res, cb, all, rp)
				}
			}
			if ok && order == 0 {
				// missing day: extend the range by one day that was never merged
				miss := dayStr(day0 + int64(ndays))
				before, _ := os.ReadDir(filepath.Join(e.root, "charted"))
				st, _ := e.get("/chart/?start=" + start + "&end=" + miss)
				after, _ := os.ReadDir(filepath.Join(e.root, "charted"))
				res.Hit("missing-day")
				if st != 404 {
					res.Violate("missing-day-status", fmt.Sprintf("range with a day that has no merged object answered %d, want 404", st), rp)
				}
				if len(after) != len(before) {
					res.Violate("missing-day-chart-written", "a chart object was written for a range with a missing day", rp)
				}
				if ndays >= 3 {
					// a proper sub-range
					s2, e2 := dayStr(day0+1), dayStr(day0+int64(ndays-2))
					var sub []*wreport
					for d := int64(1); d <= int64(ndays-2); d++ {
						sub = append(sub, byDay[dayStr(day0+d)]...)
					}
					q2 := "/chart/?start=" + s2 + "&end=" + e2
					nm := s2 + "_" + e2 + ".json"
					if s2 == e2 {
						q2 = "/chart/?date=" + s2
						nm = s2 + ".json"
					}
					if st, body := e.get(q2); st != 200 {
						res.Violate("chart-failed", fmt.Sprintf("chart %s answered %d: %.300s", q2, st, body), rp)
					} else if cb, err := os.ReadFile(filepath.Join(e.root, "charted", nm)); err == nil {
						judgeChart(res, cb, sub, rp)
						res.Hit("sub-range")
					}
				}
			}
			if ok && order == 0 && ndays >= 2 {
				// overlapping chart requests for different ranges on the same handler
				type creq struct {
					q, name string
					reps    []*wreport
				}
				var reqs []creq
				for d := 0; d < ndays; d++ {
					ds := dayStr(day0 + int64(d))
					reqs = append(reqs, creq{"/chart/?date=" + ds, ds + ".json", byDay[ds]})
				}
				reqs = append(reqs, creq{q, start + "_" + end + ".json", all})
				for rep := 0; rep < 3 && ok; rep++ {
					sts := make([]int, len(reqs))
					done := make(chan int, len(reqs))
					for k := range reqs {
						go func(k int) {
							sts[k], _ = e.get(reqs[k].q)
							done <- k
						}(k)
					}
					for range reqs {
						<-done
					}
					for k, r := range reqs {
						if sts[k] != 200 {
							res.Violate("chart-failed", fmt.Sprintf("chart %s answered %d while other ranges were being charted", r.q, sts[k]), rp)
							ok = false
							break
						}
						if cb, err := os.ReadFile(filepath.Join(e.root, "charted", r.name)); err == nil {
							judgeChart(res, cb, r.reps, rp)
						}
					}
					res.Hit("concurrent-chart-requests")
				}
			}
			if ok && order == 0 && len(all) > 0 {
				// the set of stored reports changes after a day was merged (the
				// worker re-merges each of the last days daily): a report is
				// uploaded again under the same week and X with a different,
				// often much smaller, body and new reports arrive; merging and
				// charting again must reflect the stored set only, not what an
				// earlier merge left behind
				for round := 0; round < 2 && ok; round++ {
					victim := all[rnd.Intn(len(all))]
					ds := victim.Week
					repl := genWReport(rnd, ds, nil)
					repl.X, repl.alt = victim.X, victim.alt
					if rnd.Intn(3) > 0 {
						repl.Programs = nil
					}
					var nd []*wreport
					for _, r := range byDay[ds] {
						if r != victim {
							nd = append(nd, r)
						}
					}
					nd = append(nd, repl)
					if rnd.Intn(2) == 0 {
						extra := genWReport(rnd, ds, nil)
						dup := false
						for _, r := range nd {
							dup = dup || r.X == extra.X
						}
						if !dup {
							nd = append(nd, extra)
							e.store(extra)
						}
					}
					e.store(repl)
					var nall []*wreport
					for d := 0; d < ndays; d++ {
						if dd := dayStr(day0 + int64(d)); dd == ds {
							nall = append(nall, nd...)
						} else {
							nall = append(nall, byDay[dd]...)
						}
					}
					res.Hit("re-merge-after-replacement")
					ok = mergeAndJudge(res, e, ds, nd, rp)
					if !ok {
						break
					}
					st, body := e.get(q)
					if st != 200 {
						res.Violate("chart-failed", fmt.Sprintf("chart %s after a re-merge answered %d: %.300s", q, st, body), rp)
						ok = false
						break
					}
					name := start + "_" + end + ".json"
					if ndays == 1 {
						name = start + ".json"
					}
					if cb, err := os.ReadFile(filepath.Join(e.root, "charted", name)); err == nil {
						judgeChart(res, cb, nall, rp)
					}
					// restore the original set for the other storage orders
					byDayTmp := nd
					_ = byDayTmp
					for _, r := range nd {
						keep := false
						for _, o := range byDay[ds] {
							keep = keep || o == r
						}
						if !keep {
							os.Remove(filepath.Join(e.root, "uploaded", filepath.FromSlash(r.objName())))
						}
					}
					e.store(victim)
					ok = mergeAndJudge(res, e, ds, byDay[ds], rp)
				}
			}
			e.close()
			if !ok {
				break
			}
		}
		for k := 1; k < len(chartBytes); k++ {
			if !bytes.Equal(chartBytes[0], chartBytes[k]) {
				res.Violate("chart-nondeterministic", fmt.Sprintf("chart output %d differs from the first for the same report set (storage order / repetition): %.200s vs %.200s", k, firstDiff(chartBytes[0], chartBytes[k]), ""), rp)
				break
			}
		}
		if len(xs) != len(uniq(xs)) {
			res.Hit("duplicate-X")
		}
		if i < 2 {
			res.Sample(map[string]any{"case": i, "days": ndays, "reports": len(all), "first_day": dayStr(day0)})
		}
	}
	res.Require("range-across-new-year", "range-across-end-of-february", "same-id-twice-on-one-day", "concurrent-merge-requests", "merge-commit-fails", "chart-commit-fails", "stray-object-in-upload-bucket", "merge-under-descriptor-limit", "concurrent-chart-requests", "re-merge-after-replacement", "merged-line>64KiB", "duplicate-X", "missing-day", "sub-range", "semver-equal-versions")
	if err := res.Write(); err != nil {
		t.Fatal(err)
	}
}

// c13LimitFDs lowers the soft limit on open files to what is open now plus
// extra and returns a func restoring it.
func c13LimitFDs(extra int) func() {
	var old syscall.Rlimit
	if err := syscall.Getrlimit(syscall.RLIMIT_NOFILE, &old); err != nil {
		return func() {}
	}
	ents, _ := os.ReadDir("/proc/self/fd")
	maxfd := 0
	for _, e := range ents {
		var n int
		fmt.Sscan(e.Name(), &n)
		if n > maxfd {
			maxfd = n
		}
	}
	lim := old
	lim.Cur = uint64(maxfd + 1 + extra)
	if lim.Cur > old.Cur {
		return func() {}
	}
	syscall.Setrlimit(syscall.RLIMIT_NOFILE, &lim)
	return func() { syscall.Setrlimit(syscall.RLIMIT_NOFILE, &old) }
}

// mergeAndJudge merges day ds through the handler and compares the merged
// object with the reports stored for that day.
func mergeAndJudge(res *verifrt.Result, e *wenv, ds string, stored []*wreport, rp map[string]any) bool {
	st, body := e.get("/merge/?date=" + ds)
	if st != 200 {
		res.Violate("merge-failed", fmt.Sprintf("merge of %s answered %d: %.200s", ds, st, body), rp)
		return false
	}
	return judgeMerged(res, e, ds, stored, rp)
}

// judgeMerged: the merged object of the day holds one line per stored report.
func judgeMerged(res *verifrt.Result, e *wenv, ds string, stored []*wreport, rp map[string]any) bool {
	mb, err := os.ReadFile(filepath.Join(e.root, "merged", ds+".json"))
	if err != nil {
		res.Violate("merge-no-object", err.Error(), rp)
		return false
	}
	lines := bytes.Split(bytes.TrimRight(mb, "\n"), []byte("\n"))
	if len(mb) == 0 {
		lines = nil
	}
	if len(lines) != len(stored) {
		res.Violate("merge-line-count", fmt.Sprintf("day %s: %d stored reports, %d merged lines", ds, len(stored), len(lines)), rp)
		return false
	}
	want := map[string]int{}
	for _, r := range stored {
		b, _ := json.Marshal(r)
		want[string(canonJSON(b))]++
	}
	for _, l := range lines {
		if len(l) > 64*1024 {
			res.Hit("merged-line>64KiB")
		}
		k := string(canonJSON(l))
		if want[k] == 0 {
			res.Violate("merge-line-content", fmt.Sprintf("day %s: a merged line does not equal any (not yet matched) stored report: %.300s", ds, l), rp)
			return false
		}
		want[k]--
	}
	return true
}

func uniq(xs []float64) map[float64]bool {
	m := map[float64]bool{}
	for _, x := range xs {
		m[x] = true
	}
	return m
}

func firstDiff(a, b []byte) string {
	for i := 0; i < len(a) && i < len(b); i++ {
		if a[i] != b[i] {
			lo := i - 60
			if lo < 0 {
				lo = 0
			}
			hi := i + 60
			if hi > len(a) {
				hi = len(a)
			}
			return string(a[lo:hi])
		}
	}
	return fmt.Sprintf("lengths %d vs %d", len(a), len(b))
}

func canonJSON(b []byte) []byte {
	var v any
	if json.Unmarshal(b, &v) != nil {
		return b
	}
	v = dropEmpty(v)
	o, _ := json.Marshal(v)
	return o
}

func dropEmpty(v any) any {
	switch x := v.(type) {
	case map[string]any:
		for k, e := range x {
			e = dropEmpty(e)
			if e == nil {
				delete(x, k)
				continue
			}
			if m, ok := e.(map[string]any); ok && len(m) == 0 {
				delete(x, k)
				continue
			}
			if s, ok := e.([]any); ok && len(s) == 0 {
				delete(x, k)
				continue
			}
			x[k] = e
		}
		return x
	case []any:
		for i := range x {
			x[i] = dropEmpty(x[i])
		}
		return x
	}
	return v
}

func judgeChart(res *verifrt.Result, cb []byte, reps []*wreport, rp map[string]any) {
	var cd struct {
		DateRange  [2]string
		NumReports int
		Programs   []struct {
			ID, Name string
			Charts   []struct {
				ID, Name, Type string
				Data           []struct {
					Week, Key string
					Value     float64
				}
			}
		}
	}
	if err := json.Unmarshal(cb, &cd); err != nil {
		res.Violate("chart-not-json", err.Error(), rp)
		return
	}
	if cd.NumReports != len(reps) {
		res.Violate("numreports", fmt.Sprintf("chart says NumReports=%d; the range holds %d merged reports", cd.NumReports, len(reps)), rp)
	}
	want := expectedCharts(reps)
	seen := map[string]bool{}
	for _, p := range cd.Programs {
		for _, c := range p.Charts {
			var keys []string
			for _, d := range c.Data {
				k := p.Name + "|" + c.Name + "|" + d.Key
				if seen[k] {
					res.Violate("chart-duplicate-key", "datum "+k+" appears twice", rp)
				}
				seen[k] = true
				keys = append(keys, d.Key)
				if int(d.Value) != want[k] {
					res.Violate("partition-value", fmt.Sprintf("%s = %v; %d distinct report IDs carry that bucket", k, d.Value, want[k]), rp)
					return
				}
			}
			if c.Name == "Version" && len(keys) > 1 {
				for a := 0; a < len(keys); a++ {
					for b := a + 1; b < len(keys); b++ {
						if semverEqualish(keys[a], keys[b]) {
							res.Hit("semver-equal-versions")
						}
					}
				}
			}
		}
	}
	// every non-zero expectation for a configured program/bucket must be charted
	cfgBuckets := map[string]bool{}
	for _, p := range c13Cfg.Programs {
		for _, v := range p.Versions {
			if !strings.HasPrefix(p.Name, "cmd/") {
				cfgBuckets[p.Name+"|Version|"+v] = true
			}
		}
		for _, o := range c13Cfg.GOOS {
			cfgBuckets[p.Name+"|GOOS|"+o] = true
		}
		for _, a := range c13Cfg.GOARCH {
			cfgBuckets[p.Name+"|GOARCH|"+a] = true
		}
		for _, g := range []string{"go1.21", "go1.22", "go1.23"} {
			cfgBuckets[p.Name+"|GoVersion|"+g] = true
		}
		for _, cc := range p.Counters {
			for _, e := range verifref.ExpandBuckets(cc.Name) {
				chart, bucket := e, e
				if i := strings.Index(e, ":"); i >= 0 {
					chart, bucket = e[:i], e[i+1:]
				}
				cfgBuckets[p.Name+"|"+chart+"|"+bucket] = true
			}
		}
	}
	var missing []string
	for k, n := range want {
		if n > 0 && cfgBuckets[k] && !seen[k] {
			missing = append(missing, fmt.Sprintf("%s (=%d)", k, n))
		}
	}
	sort.Strings(missing)
	if len(missing) > 0 {
		res.Violate("partition-missing", fmt.Sprintf("chart lacks data present in the reports: %.400s", strings.Join(missing, ", ")), rp)
	}
}

func semverEqualish(a, b string) bool {
	strip := func(s string) string {
		if i := strings.Index(s, "+"); i >= 0 {
			s = s[:i]
		}
		if strings.Count(s, ".") == 1 {
			s += ".0"
		}
		return s
	}
	return a != b && strip(a) == strip(b)
}
