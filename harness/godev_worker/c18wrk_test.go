//go:build verif

package main

import (
	"context"
	"fmt"
	"net/url"
	"os"
	"path/filepath"
	"strings"
	"sync"
	"testing"

	"golang.org/x/telemetry/godev/internal/storage"
	"golang.org/x/telemetry/internal/verifrt"
)

// C18 (worker leg): every object name the merge and chart handlers construct
// from a request resolves inside its bucket's directory.

type wrecBucket struct {
	storage.BucketHandle
	dir   string
	mu    sync.Mutex
	names []string
}

func (b *wrecBucket) Object(name string) storage.ObjectHandle {
	b.mu.Lock()
	b.names = append(b.names, name)
	b.mu.Unlock()
	return b.BucketHandle.Object(name)
}

func (b *wrecBucket) take() []string {
	b.mu.Lock()
	defer b.mu.Unlock()
	n := b.names
	b.names = nil
	return n
}

func TestVerifC18Worker(t *testing.T) {
	const check = "C18.worker"
	res := verifrt.NewResult(check)
	res.Rule = "the worker's merge and chart handlers over recording file-system buckets; requests whose date/start/end parameters are dates, near-dates and every spelling of '.', '..', separators, NUL and absolute paths around a date. Oracle: every object name a handler asks a bucket for, joined to the bucket directory as the backend does, stays inside that directory; nothing is created outside the three buckets; the canary files placed outside are never changed. distinct = distinct parameter values; non-trivial = value contains a dot-dot or separator spelling"
	base := vtmp("c18w-")
	defer os.RemoveAll(base)
	e := newWenv(base)
	defer e.close()
	wrap := func(b storage.BucketHandle, n string) *wrecBucket {
		return &wrecBucket{BucketHandle: b, dir: filepath.Join(e.root, n)}
	}
	up, merged, charted := wrap(e.buckets.Upload, "uploaded"), wrap(e.buckets.Merge, "merged"), wrap(e.buckets.Chart, "charted")
	e.buckets.Upload, e.buckets.Merge, e.buckets.Chart = up, merged, charted
	// a day with two reports, merged, so that legitimate requests do something
	rnd0 := verifrt.NewRand(verifrt.Seed(), check)
	for k := 0; k < 2; k++ {
		e.store(genWReport(rnd0, "2023-01-02", nil))
	}
	const canary = "CANARY-c18w"
	os.WriteFile(filepath.Join(e.root, "secret.json"), []byte(canary), 0o644)
	os.WriteFile(filepath.Join(base, "secret.json"), []byte(canary), 0o644)
	up.take()
	vals := []string{"2023-01-02", "2023-01-03", "2023-1-2", "", "2023-01-02 ", " 2023-01-02", "2023-01-02\x00", "2023-01-02/", "2023-01-02/..", "2023-01-02/../../secret", "../secret", "..", ".", "/etc/passwd", "2023-01-02\\..\\secret", "2023-01-02T00:00:00Z", "2023-02-30", "0000-00-00", "9999-12-31", "2023-01-02.json", "secret", "2023-01-02_2023-01-08", "２０２３-01-02"}
	dd := []string{"..", "%2e%2e", ".", "...", "..;"}
	sp := []string{"/", "%2f", "\\", "//"}
	n := verifrt.Scale(400, 20000)
	for i := 0; len(vals) < n; i++ {
		r := verifrt.NewRand(verifrt.Seed(), fmt.Sprintf("%s/%d", check, i))
		var sb strings.Builder
		if r.Bool() {
			sb.WriteString("2023-01-02")
			sb.WriteString(verifrt.Pick(r, sp))
		}
		for k, lv := 0, 1+r.Intn(3); k < lv; k++ {
			sb.WriteString(verifrt.Pick(r, dd))
			sb.WriteString(verifrt.Pick(r, sp))
		}
		sb.WriteString(verifrt.Pick(r, []string{"secret", "uploaded/2023-01-02", "2023-01-02", "merged/2023-01-02"}))
		vals = append(vals, sb.String())
	}
	judge := func(what, q string, rp map[string]any) {
		for _, b := range []*wrecBucket{up, merged, charted} {
			for _, name := range b.take() {
				res.Hit("object-name-constructed:" + what)
				p := filepath.Join(b.dir, filepath.FromSlash(name))
				rel, err := filepath.Rel(b.dir, p)
				if err != nil || rel == ".." || strings.HasPrefix(rel, ".."+string(filepath.Separator)) {
					res.Violate("object-name-escapes-bucket:"+what, fmt.Sprintf("request %s made the worker ask bucket %s for object %q, which resolves to %s, outside the bucket's directory", q, filepath.Base(b.dir), name, p), rp)
				}
			}
		}
	}
	for i, v := range vals {
		if !verifrt.WantCase(check, i) {
			continue
		}
		res.Eval()
		if strings.Contains(v, "..") || strings.ContainsAny(v, "/\\") || strings.Contains(strings.ToLower(v), "%2") {
			res.Distinct(v)
		}
		rp := verifrt.CaseReplay(i, map[string]any{"value": v})
		ev := url.QueryEscape(v)
		for _, q := range []string{"/merge/?date=" + ev, "/chart/?date=" + ev, "/chart/?start=" + ev + "&end=2023-01-02", "/chart/?start=2023-01-02&end=" + ev} {
			st, _ := e.get(q)
			res.Hit(fmt.Sprintf("status:%dxx", st/100))
			judge(strings.SplitN(strings.Trim(q, "/"), "/", 2)[0], q, rp)
		}
	}
	if st, _ := e.get("/merge/?date=2023-01-02"); st == 200 {
		res.Hit("legitimate-merge")
	}
	judge("merge", "/merge/?date=2023-01-02", nil)
	if st, _ := e.get("/chart/?date=2023-01-02"); st == 200 {
		res.Hit("legitimate-chart")
	}
	judge("chart", "/chart/?date=2023-01-02", nil)
	for _, p := range []string{filepath.Join(e.root, "secret.json"), filepath.Join(base, "secret.json")} {
		if b, err := os.ReadFile(p); err != nil || string(b) != canary {
			res.Violate("file-outside-buckets-changed", p, nil)
		}
	}
	filepath.Walk(base, func(pth string, info os.FileInfo, err error) error {
		if err != nil || info.IsDir() {
			return nil
		}
		rel, _ := filepath.Rel(e.root, pth)
		ok := pth == filepath.Join(base, "secret.json") || rel == "secret.json" || rel == "config.json"
		for _, bn := range []string{"uploaded", "merged", "charted"} {
			ok = ok || strings.HasPrefix(rel, bn+string(filepath.Separator))
		}
		if !ok {
			res.Violate("file-created-outside-buckets", pth, nil)
		}
		return nil
	})
	_ = context.Background
	res.Sample(map[string]any{"values": vals[:10]})
	res.Require("legitimate-merge", "legitimate-chart", "object-name-constructed:merge", "status:4xx")
	if err := res.Write(); err != nil {
		t.Fatal(err)
	}
}
