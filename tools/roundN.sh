#!/bin/bash
# usage: tools/roundN.sh <round-number> <prop-id> <check-ids...> : confirm both mutations of <prop-id> from /tmp/mut<round>/<id>/_out, then run the checks against them (each in its own scratch worktree)
rn=$1; id=$2; shift 2
for n in 1 2; do
  timeout 1500 python3 /verif/tools/confirm_mut.py $id $n --tag r$rn- --src /tmp/mut$rn/$id/_out > /tmp/cm-$id-r$rn-$n.log 2>&1; echo "confirm $id r$rn-$n rc=$?"
  echo "#### $id r$rn-mut$n"; LINES_MAX=8 timeout 1800 /verif/tools/trymut_wt.sh /tmp/mut$rn/$id/_out/mut$n.diff "$@" 2>&1 | grep -v "^KNOWN" | cut -c1-260
done
