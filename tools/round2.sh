#!/bin/bash
# usage: tools/round2.sh <prop-id> <check-ids...> : confirm both round-2 mutations of <prop-id>, then run the checks against them
id=$1; shift
for n in 1 2; do
  timeout 900 python3 /verif/tools/confirm_mut.py $id $n --tag r2- > /tmp/cm-$id-r2-$n.log 2>&1; echo "confirm $id r2-$n rc=$?"
  echo "#### $id r2-mut$n"; LINES_MAX=8 timeout 900 /verif/tools/trymut.sh /tmp/mut/$id/_out/mut$n.diff "$@" 2>&1 | grep -v "^KNOWN" | cut -c1-260
  git -C /repo checkout -- . 2>/dev/null
done
