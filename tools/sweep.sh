#!/bin/bash
# usage: tools/sweep.sh <tier> <seed> [ids...]  — runs checks from the current directory's copy of /verif
export GOFLAGS=-mod=mod GOPROXY=off GOSUMDB=off GOTOOLCHAIN=local
[ -n "$VP_RUN_REPO" ] && export VERIF_REPO=$VP_RUN_REPO
export VERIF_DIR=$PWD VERIF_EVIDENCE_DIR=$PWD/evidence-sweep VERIF_REPLAY_DIR=$PWD/replays-sweep
tier=$1; seed=$2; shift 2
ids=${@:-C01 C02 C03 C04 C05 C06 C07 C08 C09 C10 C11 C12 C13 C14 C15 C16 C17 C18 C19}
go build -o bin/ ./cmd/... || exit 9
for id in $ids; do
  s=$(date +%s)
  out=$(VERIF_SEED=$seed bin/vcheck $id --tier $tier 2>&1); rc=$?
  e=$(( $(date +%s) - s ))
  echo "== $id tier=$tier seed=$seed rc=$rc ${e}s"
  echo "$out" | grep -A2 "^VIOLATION\|^INCONCLUSIVE" | cut -c1-400 | head -20
  echo "$out" | tail -1 | cut -c1-200
done
