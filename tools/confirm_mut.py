#!/usr/bin/env python3
"""Confirm a sub-agent mutation in a scratch worktree and file it under /verif/seeded/.

usage: confirm_mut.py <prop-id> <n> [--patch file] [--dest pkgdir] [--what text] [--needs text]

Checks, in a fresh worktree of /repo HEAD (removed afterwards):
  patch applies; go build + go vet (root and godev); full test suites pass with the patch;
  the demonstration FAILS with the patch and PASSES without it.
"""
import json, os, re, shutil, subprocess, sys, argparse, glob

ENV = dict(os.environ, GOPROXY="off", GOSUMDB="off", GOTOOLCHAIN="local", GOFLAGS="-mod=mod")

def run(cmd, cwd, timeout=1500):
    p = subprocess.run(cmd, cwd=cwd, env=ENV, shell=True, stdout=subprocess.PIPE, stderr=subprocess.STDOUT, timeout=timeout)
    return p.returncode, p.stdout.decode(errors="replace")

def main():
    ap = argparse.ArgumentParser()
    ap.add_argument("id"); ap.add_argument("n")
    ap.add_argument("--patch"); ap.add_argument("--dest"); ap.add_argument("--what", default=""); ap.add_argument("--needs", default="")
    ap.add_argument("--src", default=None)
    ap.add_argument("--tag", default="")
    a = ap.parse_args()
    src = a.src or f"/tmp/mut/{a.id}/_out"
    patch = a.patch or f"{src}/mut{a.n}.diff"
    demo_dir = f"{src}/mut{a.n}_demo"
    demos = [f for f in glob.glob(demo_dir + "/*") if not f.endswith("RUN.txt")]
    runtxt = open(demo_dir + "/RUN.txt").read() if os.path.exists(demo_dir + "/RUN.txt") else ""
    dest = a.dest
    if not dest:
        m = re.search(r"cp\s+\S*mut%s_demo/\S+\s+(\S+)" % a.n, runtxt)
        if m:
            dest = m.group(1)
            if dest.endswith(".go"):
                dest = os.path.dirname(dest)
    if not dest:
        print("cannot determine demo destination; pass --dest"); sys.exit(2)
    dest = dest.rstrip("/")
    wt = f"/tmp/cm/{a.id}-{a.tag}{a.n}"
    shutil.rmtree(wt, ignore_errors=True)
    subprocess.run(["git", "-C", "/repo", "worktree", "prune"])
    os.makedirs("/tmp/cm", exist_ok=True)
    subprocess.check_call(["git", "-C", "/repo", "worktree", "add", "-q", "--detach", wt, "HEAD"])
    res = {"property": a.id, "mutation": int(a.n), "repo_head": subprocess.check_output(["git", "-C", "/repo", "rev-parse", "--short", "HEAD"]).decode().strip()}
    try:
        rc, out = run(f"git apply {patch}", wt)
        res["applies"] = rc == 0
        if rc != 0:
            res["apply_output"] = out[-2000:]
            raise SystemExit
        rc1, o1 = run("go build ./... && go vet ./...", wt)
        rc2, o2 = run("go build ./... && go vet ./...", wt + "/godev")
        res["build_vet_ok"] = rc1 == 0 and rc2 == 0
        if not res["build_vet_ok"]:
            res["build_output"] = (o1 + o2)[-2000:]
        rc1, o1 = run("go test -count=1 ./...", wt)
        rc2, o2 = run("go test -count=1 ./...", wt + "/godev")
        res["suite_passes_with_mutation"] = rc1 == 0 and rc2 == 0
        if not res["suite_passes_with_mutation"]:
            res["suite_output"] = "\n".join(l for l in (o1 + o2).splitlines() if "FAIL" in l or "panic" in l)[-2000:]
        pkg = "./" + dest
        moddir = wt
        if dest.startswith("godev/"):
            moddir = wt + "/godev"; pkg = "./" + dest[len("godev/"):]
        os.makedirs(os.path.join(wt, dest), exist_ok=True)
        for f in demos:
            if os.path.isdir(f):
                shutil.copytree(f, os.path.join(wt, dest, os.path.basename(f)))
            else:
                shutil.copy(f, os.path.join(wt, dest))
        demo_cmd = f"go test -count=1 -run 'TestVerifDemo' {pkg}"
        rc, out = run(demo_cmd, moddir)
        res["demo_fails_with_mutation"] = rc != 0
        res["demo_with_mutation_tail"] = "\n".join(out.splitlines()[-12:])
        run(f"git apply -R {patch}", wt)
        rc, out = run(demo_cmd, moddir)
        res["demo_passes_without_mutation"] = rc == 0
        if rc != 0:
            res["demo_without_mutation_tail"] = "\n".join(out.splitlines()[-12:])
        res["demo_cmd"] = f"cp <demo files> {dest}/ && {demo_cmd}"
    except SystemExit:
        pass
    finally:
        subprocess.run(["git", "-C", "/repo", "worktree", "remove", "--force", wt])
    ok = all(res.get(k) for k in ("applies", "build_vet_ok", "suite_passes_with_mutation", "demo_fails_with_mutation", "demo_passes_without_mutation"))
    res["confirmed"] = ok
    res["breaks"] = a.what
    res["needs_to_manifest"] = a.needs
    if ok:
        sd = f"/verif/seeded/{a.id}-{a.tag}{a.n}"
        shutil.rmtree(sd, ignore_errors=True)
        os.makedirs(sd + "/demo")
        shutil.copy(patch, sd + "/patch.diff")
        for f in demos:
            if os.path.isfile(f):
                shutil.copy(f, sd + "/demo/")
        if runtxt:
            open(sd + "/demo/RUN.txt", "w").write(runtxt)
        md = f"{src}/mut{a.n}.md"
        if os.path.exists(md):
            shutil.copy(md, sd + "/notes.md")
        res["detected_by"] = []
        json.dump(res, open(sd + "/meta.json", "w"), indent=1)
    print(json.dumps({k: v for k, v in res.items() if not k.endswith("_tail")}, indent=1))
    sys.exit(0 if ok else 1)

main()
