#!/bin/bash
# usage: tools/trymut_wt.sh <patch.diff> <prop-id>... ; like trymut.sh, but applies the patch to a private scratch
# worktree of /repo HEAD (VERIF_REPO), so several can run side by side; the worktree is removed afterwards.
export GOFLAGS=-mod=mod GOPROXY=off GOSUMDB=off GOTOOLCHAIN=local
patch=$1; shift
wt=/tmp/tmwt/$$
mkdir -p /tmp/tmwt; git -C /repo worktree add -q --detach $wt HEAD || exit 3
trap 'git -C /repo worktree remove --force $wt; rm -rf /tmp/trymut-$$' EXIT
git -C $wt apply "$patch" || { echo "patch does not apply"; exit 3; }
for id in "$@"; do
  out=$(cd ${VERIF_DIR:-/verif} && VERIF_REPO=$wt VERIF_EVIDENCE_DIR=/tmp/trymut-$$/evidence VERIF_REPLAY_DIR=/tmp/trymut-$$/replays bin/vcheck $id ${TIER:+--tier $TIER} 2>&1); rc=$?
  echo "== $id rc=$rc: $(echo "$out" | grep -c '^VIOLATION') violation line(s)"
  echo "$out" | grep -A1 '^VIOLATION\|^INCONC\|^KNOWN' | cut -c1-300 | head -${LINES_MAX:-12}
done
