#!/bin/bash
# usage: tools/trymut.sh <patch.diff> <prop-id>... ; applies the patch to /repo, runs the quick checks, reverts.
export GOFLAGS=-mod=mod GOPROXY=off GOSUMDB=off GOTOOLCHAIN=local
patch=$1; shift
if [ -n "$(git -C /repo status --porcelain)" ]; then echo "/repo not clean"; exit 3; fi
git -C /repo apply "$patch" || { echo "patch does not apply"; exit 3; }
trap 'git -C /repo checkout -- . ; git -C /repo clean -fdq' EXIT
for id in "$@"; do
  out=$(cd /verif && VERIF_EVIDENCE_DIR=/tmp/trymut/evidence VERIF_REPLAY_DIR=/tmp/trymut/replays bin/vcheck $id ${TIER:+--tier $TIER} 2>&1); rc=$?
  echo "== $id rc=$rc: $(echo "$out" | grep -c '^VIOLATION') violation line(s)"
  echo "$out" | grep -A1 '^VIOLATION\|^INCONC\|^KNOWN' | cut -c1-300 | head -${LINES_MAX:-12}
done
