#!/usr/bin/env python3
"""Run the quick checks against every seeded change under /verif/seeded.

usage: seeded_all.py [--only <dir-substring>] [--tier quick] [--seed N]

Each change is applied to a scratch worktree of /repo HEAD (never to /repo itself),
the check(s) of its property are run with VERIF_REPO pointing at the worktree, the
signatures of the violations they print are recorded in seeded/<dir>/meta.json
("detected_by"), and the worktree is reset. The worktree is removed at the end.
Prints one line per change; exit 1 if a change is missed by every check.
"""
import argparse, glob, json, os, re, shutil, subprocess, sys, time

ENV = dict(os.environ, GOPROXY="off", GOSUMDB="off", GOTOOLCHAIN="local", GOFLAGS="-mod=mod")
WT = "/tmp/seedwt"
# checks of other properties that are expected to notice a change as well
ALSO = {"C13-r2-2": ["C18"], "C11-2": ["C12"], "C03-r2-2": ["C05"], "C05-r3-1": ["C03"], "C19-r4-1": ["C02"], "C13-r4-1": ["C18"], "C03-r4-2": ["C15", "C10"], "C14-r4-2": ["C15"], "C16-r4-2": ["C02"], "C04-r3-2": ["C03"], "C10-r3-1": ["C06"], "C12-r3-1": ["C11"], "C05-2": ["C06"], "C10-1": ["C06"], "C19-2": ["C02"], "C04-2": ["C10"], "C14-1": ["C15"], "C07-1": ["C01"]}


def sh(cmd, cwd=None, env=None, timeout=3000):
    p = subprocess.run(cmd, cwd=cwd, env=env or ENV, shell=True, stdout=subprocess.PIPE, stderr=subprocess.STDOUT, timeout=timeout)
    return p.returncode, p.stdout.decode(errors="replace")


def main():
    ap = argparse.ArgumentParser()
    ap.add_argument("--only", default="")
    ap.add_argument("--tier", default="quick")
    ap.add_argument("--seed", default="1")
    a = ap.parse_args()
    sh(f"git -C /repo worktree remove --force {WT}")
    shutil.rmtree(WT, ignore_errors=True)
    sh("git -C /repo worktree prune")
    rc, out = sh(f"git -C /repo worktree add -q --detach {WT} HEAD")
    if rc != 0:
        print(out); sys.exit(2)
    sh("go build -o bin/vcheck ./cmd/vcheck", cwd="/verif")
    missed = []
    try:
        for d in sorted(glob.glob("/verif/seeded/*/")):
            name = os.path.basename(d.rstrip("/"))
            if a.only and a.only not in name:
                continue
            pid = name.split("-")[0]
            mp0 = d + "meta.json"
            if os.path.exists(mp0) and json.load(open(mp0)).get("neutralised_by"):
                print(f"{name}: neutralised ({json.load(open(mp0))['neutralised_by'][:80]}...)")
                continue
            patch = d + "patch_rebased.diff" if os.path.exists(d + "patch_rebased.diff") else d + "patch.diff"
            rc, out = sh(f"git apply {patch}", cwd=WT)
            if rc != 0:
                print(f"{name}: patch does not apply to HEAD: {out.strip()[:200]}")
                missed.append(name)
                continue
            found = []
            t0 = time.time()
            for cid in [pid] + ALSO.get(name, []):
                env = dict(ENV, VERIF_REPO=WT, VERIF_EVIDENCE_DIR="/tmp/seeded-run/evidence", VERIF_REPLAY_DIR="/tmp/seeded-run/replays", VERIF_SEED=a.seed)
                rc, out = sh(f"bin/vcheck {cid} --tier {a.tier}", cwd="/verif", env=env)
                sigs = re.findall(r"^\s+sig=(\S+) count=(\d+)", out, re.M)
                nviol = len(re.findall(r"^VIOLATION ", out, re.M))
                if nviol:
                    found.append({"check": cid, "exit": rc, "signatures": [s for s, _ in sigs][:12]})
                elif cid == pid and rc != 0:
                    found.append({"check": cid, "exit": rc, "signatures": [], "note": "non-zero exit without VIOLATION line (inconclusive)"})
            sh("git checkout -q -- . && git clean -fdq", cwd=WT)
            mp = d + "meta.json"
            meta = json.load(open(mp)) if os.path.exists(mp) else {}
            meta["detected_by"] = found
            meta["detected"] = any(f["signatures"] for f in found)
            meta["checked_against_repo_head"] = subprocess.check_output(["git", "-C", "/repo", "rev-parse", "--short", "HEAD"]).decode().strip()
            json.dump(meta, open(mp, "w"), indent=1)
            ok = meta["detected"]
            if not ok:
                missed.append(name)
            print(f"{name}: {'DETECTED' if ok else 'MISSED'} ({time.time()-t0:.0f}s) " + "; ".join(f"{f['check']}: {','.join(f['signatures'][:4])}" for f in found), flush=True)
    finally:
        sh(f"git -C /repo worktree remove --force {WT}")
        shutil.rmtree("/tmp/seeded-run", ignore_errors=True)
    print("missed:", missed)
    sys.exit(1 if missed else 0)


main()
