#!/usr/bin/env python3
"""Run the quick checks against every seeded change under /verif/seeded.

usage: seeded_all.py [--only <dir-substring>] [--tier quick] [--seed N] [--jobs K]

With VERIF_DIR set, the checks are run from that copy of /verif (so that /verif can be
edited meanwhile); results are still recorded under /verif/seeded.

Each change is applied to a scratch worktree of /repo HEAD (never to /repo itself),
the check(s) of its property are run with VERIF_REPO pointing at the worktree, the
signatures of the violations they print are recorded in seeded/<dir>/meta.json
("detected_by"), and the worktree is reset. The worktree is removed at the end.
Prints one line per change; exit 1 if a change is missed by every check.
"""
import argparse, glob, json, os, re, shutil, subprocess, sys, time, threading, queue

ENV = dict(os.environ, GOPROXY="off", GOSUMDB="off", GOTOOLCHAIN="local", GOFLAGS="-mod=mod")
WT = "/tmp/seedwt"
VDIR = os.environ.get("VERIF_DIR", "/verif")
# checks of other properties that are expected to notice a change as well
ALSO = {"C05-r10-1": ["C03"], "C07-r10-2": ["C05"], "C01-r10-1": ["C11"], "C04-r10-1": ["C03"], "C10-r10-1": ["C04"], "C10-r10-2": ["C04"], "C12-r9-1": ["C11"], "C02-r9-2": ["C19"], "C15-r9-2": ["C06"], "C01-r8-1": ["C07"], "C03-r8-1": ["C04"], "C03-r8-2": ["C04"], "C09-r8-1": ["C03"], "C09-r8-2": ["C03"], "C04-r8-2": ["C03"], "C05-r7-1": ["C03"], "C05-r7-2": ["C03"], "C09-r7-1": ["C04"], "C10-r7-1": ["C04"], "C11-r7-1": ["C01", "C08"], "C16-r7-2": ["C02"], "C10-r6-2": ["C04"], "C16-r6-2": ["C02"], "C13-r6-1": ["C18"], "C01-r6-1": ["C07"], "C10-r3-2": ["C04"], "C05-r5-2": ["C03"], "C09-r5-1": ["C03"], "C14-r5-2": ["C15"], "C10-r5-1": ["C04"], "C13-r2-2": ["C18"], "C11-2": ["C12"], "C03-r2-2": ["C05"], "C05-r3-1": ["C03"], "C19-r4-1": ["C02"], "C13-r4-1": ["C18"], "C03-r4-2": ["C15", "C10"], "C14-r4-2": ["C15"], "C16-r4-2": ["C02"], "C04-r3-2": ["C03"], "C10-r3-1": ["C06"], "C12-r3-1": ["C11"], "C05-2": ["C06"], "C10-1": ["C06"], "C19-2": ["C02"], "C04-2": ["C10"], "C14-1": ["C15"], "C07-1": ["C01"]}


def sh(cmd, cwd=None, env=None, timeout=3000):
    p = subprocess.run(cmd, cwd=cwd, env=env or ENV, shell=True, stdout=subprocess.PIPE, stderr=subprocess.STDOUT, timeout=timeout)
    return p.returncode, p.stdout.decode(errors="replace")


def main():
    ap = argparse.ArgumentParser()
    ap.add_argument("--only", default="")
    ap.add_argument("--tier", default="quick")
    ap.add_argument("--seed", default="1")
    ap.add_argument("--jobs", type=int, default=1)
    a = ap.parse_args()
    ap_jobs = a.jobs
    sh("git -C /repo worktree prune")
    sh("go build -o bin/vcheck ./cmd/vcheck", cwd=VDIR)
    missed = []
    lock = threading.Lock()
    q = queue.Queue()
    for d in sorted(glob.glob("/verif/seeded/*/")):
        name = os.path.basename(d.rstrip("/"))
        if a.only and not any(o in name for o in a.only.split(",")):
            continue
        q.put((d, name))

    def worker(k):
        wt = f"{WT}-{k}"
        sh(f"git -C /repo worktree remove --force {wt}")
        shutil.rmtree(wt, ignore_errors=True)
        rc, out = sh(f"git -C /repo worktree add -q --detach {wt} HEAD")
        if rc != 0:
            print(out)
            return
        try:
            while True:
                try:
                    d, name = q.get_nowait()
                except queue.Empty:
                    return
                one(d, name, wt, k)
        finally:
            sh(f"git -C /repo worktree remove --force {wt}")
            shutil.rmtree(f"/tmp/seeded-run-{k}", ignore_errors=True)

    def one(d, name, wt, k):
        pid = name.split("-")[0]
        mp0 = d + "meta.json"
        if os.path.exists(mp0) and json.load(open(mp0)).get("neutralised_by"):
            print(f"{name}: neutralised ({json.load(open(mp0))['neutralised_by'][:80]}...)", flush=True)
            return
        if os.path.exists(mp0) and json.load(open(mp0)).get("limitation"):
            print(f"{name}: recorded limitation ({json.load(open(mp0))['limitation'][:80]}...)", flush=True)
            return
        patch = d + "patch_rebased.diff" if os.path.exists(d + "patch_rebased.diff") else d + "patch.diff"
        rc, out = sh(f"git apply {patch}", cwd=wt)
        if rc != 0:
            print(f"{name}: patch does not apply to HEAD: {out.strip()[:200]}", flush=True)
            with lock:
                missed.append(name)
            return
        found = []
        t0 = time.time()
        for cid in [pid] + ALSO.get(name, []):
            env = dict(ENV, VERIF_REPO=wt, VERIF_DIR=VDIR, VERIF_EVIDENCE_DIR=f"/tmp/seeded-run-{k}/evidence", VERIF_REPLAY_DIR=f"/tmp/seeded-run-{k}/replays", VERIF_SEED=a.seed)
            rc, out = sh(f"bin/vcheck {cid} --tier {a.tier}", cwd=VDIR, env=env)
            sigs = re.findall(r"^\s+sig=(\S+) count=(\d+)", out, re.M)
            nviol = len(re.findall(r"^VIOLATION ", out, re.M))
            if nviol:
                found.append({"check": cid, "exit": rc, "signatures": [s for s, _ in sigs][:12]})
            elif cid == pid and rc != 0:
                found.append({"check": cid, "exit": rc, "signatures": [], "note": "non-zero exit without VIOLATION line (inconclusive)"})
        sh("git checkout -q -- . && git clean -fdq", cwd=wt)
        mp = d + "meta.json"
        meta = json.load(open(mp)) if os.path.exists(mp) else {}
        meta["detected_by"] = found
        meta["detected"] = any(f["signatures"] for f in found)
        meta["checked_against_repo_head"] = subprocess.check_output(["git", "-C", "/repo", "rev-parse", "--short", "HEAD"]).decode().strip()
        json.dump(meta, open(mp, "w"), indent=1)
        ok = meta["detected"]
        if not ok:
            with lock:
                missed.append(name)
        print(f"{name}: {'DETECTED' if ok else 'MISSED'} ({time.time()-t0:.0f}s) " + "; ".join(f"{f['check']}: {','.join(f['signatures'][:4])}" for f in found), flush=True)

    ths = [threading.Thread(target=worker, args=(k,)) for k in range(ap_jobs)]
    for t in ths:
        t.start()
    for t in ths:
        t.join()
    print("missed:", missed)
    sys.exit(1 if missed else 0)


main()
