#!/bin/bash
# usage: tools/round3.sh <prop-id> <check-ids...> : confirm both round-3 mutations of <prop-id>, then run the checks against them
id=$1; shift
for n in 1 2; do
  timeout 1500 python3 /verif/tools/confirm_mut.py $id $n --tag r3- --src /tmp/mut3/$id/_out > /tmp/cm-$id-r3-$n.log 2>&1; echo "confirm $id r3-$n rc=$?"
  echo "#### $id r3-mut$n"; LINES_MAX=8 timeout 1500 /verif/tools/trymut.sh /tmp/mut3/$id/_out/mut$n.diff "$@" 2>&1 | grep -v "^KNOWN" | cut -c1-260
  git -C /repo checkout -- . 2>/dev/null
done
