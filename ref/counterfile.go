// Package verifref holds reference implementations written from the documented
// formats and semantics of golang/telemetry. It imports nothing from the
// repository under test and shares no code with it.
package verifref

import (
	"encoding/binary"
	"fmt"
	"sort"
	"strings"
)

// Counter file, format v1 (see the mappedFile documentation and the x/telemetry
// design): a text prefix, a 32-bit header length, NUL padded "Key: value\n"
// metadata, then at the header length a 32-bit allocation limit, 512 32-bit
// hash bucket heads, and 32-byte aligned records
// {value u64, nameLen u32 (low 24 bits), next u32, name}.
const (
	Prefix     = "# telemetry/counter file v1\n"
	NumHash    = 512
	PageSize   = 16 * 1024
	RecordUnit = 32
	MaxNameLen = 4096
	MaxMetaLen = 512
)

// Hash is FNV-1a (32 bit) folded and reduced to the bucket count.
func Hash(name string) uint32 {
	h := uint32(2166136261)
	for i := 0; i < len(name); i++ {
		h ^= uint32(name[i])
		h *= 16777619
	}
	return (h ^ (h >> 16)) % NumHash
}

type Record struct {
	Off    uint32
	Name   string
	Value  uint64
	Next   uint32
	Bucket int
	Flag   byte // top byte of the length word
}

func (r Record) End() uint32 { return r.Off + roundUp(uint32(16+len(r.Name)), RecordUnit) }

type CounterFile struct {
	HdrLen  uint32
	Meta    string
	MetaKV  map[string]string
	Limit   uint32
	Size    int
	Records []Record // reachable records, in bucket order then chain order
}

func roundUp(x, unit uint32) uint32 { return (x + unit - 1) &^ (unit - 1) }

func le32(b []byte, off uint32) uint32 { return binary.LittleEndian.Uint32(b[off:]) }

// ParseCounterFile decodes data strictly; any deviation from the documented
// layout is an error naming what is wrong. It never panics and every loop is
// bounded by the file size.
func ParseCounterFile(data []byte) (*CounterFile, error) {
	if len(data) < PageSize {
		return nil, fmt.Errorf("short file: %d", len(data))
	}
	if !strings.HasPrefix(string(data[:len(Prefix)]), Prefix) {
		return nil, fmt.Errorf("bad prefix")
	}
	np := roundUp(uint32(len(Prefix)), 4)
	hdrLen := le32(data, np)
	if hdrLen < np+4 || hdrLen%32 != 0 || hdrLen > np+4+MaxMetaLen+32 {
		return nil, fmt.Errorf("bad header length %d", hdrLen)
	}
	meta := data[np+4 : hdrLen]
	for i, c := range meta {
		if c == 0 {
			for _, d := range meta[i:] {
				if d != 0 {
					return nil, fmt.Errorf("metadata padding not NUL")
				}
			}
			meta = meta[:i]
			break
		}
	}
	cf := &CounterFile{HdrLen: hdrLen, Meta: string(meta), MetaKV: map[string]string{}, Size: len(data)}
	for _, line := range strings.Split(cf.Meta, "\n") {
		if line == "" {
			continue
		}
		i := strings.Index(line, ": ")
		if i < 0 {
			return nil, fmt.Errorf("metadata line %q without separator", line)
		}
		cf.MetaKV[line[:i]] = line[i+2:]
	}
	tableEnd := hdrLen + 4 + 4*NumHash
	cf.Limit = le32(data, hdrLen)
	limit := cf.Limit
	if limit != 0 && (limit < tableEnd || int64(limit) > int64(len(data))) {
		return nil, fmt.Errorf("limit %#x outside [%#x,%#x]", limit, tableEnd, len(data))
	}
	seen := map[uint32]bool{}
	names := map[string]uint32{}
	maxRecords := len(data) / RecordUnit
	for b := uint32(0); b < NumHash; b++ {
		off := le32(data, hdrLen+4+4*b)
		steps := 0
		for off != 0 {
			steps++
			if steps > maxRecords {
				return nil, fmt.Errorf("bucket %d: chain longer than the file can hold", b)
			}
			if off%RecordUnit != 0 {
				return nil, fmt.Errorf("bucket %d: record offset %#x not aligned", b, off)
			}
			if off < tableEnd || int64(off)+16 > int64(limit) {
				return nil, fmt.Errorf("bucket %d: record offset %#x outside [%#x,%#x)", b, off, tableEnd, limit)
			}
			if seen[off] {
				return nil, fmt.Errorf("bucket %d: record %#x reached twice (cycle or shared tail)", b, off)
			}
			seen[off] = true
			lw := le32(data, off+8)
			nlen := lw & 0x00ffffff
			if nlen == 0 || nlen > MaxNameLen {
				return nil, fmt.Errorf("record %#x: name length %d", off, nlen)
			}
			end := off + roundUp(16+nlen, RecordUnit)
			if int64(off)+16+int64(nlen) > int64(limit) {
				return nil, fmt.Errorf("record %#x: extends to %#x beyond limit %#x", off, off+16+nlen, limit)
			}
			if off/PageSize != end/PageSize {
				return nil, fmt.Errorf("record %#x..%#x reaches the page end / crosses a page", off, end)
			}
			name := string(data[off+16 : off+16+nlen])
			if Hash(name) != b {
				return nil, fmt.Errorf("record %#x (%q): in bucket %d, hashes to %d", off, trunc(name), b, Hash(name))
			}
			if prev, dup := names[name]; dup {
				return nil, fmt.Errorf("name %q has two reachable records %#x and %#x", trunc(name), prev, off)
			}
			names[name] = off
			cf.Records = append(cf.Records, Record{Off: off, Name: name, Value: binary.LittleEndian.Uint64(data[off:]),
				Next: le32(data, off+12), Bucket: int(b), Flag: byte(lw >> 24)})
			off = le32(data, off+12)
		}
	}
	// records must not overlap each other
	rs := append([]Record(nil), cf.Records...)
	sort.Slice(rs, func(i, j int) bool { return rs[i].Off < rs[j].Off })
	for i := 1; i < len(rs); i++ {
		if rs[i-1].End() > rs[i].Off {
			return nil, fmt.Errorf("records %#x and %#x overlap", rs[i-1].Off, rs[i].Off)
		}
	}
	return cf, nil
}

func trunc(s string) string {
	if len(s) > 40 {
		return s[:40] + "…"
	}
	return s
}

// Counts returns name -> value of the reachable records (raw names).
func (cf *CounterFile) Counts() map[string]uint64 {
	m := make(map[string]uint64, len(cf.Records))
	for _, r := range cf.Records {
		m[r.Name] = r.Value
	}
	return m
}

// An Entry is a counter to be written by BuildCounterFile.
type Entry struct {
	Name  string
	Value uint64
}

// BuildCounterFile writes a v1 counter file holding the entries in order,
// following the documented placement rules: records are 32-byte aligned, never
// reach the end of a 16 KiB page (the last bytes of a page are reserved), and
// the file is a whole number of pages.
func BuildCounterFile(meta string, entries []Entry) ([]byte, error) {
	if len(meta) > MaxMetaLen {
		return nil, fmt.Errorf("metadata too long")
	}
	np := roundUp(uint32(len(Prefix)), 4)
	hdrLen := roundUp(np+4+uint32(len(meta)), 32)
	data := make([]byte, PageSize)
	copy(data, Prefix)
	binary.LittleEndian.PutUint32(data[np:], hdrLen)
	copy(data[np+4:], meta)
	tableEnd := hdrLen + 4 + 4*NumHash
	limit := uint32(0)
	seen := map[string]bool{}
	for _, e := range entries {
		if len(e.Name) == 0 || len(e.Name) > MaxNameLen {
			return nil, fmt.Errorf("bad name length %d", len(e.Name))
		}
		if seen[e.Name] {
			return nil, fmt.Errorf("duplicate name")
		}
		seen[e.Name] = true
		start := limit
		if start == 0 {
			start = tableEnd
		}
		start = roundUp(start, RecordUnit)
		n := roundUp(uint32(16+len(e.Name)), RecordUnit)
		if start/PageSize != (start+n)/PageSize {
			start = roundUp(start, PageSize)
		}
		end := start + n
		for int(end) > len(data) {
			data = append(data, make([]byte, PageSize)...)
		}
		binary.LittleEndian.PutUint64(data[start:], e.Value)
		binary.LittleEndian.PutUint32(data[start+8:], uint32(len(e.Name))|0xff000000)
		copy(data[start+16:], e.Name)
		h := Hash(e.Name)
		headOff := hdrLen + 4 + 4*h
		binary.LittleEndian.PutUint32(data[start+12:], le32(data, headOff))
		binary.LittleEndian.PutUint32(data[headOff:], start)
		limit = end
	}
	binary.LittleEndian.PutUint32(data[hdrLen:], limit)
	return data, nil
}

// ExpandStack is the documented expansion of a stored stack-counter name: the
// first line is the counter name proper; in each following line the import
// path (everything before the last dot) may be abbreviated to a double quote,
// meaning "same import path as the closest earlier line that spelled one out".
func ExpandStack(name string) string {
	if !strings.Contains(name, "\n") {
		return name
	}
	lines := strings.Split(name, "\n")
	last := ""
	for i, l := range lines {
		if i == 0 {
			continue // the counter's own name: not a frame, never abbreviated
		}
		d := strings.LastIndexByte(l, '.')
		if d <= 0 {
			continue
		}
		if l[:d] == `"` {
			lines[i] = last + l[d+1:]
		} else {
			last = l[:d+1]
		}
	}
	return strings.Join(lines, "\n")
}

// FindRecord walks the bucket chain of name in data (bounded) and returns the
// record offset, or 0 when the name is not reachable. It tolerates a file that
// is being written concurrently: anything out of bounds ends the walk.
func FindRecord(data []byte, name string) uint32 {
	if len(data) < PageSize {
		return 0
	}
	np := roundUp(uint32(len(Prefix)), 4)
	hdrLen := le32(data, np)
	if hdrLen < np+4 || int(hdrLen)+4+4*NumHash > len(data) {
		return 0
	}
	off := le32(data, hdrLen+4+4*Hash(name))
	for steps := 0; off != 0 && steps <= len(data)/RecordUnit; steps++ {
		if int64(off)+16 > int64(len(data)) {
			return 0
		}
		nlen := le32(data, off+8) & 0x00ffffff
		if int64(off)+16+int64(nlen) > int64(len(data)) {
			return 0
		}
		if string(data[off+16:off+16+nlen]) == name {
			return off
		}
		off = le32(data, off+12)
	}
	return 0
}
