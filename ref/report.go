package verifref

import (
	"sort"
	"strings"
)

// Reference semantics of the upload configuration and of weekly reports,
// written from the documentation (config.json format, Doc.txt, the telemetry
// design): field names follow the published JSON so that the same value can
// be marshalled for the code under test.

type CounterConfig struct {
	Name  string
	Rate  float64
	Depth int `json:",omitempty"`
}

type ProgramConfig struct {
	Name     string
	Versions []string
	Counters []CounterConfig `json:",omitempty"`
	Stacks   []CounterConfig `json:",omitempty"`
}

type UploadConfig struct {
	GOOS       []string
	GOARCH     []string
	GoVersion  []string
	SampleRate float64
	Programs   []*ProgramConfig
}

func has(xs []string, s string) bool {
	for _, x := range xs {
		if x == s {
			return true
		}
	}
	return false
}

func (c *UploadConfig) program(name string) *ProgramConfig {
	for _, p := range c.Programs {
		if p.Name == name {
			return p
		}
	}
	return nil
}

// ProgramApproved: package path listed, version listed for it, Go version listed.
func (c *UploadConfig) ProgramApproved(prog, version, goVersion string) bool {
	p := c.program(prog)
	return p != nil && has(p.Versions, version) && has(c.GoVersion, goVersion)
}

// BuildApproved additionally requires the operating system and architecture
// to be listed (the server's notion of an approved program build).
func (c *UploadConfig) BuildApproved(prog, version, goVersion, goos, goarch string) bool {
	return c.ProgramApproved(prog, version, goVersion) && has(c.GOOS, goos) && has(c.GOARCH, goarch)
}

// ExpandBuckets expands "chart:{a,b,c}" into chart:a, chart:b, chart:c; a name
// without a bucket list stands for itself.
func ExpandBuckets(name string) []string {
	i := strings.IndexByte(name, '{')
	if i < 0 {
		return []string{name}
	}
	prefix := name[:i]
	rest := strings.TrimSuffix(name[i+1:], "}")
	var out []string
	for _, b := range strings.Split(rest, ",") {
		out = append(out, prefix+b)
	}
	return out
}

// CounterRate returns the rate under which the (expanded) counter name is
// listed for the program.
func (c *UploadConfig) CounterRate(prog, name string) (float64, bool) {
	p := c.program(prog)
	if p == nil {
		return 0, false
	}
	rate, ok := 0.0, false
	for _, cc := range p.Counters {
		for _, e := range ExpandBuckets(cc.Name) {
			if e == name {
				rate, ok = cc.Rate, true
			}
		}
	}
	return rate, ok
}

// StackRate: stack counters are matched by the name before the first newline.
func (c *UploadConfig) StackRate(prog, fullName string) (float64, bool) {
	p := c.program(prog)
	if p == nil {
		return 0, false
	}
	first := fullName
	if i := strings.IndexByte(fullName, '\n'); i >= 0 {
		first = fullName[:i]
	}
	rate, ok := 0.0, false
	for _, sc := range p.Stacks {
		if sc.Name == first {
			rate, ok = sc.Rate, true
		}
	}
	return rate, ok
}

// A Build identifies a program build in a report.
type Build struct {
	Program, Version, GoVersion, GOOS, GOARCH string
}

// ProgramData is the aggregate of one build's counter files for a week.
type ProgramData struct {
	Build
	Counters map[string]int64
	Stacks   map[string]int64
}

// A SourceFile is one (readable, non-empty or empty) counter file of the week.
type SourceFile struct {
	Build
	Counts map[string]uint64 // raw (possibly compressed) names as stored
}

// Aggregate folds the week's files into per-build sums; names containing a
// newline are stack counters (reported under their expanded names).
func Aggregate(files []SourceFile) []*ProgramData {
	var out []*ProgramData
	idx := map[Build]*ProgramData{}
	for _, f := range files {
		pd := idx[f.Build]
		if pd == nil {
			pd = &ProgramData{Build: f.Build, Counters: map[string]int64{}, Stacks: map[string]int64{}}
			idx[f.Build] = pd
			out = append(out, pd)
		}
		for name, v := range f.Counts {
			n := ExpandStack(name)
			if strings.Contains(n, "\n") {
				pd.Stacks[n] = satAddInt64(pd.Stacks[n], v)
			} else {
				pd.Counters[n] = satAddInt64(pd.Counters[n], v)
			}
		}
	}
	return out
}

// Uploadable filters aggregated data down to what the configuration approves
// for a report with random value x: approved program builds (all five
// identity fields listed), and under each
// the listed counters/stacks whose rate is not below x.
func (c *UploadConfig) Uploadable(data []*ProgramData, x float64) []*ProgramData {
	var out []*ProgramData
	for _, pd := range data {
		if !c.BuildApproved(pd.Program, pd.Version, pd.GoVersion, pd.GOOS, pd.GOARCH) {
			continue
		}
		u := &ProgramData{Build: pd.Build, Counters: map[string]int64{}, Stacks: map[string]int64{}}
		for n, v := range pd.Counters {
			if r, ok := c.CounterRate(pd.Program, n); ok && x <= r {
				u.Counters[n] = v
			}
		}
		for n, v := range pd.Stacks {
			if r, ok := c.StackRate(pd.Program, n); ok && x <= r {
				u.Stacks[n] = v
			}
		}
		out = append(out, u)
	}
	return out
}

// satAddInt64 adds an unsigned counter value to a report value. Reports carry
// signed 64-bit numbers; counter values saturate instead of wrapping (they do
// so in the counter file at 2^64-1), so a sum beyond 2^63-1 is reported as
// 2^63-1, never as a negative or a small number.
func satAddInt64(a int64, v uint64) int64 {
	const max = int64(^uint64(0) >> 1)
	if v > uint64(max) || a > max-int64(v) {
		return max
	}
	return a + int64(v)
}

func SortedKeys[V any](m map[string]V) []string {
	ks := make([]string, 0, len(m))
	for k := range m {
		ks = append(ks, k)
	}
	sort.Strings(ks)
	return ks
}
