package verifref

import "fmt"

// Civil-calendar arithmetic (proleptic Gregorian, UTC) that does not use the
// time package: days since 1970-01-01 from a civil date and back.

func DaysFromCivil(y, m, d int) int64 {
	if m <= 2 {
		y--
	}
	era := y / 400
	if y < 0 {
		era = (y - 399) / 400
	}
	yoe := y - era*400
	mp := (m + 9) % 12
	doy := (153*mp+2)/5 + d - 1
	doe := yoe*365 + yoe/4 - yoe/100 + doy
	return int64(era)*146097 + int64(doe) - 719468
}

func CivilFromDays(z int64) (y, m, d int) {
	z += 719468
	era := z / 146097
	if z < 0 {
		era = (z - 146096) / 146097
	}
	doe := z - era*146097
	yoe := (doe - doe/1460 + doe/36524 - doe/146096) / 365
	yy := yoe + era*400
	doy := doe - (365*yoe + yoe/4 - yoe/100)
	mp := (5*doy + 2) / 153
	d = int(doy - (153*mp+2)/5 + 1)
	m = int(mp + 3)
	if m > 12 {
		m -= 12
	}
	if m <= 2 {
		yy++
	}
	return int(yy), m, d
}

// Weekday of a day number: 0 = Sunday (1970-01-01 was a Thursday).
func Weekday(z int64) int {
	w := (z + 4) % 7
	if w < 0 {
		w += 7
	}
	return int(w)
}

func DateString(z int64) string {
	y, m, d := CivilFromDays(z)
	return fmt.Sprintf("%04d-%02d-%02d", y, m, d)
}

// WeekSpan is the documented span of a counter file opened on day `today`
// (days since epoch) with the configured week-end weekday: it begins today at
// 00:00 UTC and ends at 00:00 UTC of the first later day that falls on that
// weekday, one to seven days ahead.
func WeekSpan(today int64, weekend int) (begin, end int64) {
	k := (weekend - Weekday(today)) % 7
	if k <= 0 {
		k += 7
	}
	return today, today + int64(k)
}
