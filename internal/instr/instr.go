// Package instr is the go/ast rewriter described in DESIGN.md §1.1: it reads a
// current source file of the tree under test and returns an instrumented copy
// with scheduling points, loop ticks and the fault shim. It is purely
// syntactic and only adds calls or redirects calls to same-signature wrappers.
package instr

import (
	"bytes"
	"fmt"
	"go/ast"
	"go/parser"
	"go/printer"
	"go/token"
	"strconv"
	"strings"
)

type Options struct {
	Yields      bool   // scheduling points around atomics, Lock -> verifrt.Lock
	Ticks       bool   // verifrt.Tick() at the top of every for body
	Shim        bool   // os./http./syscall./rand. package-level calls -> verifrt wrappers
	ShimMethods bool   // x.Stat/Close/Write/WriteAt -> generic wrappers
	RtImport    string // import path of verifrt
}

type Stats struct {
	Yields, Ticks, Shims, MethodShims, Locks int
	Points                                   []string
}

var atomicMethods = map[string]bool{"Load": true, "Store": true, "CompareAndSwap": true, "Swap": true, "Add": true, "Do": true,
	// file operations that have no shim of their own: a scheduling point before the
	// statement (there is no type information here: time.Time.Truncate gets one too,
	// which is harmless)
	"Truncate": true, "Sync": true, "Chmod": true, "ReadAt": true}
var plainFuncs = map[string]bool{"munmap": true, "memmap": true}

var osShim = map[string]string{
	"OpenFile": "OsOpenFile", "Open": "OsOpen", "Create": "OsCreate", "ReadFile": "OsReadFile",
	"WriteFile": "OsWriteFile", "MkdirAll": "OsMkdirAll", "Mkdir": "OsMkdir", "Stat": "OsStat", "Lstat": "OsLstat",
	"Remove": "OsRemove", "RemoveAll": "OsRemoveAll", "Rename": "OsRename", "ReadDir": "OsReadDir", "CreateTemp": "OsCreateTemp", "Exit": "OsExit", "Link": "OsLink",
}
var syscallShim = map[string]string{"Mmap": "SyscallMmap", "Munmap": "SyscallMunmap"}
var httpShim = map[string]string{"Post": "HTTPPost"}
var randShim = map[string]string{"Read": "CryptoRandRead"}
var methodShim = map[string]string{"Stat": "FStat", "Close": "FClose", "Write": "FWrite", "WriteAt": "FWriteAt"}

type rw struct {
	opt     Options
	fset    *token.FileSet
	file    *ast.File
	pkgName map[string]string // local import name -> path
	stats   Stats
	fn      string
	ord     int
	noYield int // depth of regions where yields must not be inserted (Once.Do closures)
	used    bool
}

func File(filename string, src []byte, opt Options) ([]byte, Stats, error) {
	fset := token.NewFileSet()
	f, err := parser.ParseFile(fset, filename, src, parser.ParseComments)
	if err != nil {
		return nil, Stats{}, err
	}
	r := &rw{opt: opt, fset: fset, file: f, pkgName: map[string]string{}}
	for _, im := range f.Imports {
		p, _ := strconv.Unquote(im.Path.Value)
		name := p[strings.LastIndex(p, "/")+1:]
		if im.Name != nil {
			name = im.Name.Name
		}
		r.pkgName[name] = p
	}
	for _, d := range f.Decls {
		fd, ok := d.(*ast.FuncDecl)
		if !ok || fd.Body == nil {
			continue
		}
		r.fn = fd.Name.Name
		if fd.Recv != nil && len(fd.Recv.List) == 1 {
			r.fn = recvName(fd.Recv.List[0].Type) + "." + r.fn
		}
		r.ord = 0
		r.block(fd.Body)
	}
	if !r.used {
		return src, r.stats, nil
	}
	// add the runtime import to the first import declaration (a separate
	// declaration would be printed in the middle of comment-attached code such
	// as //go:embed directives)
	spec := &ast.ImportSpec{Name: ast.NewIdent("verifrt"), Path: &ast.BasicLit{Kind: token.STRING, Value: strconv.Quote(opt.RtImport)}}
	added := false
	for _, d := range f.Decls {
		if gd, ok := d.(*ast.GenDecl); ok && gd.Tok == token.IMPORT {
			if gd.Lparen == token.NoPos {
				gd.Lparen = gd.Pos()
				gd.Rparen = gd.End()
			}
			gd.Specs = append(gd.Specs, spec)
			added = true
			break
		}
	}
	if !added {
		imp := &ast.GenDecl{Tok: token.IMPORT, Specs: []ast.Spec{spec}}
		f.Decls = append([]ast.Decl{imp}, f.Decls...)
	}
	// keep possibly now-unused imports alive
	keep := map[string]string{"os": "Args", "net/http": "StatusOK", "syscall": "O_RDONLY", "crypto/rand": "Reader"}
	for name, p := range r.pkgName {
		sym, ok := keep[p]
		if !ok || name == "_" || name == "." {
			continue
		}
		f.Decls = append(f.Decls, &ast.GenDecl{Tok: token.VAR, Specs: []ast.Spec{&ast.ValueSpec{
			Names: []*ast.Ident{ast.NewIdent("_")}, Values: []ast.Expr{&ast.SelectorExpr{X: ast.NewIdent(name), Sel: ast.NewIdent(sym)}}}}})
	}
	var buf bytes.Buffer
	if err := (&printer.Config{Mode: printer.UseSpaces | printer.TabIndent, Tabwidth: 8}).Fprint(&buf, fset, f); err != nil {
		return nil, r.stats, err
	}
	return buf.Bytes(), r.stats, nil
}

func recvName(e ast.Expr) string {
	switch t := e.(type) {
	case *ast.StarExpr:
		return recvName(t.X)
	case *ast.Ident:
		return t.Name
	case *ast.IndexExpr:
		return recvName(t.X)
	case *ast.IndexListExpr:
		return recvName(t.X)
	}
	return "?"
}

func (r *rw) rtCall(fn string, args ...ast.Expr) *ast.CallExpr {
	r.used = true
	return &ast.CallExpr{Fun: &ast.SelectorExpr{X: ast.NewIdent("verifrt"), Sel: ast.NewIdent(fn)}, Args: args}
}

func (r *rw) yieldStmt(kind string) ast.Stmt {
	pt := fmt.Sprintf("%s:%d:%s", r.fn, r.ord, kind)
	r.ord++
	r.stats.Yields++
	r.stats.Points = append(r.stats.Points, pt)
	return &ast.ExprStmt{X: r.rtCall("Yield", &ast.BasicLit{Kind: token.STRING, Value: strconv.Quote(pt)})}
}

func (r *rw) block(b *ast.BlockStmt) {
	if b == nil {
		return
	}
	b.List = r.stmts(b.List)
}

func (r *rw) stmts(list []ast.Stmt) []ast.Stmt {
	var out []ast.Stmt
	for _, s := range list {
		// Lock rewrite
		if r.opt.Yields && r.noYield == 0 {
			if es, ok := s.(*ast.ExprStmt); ok {
				if ce, ok := es.X.(*ast.CallExpr); ok && len(ce.Args) == 0 {
					if se, ok := ce.Fun.(*ast.SelectorExpr); ok && se.Sel.Name == "Lock" && !r.isPkg(se.X) {
						es.X = r.rtCall("Lock", &ast.UnaryExpr{Op: token.AND, X: se.X})
						r.stats.Locks++
						out = append(out, s)
						continue
					}
				}
			}
		}
		if r.opt.Yields && r.noYield == 0 {
			if kind := r.interestingStmt(s); kind != "" {
				out = append(out, r.yieldStmt(kind))
			}
		}
		r.stmt(s)
		out = append(out, s)
	}
	return out
}

// stmt rewrites inside s (nested blocks, expressions).
func (r *rw) stmt(s ast.Stmt) {
	switch s := s.(type) {
	case *ast.BlockStmt:
		r.block(s)
	case *ast.IfStmt:
		if s.Init != nil {
			r.stmt(s.Init)
		}
		r.expr(&s.Cond)
		r.block(s.Body)
		if s.Else != nil {
			r.stmt(s.Else)
		}
	case *ast.ForStmt:
		if s.Init != nil {
			r.stmt(s.Init)
		}
		if s.Cond != nil {
			r.expr(&s.Cond)
		}
		if s.Post != nil {
			r.stmt(s.Post)
		}
		hdr := ""
		if r.opt.Yields && r.noYield == 0 {
			if s.Cond != nil {
				hdr = r.interestingExpr(s.Cond)
			}
			if hdr == "" && s.Post != nil {
				hdr = r.interestingStmt(s.Post)
			}
		}
		r.block(s.Body)
		r.loopTop(s.Body, hdr)
	case *ast.RangeStmt:
		r.expr(&s.X)
		r.block(s.Body)
		r.loopTop(s.Body, "")
	case *ast.SwitchStmt:
		if s.Init != nil {
			r.stmt(s.Init)
		}
		if s.Tag != nil {
			r.expr(&s.Tag)
		}
		for _, c := range s.Body.List {
			cc := c.(*ast.CaseClause)
			for i := range cc.List {
				r.expr(&cc.List[i])
			}
			cc.Body = r.stmts(cc.Body)
		}
	case *ast.TypeSwitchStmt:
		if s.Init != nil {
			r.stmt(s.Init)
		}
		r.stmt(s.Assign)
		for _, c := range s.Body.List {
			cc := c.(*ast.CaseClause)
			cc.Body = r.stmts(cc.Body)
		}
	case *ast.SelectStmt:
		for _, c := range s.Body.List {
			cc := c.(*ast.CommClause)
			cc.Body = r.stmts(cc.Body)
		}
	case *ast.LabeledStmt:
		r.stmt(s.Stmt)
	case *ast.ExprStmt:
		r.expr(&s.X)
	case *ast.AssignStmt:
		for i := range s.Rhs {
			r.expr(&s.Rhs[i])
		}
		for i := range s.Lhs {
			r.expr(&s.Lhs[i])
		}
	case *ast.ReturnStmt:
		for i := range s.Results {
			r.expr(&s.Results[i])
		}
	case *ast.DeferStmt:
		var e ast.Expr = s.Call
		r.expr(&e)
		if ce, ok := e.(*ast.CallExpr); ok {
			s.Call = ce
		}
	case *ast.GoStmt:
		var e ast.Expr = s.Call
		r.expr(&e)
		if ce, ok := e.(*ast.CallExpr); ok {
			s.Call = ce
		}
	case *ast.SendStmt:
		r.expr(&s.Chan)
		r.expr(&s.Value)
	case *ast.IncDecStmt:
		r.expr(&s.X)
	case *ast.DeclStmt:
		if gd, ok := s.Decl.(*ast.GenDecl); ok {
			for _, sp := range gd.Specs {
				if vs, ok := sp.(*ast.ValueSpec); ok {
					for i := range vs.Values {
						r.expr(&vs.Values[i])
					}
				}
			}
		}
	}
}

func (r *rw) loopTop(body *ast.BlockStmt, hdrKind string) {
	var pre []ast.Stmt
	if r.opt.Ticks {
		pre = append(pre, &ast.ExprStmt{X: r.rtCall("Tick")})
		r.stats.Ticks++
	}
	if hdrKind != "" {
		pre = append(pre, r.yieldStmt("for-"+hdrKind))
	}
	if len(pre) > 0 {
		body.List = append(pre, body.List...)
	}
}

func (r *rw) isPkg(e ast.Expr) bool {
	id, ok := e.(*ast.Ident)
	if !ok {
		return false
	}
	_, ok = r.pkgName[id.Name]
	return ok && id.Obj == nil
}

// expr rewrites calls inside *e (shims) and descends into function literals.
func (r *rw) expr(e *ast.Expr) {
	if *e == nil {
		return
	}
	switch x := (*e).(type) {
	case *ast.CallExpr:
		// Once.Do(func(){...}): no yields inside the closure (a second caller
		// would block for real inside Do while the first is parked).
		isDo := false
		if se, ok := x.Fun.(*ast.SelectorExpr); ok && se.Sel.Name == "Do" {
			isDo = true
		}
		r.expr(&x.Fun)
		for i := range x.Args {
			if isDo {
				r.noYield++
			}
			r.expr(&x.Args[i])
			if isDo {
				r.noYield--
			}
		}
		if se, ok := x.Fun.(*ast.SelectorExpr); ok {
			if r.isPkg(se.X) {
				if r.opt.Shim && r.noYield == 0 {
					pkg := r.pkgName[se.X.(*ast.Ident).Name]
					var m map[string]string
					switch pkg {
					case "os":
						m = osShim
					case "syscall":
						m = syscallShim
					case "net/http":
						m = httpShim
					case "crypto/rand":
						m = randShim
					}
					if nm, ok := m[se.Sel.Name]; ok {
						r.used = true
						x.Fun = &ast.SelectorExpr{X: ast.NewIdent("verifrt"), Sel: ast.NewIdent(nm)}
						r.stats.Shims++
					}
				}
			} else if r.opt.ShimMethods && r.noYield == 0 {
				if nm, ok := methodShim[se.Sel.Name]; ok && arityOK(se.Sel.Name, len(x.Args)) && x.Ellipsis == token.NoPos {
					r.used = true
					x.Fun = &ast.SelectorExpr{X: ast.NewIdent("verifrt"), Sel: ast.NewIdent(nm)}
					x.Args = append([]ast.Expr{se.X}, x.Args...)
					r.stats.MethodShims++
				}
			}
		}
	case *ast.FuncLit:
		r.block(x.Body)
	case *ast.ParenExpr:
		r.expr(&x.X)
	case *ast.UnaryExpr:
		r.expr(&x.X)
	case *ast.BinaryExpr:
		r.expr(&x.X)
		r.expr(&x.Y)
	case *ast.SelectorExpr:
		r.expr(&x.X)
	case *ast.IndexExpr:
		r.expr(&x.X)
		r.expr(&x.Index)
	case *ast.SliceExpr:
		r.expr(&x.X)
		r.expr(&x.Low)
		r.expr(&x.High)
		r.expr(&x.Max)
	case *ast.StarExpr:
		r.expr(&x.X)
	case *ast.TypeAssertExpr:
		r.expr(&x.X)
	case *ast.CompositeLit:
		for i := range x.Elts {
			r.expr(&x.Elts[i])
		}
	case *ast.KeyValueExpr:
		r.expr(&x.Value)
	}
}

func arityOK(name string, n int) bool {
	switch name {
	case "Stat", "Close":
		return n == 0
	case "Write":
		return n == 1
	case "WriteAt":
		return n == 2
	}
	return false
}

// interestingStmt reports the kind of the first shared-memory operation in the
// statement's own expressions (not nested blocks or function literals).
func (r *rw) interestingStmt(s ast.Stmt) string {
	switch s := s.(type) {
	case *ast.ExprStmt:
		return r.interestingExpr(s.X)
	case *ast.AssignStmt:
		for _, e := range s.Rhs {
			if k := r.interestingExpr(e); k != "" {
				return k
			}
		}
		for _, e := range s.Lhs {
			if k := r.interestingExpr(e); k != "" {
				return k
			}
		}
	case *ast.ReturnStmt:
		for _, e := range s.Results {
			if k := r.interestingExpr(e); k != "" {
				return k
			}
		}
	case *ast.IfStmt:
		if s.Init != nil {
			if k := r.interestingStmt(s.Init); k != "" {
				return k
			}
		}
		return r.interestingExpr(s.Cond)
	case *ast.SwitchStmt:
		if s.Init != nil {
			if k := r.interestingStmt(s.Init); k != "" {
				return k
			}
		}
		if s.Tag != nil {
			return r.interestingExpr(s.Tag)
		}
	case *ast.IncDecStmt:
		return r.interestingExpr(s.X)
	case *ast.SendStmt:
		return r.interestingExpr(s.Value)
	case *ast.DeclStmt:
		if gd, ok := s.Decl.(*ast.GenDecl); ok {
			for _, sp := range gd.Specs {
				if vs, ok := sp.(*ast.ValueSpec); ok {
					for _, v := range vs.Values {
						if k := r.interestingExpr(v); k != "" {
							return k
						}
					}
				}
			}
		}
	case *ast.LabeledStmt:
		return r.interestingStmt(s.Stmt)
	}
	return ""
}

func (r *rw) interestingExpr(e ast.Expr) string {
	kind := ""
	ast.Inspect(e, func(n ast.Node) bool {
		if kind != "" {
			return false
		}
		switch x := n.(type) {
		case *ast.FuncLit:
			return false
		case *ast.CallExpr:
			switch f := x.Fun.(type) {
			case *ast.SelectorExpr:
				if r.isPkg(f.X) {
					if r.pkgName[f.X.(*ast.Ident).Name] == "sync/atomic" {
						kind = "atomic." + f.Sel.Name
						return false
					}
				} else if atomicMethods[f.Sel.Name] {
					kind = f.Sel.Name
					return false
				}
			case *ast.Ident:
				if plainFuncs[f.Name] {
					kind = f.Name
					return false
				}
			}
		}
		return true
	})
	return kind
}
