module verif.local

go 1.23.0

require github.com/anishathalye/porcupine v1.3.0
